#!/bin/sh
# Builds /verif/.venv offline: python 3.12 of /venv + z3-solver, cvc5, jsonschema
# from /opt/veriftools/wheels, with a .pth that adds /venv's site-packages (numpy,
# scipy, sympy, dill, klepto and the editable install of /repo).
set -e
HERE="$(cd "$(dirname "$0")" && pwd)"
V="$HERE/.venv"
if [ -x "$V/bin/python" ] && "$V/bin/python" -c "import z3, cvc5, jsonschema, numpy, mystic" 2>/dev/null; then
  echo "setup: $V already usable"; exit 0
fi
rm -rf "$V"
/venv/bin/python -m venv --without-pip "$V"
SP="$("$V/bin/python" -c 'import sysconfig;print(sysconfig.get_paths()["purelib"])')"
echo "import site; site.addsitedir('/venv/lib/python3.12/site-packages')" > "$SP/_venv_overlay.pth"
PIP_NO_INDEX=1 /venv/bin/python -m pip --python "$V/bin/python" install --no-index \
   --find-links /opt/veriftools/wheels z3-solver cvc5 jsonschema >/dev/null 2>&1 || {
  # fall back: unpack wheels by hand
  for w in z3_solver-5.1.0.0 cvc5-1.4.0-cp312 jsonschema-4.26.0 jsonschema_specifications referencing attrs rpds_py-2026.6.3-cp312 typing_extensions; do
    f=$(ls /opt/veriftools/wheels/${w}*.whl | head -1)
    "$V/bin/python" - "$f" "$SP" <<'PY'
import sys, zipfile
zipfile.ZipFile(sys.argv[1]).extractall(sys.argv[2])
PY
  done
}
"$V/bin/python" -c "import z3, cvc5, jsonschema, numpy, mystic; print('setup: ok', z3.get_version_string())"
