#!/usr/bin/env python3
"""Regenerates MANIFEST.json from manifest_src.py-like table below (kept in one place so it stays valid)."""
import json, os
HERE = os.path.dirname(os.path.abspath(__file__))
CHECKS = json.load(open(os.path.join(HERE, 'manifest_checks.json')))
props = [json.loads(l)['id'] for l in open(os.path.join(HERE, 'properties.jsonl'))]
checks = []
for pid in props:
    c = CHECKS.get(pid)
    if not c:
        continue
    checks.append({
        'property_id': pid,
        'quick_cmd': './check %s --tier quick' % pid,
        'thorough_cmd': './check %s --tier thorough' % pid,
        'evidence_file': 'evidence/%s.json' % pid,
        'replay_cmd_template': './check --replay {path}',
        'engine': 'pyvc',
        'level_claimed': {'category': c['category'], 'text': c['text'], 'design_ref': c.get('design_ref', 'DESIGN.md §4 ' + pid)},
        'level_note': c['note'],
        'technique': c['technique'],
    })
na = [{'property_id': p, 'reason': CHECKS.get('_na', {}).get(p, 'check not built yet in this revision (see DESIGN.md §10 build order)')}
      for p in props if p not in CHECKS]
m = {
    'version': 1,
    'setup_cmd': './setup.sh',
    'hooks': {'guard': 'MYSTIC_VERIF', 'enable': 'none needed: contracts are sidecar files, no instrumentation is compiled into /repo',
              'baseline_off_cmd': 'cd /repo && /venv/bin/python -m pytest -ra -q -p no:cacheprovider --timeout=900 --continue-on-collection-errors',
              'source_commits': [], 'add_only': True},
    'engines': [{'name': 'pyvc', 'path': 'pyvc/', 'serves_properties': [c['property_id'] for c in checks],
                 'kind_free_text': 'verification-condition generator: symbolic interpreter over the ast of the real /repo source, '
                                   'sidecar contracts (contracts/*.py), z3 5.1 with cvc5 fallback; the same contracts run natively '
                                   '(CPython) for counterexample replay, random cross-check and the bounded layer rtc/'}],
    'checks': checks,
    'not_applicable': na,
    'notes': 'Exit 0 = nothing violated (KNOWN-FINDING lines allowed), 1 = VIOLATION, 3 = checker failure. See DESIGN.md.',
}
if not na:
    del m['not_applicable']
json.dump(m, open(os.path.join(HERE, 'MANIFEST.json'), 'w'), indent=1)
print('checks:', len(checks), 'not_applicable:', len(na))
