#!/usr/bin/env python3
"""compare a junit xml with the pinned stable_pass list: prints missing/failed pinned tests"""
import sys, json, xml.etree.ElementTree as ET
base = json.load(open('/root/.vp/BASELINE.json'))
want = set(base['stable_pass'])
got = {}
for tc in ET.parse(sys.argv[1]).getroot().iter('testcase'):
    name = '%s::%s' % (tc.get('classname'), tc.get('name'))
    bad = any(c.tag in ('failure', 'error', 'skipped') for c in tc)
    got[name] = not bad
missing = sorted(n for n in want if not got.get(n, False))
newpass = sorted(n for n, ok in got.items() if ok and n not in want)
print('pinned: %d, passing now: %d, pinned-but-not-passing: %d, passing-but-not-pinned: %d' % (len(want), sum(got.get(n, False) for n in want), len(missing), len(newpass)))
for n in missing: print('  MISSING', n)
for n in newpass[:20]: print('  NEW', n)
sys.exit(1 if missing else 0)
