"""Second back end for one class of obligations: identities between rational functions of the real inputs.

z3's nonlinear solver does not terminate on claims such as  Var(x + (m - Mean(x))) == Var(x)  for 3-4 points (quotients
of polynomials in 8 variables), while the claim is decidable by normal forms: lhs - rhs is put over a common
denominator and the numerator is expanded (sympy `cancel`); a zero numerator proves the equality at every point where
the denominators occurring in the terms are non-zero -- which the path condition guarantees, because a division by zero
is a raised ZeroDivisionError on a different path (models._arith).  sqrt is kept as sympy's sqrt (sqrt(a)**2 -> a), which
is sound for a >= 0, again guaranteed by the path (models.power branches on it).  If-then-else terms are resolved with
the (quantifier-free part of the) path condition: If(c, a, b) is b when  pc and c  implies a == b, and a when
pc and not c  implies a == b (small z3 side queries, 2 s each); otherwise the claim is left to z3.

Only claims that are conjunctions of equalities between quantifier-free real terms built from + - * / ** constants and
variables are accepted; anything else returns None (undecided here).  A `False` answer (not an identity) is NOT a
refutation: the claim may still follow from the path condition -- the caller keeps z3's verdict."""
import signal
import z3


class _Give(Exception):
    pass


def _conj(claim):
    if z3.is_and(claim):
        out = []
        for c in claim.children():
            out.extend(_conj(c))
        return out
    return [claim]


def _to_sympy(t, sp, syms, pc=()):
    # terms are DAGs with heavy sharing: memoise by term id (the dict lives in `syms` under a reserved key)
    memo = syms.setdefault('\0memo', {})
    k0 = t.get_id()
    if k0 in memo:
        return memo[k0][1]
    r = _to_sympy0(t, sp, syms, pc)
    memo[k0] = (t, r)
    return r


def _to_sympy0(t, sp, syms, pc=()):
    if z3.is_rational_value(t):
        return sp.Rational(t.numerator_as_long(), t.denominator_as_long())
    if z3.is_int_value(t):
        return sp.Integer(t.as_long())
    if z3.is_const(t) and t.decl().kind() == z3.Z3_OP_UNINTERPRETED:
        nm = t.decl().name()
        if nm not in syms:
            syms[nm] = sp.Symbol('v%d_%s' % (len(syms), ''.join(ch for ch in nm if ch.isalnum())), real=True)
        return syms[nm]
    k = t.decl().kind()
    ch = [_to_sympy(c, sp, syms, pc) for c in t.children()] if k in (
        z3.Z3_OP_ADD, z3.Z3_OP_SUB, z3.Z3_OP_MUL, z3.Z3_OP_DIV, z3.Z3_OP_UMINUS, z3.Z3_OP_TO_REAL, z3.Z3_OP_POWER) else None
    if k == z3.Z3_OP_ADD:
        return sp.Add(*ch)
    if k == z3.Z3_OP_MUL:
        return sp.Mul(*ch)
    if k == z3.Z3_OP_SUB:
        r = ch[0]
        for c in ch[1:]:
            r = r - c
        return r
    if k == z3.Z3_OP_UMINUS:
        return -ch[0]
    if k == z3.Z3_OP_DIV:
        return ch[0] / ch[1]
    if k == z3.Z3_OP_TO_REAL:
        return ch[0]
    if k == z3.Z3_OP_POWER:
        if not (ch[1].is_Integer and 0 <= int(ch[1]) <= 8):
            raise _Give()
        return ch[0] ** ch[1]
    if k == z3.Z3_OP_ITE:
        # If(c, a, b) with c => a == b (e.g. `0.0 if abs(s) <= tol else s` at tol = 0) is b; with not c => a == b it is a.
        # The side condition is a small query for z3 (linear once the nonlinear subterms are taken as units).
        c, a, b = t.children()
        amemo = syms.setdefault('\0abs', {})
        ca, aa, ba = (_abstract(u, amemo) for u in (c, a, b))
        # first with every nonlinear subterm replaced by a fresh constant and no path condition (unsat there implies
        # unsat here; decided at once: the typical case is `0 if abs(M) <= 0 else M`), then with the path condition
        for facts in ((), tuple(_abstract(f, amemo) for f in pc)):
            for cond, keep in ((ca, b), (z3.Not(ca), a)):
                sv = z3.Solver()
                sv.set('timeout', 2000)
                sv.add(*facts)
                sv.add(cond, aa != ba)
                if sv.check() == z3.unsat:
                    return _to_sympy(keep, sp, syms, pc)
        raise _Give()
    if k == z3.Z3_OP_UNINTERPRETED and t.decl().name() == 'SQRT' and t.num_args() == 1:
        # sqrt(a) becomes an algebraic generator S with S**2 = a (reduced in _is_zero); sympy's own sqrt objects make
        # `cancel` miss identities (the same radical appears in several un-normalised shapes)
        arg = _to_sympy(t.arg(0), sp, syms, pc)
        roots = syms.setdefault('\0roots', [])
        key = sp.srepr(arg)
        for k_, S_, a_ in roots:
            if k_ == key:
                return S_
        S_ = sp.Symbol('sqrt%d' % len(roots), real=True)
        roots.append((key, S_, arg))
        return S_
    if k == z3.Z3_OP_UNINTERPRETED and t.num_args() > 0 and z3.is_arith(t):
        # application of an uninterpreted (abstract) function: an atomic generator, one symbol per distinct term
        # (sound for proving identities: whatever value the application has, the identity holds for it)
        key = '\0app:' + t.sexpr()
        if key not in syms:
            syms[key] = sp.Symbol('app%d' % len(syms), real=True)
        return syms[key]
    raise _Give()


def _abstract(t, memo):
    """t with every maximal nonlinear subterm (product / quotient of non-constants, power, application of a real-valued
    uninterpreted function such as SQRT) replaced by a fresh constant of the same sort (the same constant for the same
    subterm, through `memo`): an over-approximation, so `unsat` carries over"""
    if isinstance(t, bool):
        return t
    found = []
    stack, seen = [t], set()
    while stack:
        x = stack.pop()
        i = x.get_id()
        if i in seen:
            continue
        seen.add(i)
        if z3.is_quantifier(x) or x.num_args() == 0:
            continue
        k = x.decl().kind()
        nonconst = sum(1 for c in x.children() if not (z3.is_rational_value(c) or z3.is_int_value(c)))
        if (k == z3.Z3_OP_MUL and nonconst >= 2) or \
                (k in (z3.Z3_OP_DIV, z3.Z3_OP_IDIV, z3.Z3_OP_MOD) and not (z3.is_rational_value(x.arg(1)) or z3.is_int_value(x.arg(1)))) or \
                k == z3.Z3_OP_POWER or (k == z3.Z3_OP_UNINTERPRETED and x.sort() == z3.RealSort()):
            found.append(x)
            continue
        stack.extend(x.children())
    if not found:
        return t
    pairs = []
    for x in found:
        i = x.get_id()
        if i not in memo or not memo[i][0].eq(x):
            memo[i] = (x, z3.Const('abs!%d' % len(memo), x.sort()))
        pairs.append(memo[i])
    return z3.substitute(t, *pairs)


def _is_zero(d, sp, roots):
    """is the rational function d (in the input symbols and the radical generators S_i, S_i**2 = a_i) identically 0?
    Sufficient test: numerator reduced modulo S_i**2 = a_i has all coefficients zero."""
    num = sp.expand(sp.numer(sp.cancel(sp.together(d))))
    for _, S, a in reversed(roots):          # later radicals may contain earlier ones in their argument
        if not num.has(S):
            continue
        P = sp.Poly(num, S)
        red = 0
        for (i,), c in P.terms():
            red += c * a ** (i // 2) * S ** (i % 2)
        num = sp.expand(sp.numer(sp.cancel(sp.together(red))))
    return num == 0


def _alarm(*a):
    raise TimeoutError()


def prove_identities(claim, pc=(), budget_s=20):
    """True: every conjunct of `claim` is an equality of rational functions that holds identically.
    False / None: not of that form, not an identity, or not decided within the budget."""
    try:
        import sympy as sp
    except ImportError:
        return None
    eqs = _conj(claim)
    if not eqs or not all(z3.is_eq(e) and e.arg(0).sort() == z3.RealSort() for e in eqs):
        return None
    old = signal.signal(signal.SIGVTALRM, _alarm)
    signal.setitimer(signal.ITIMER_VIRTUAL, budget_s)
    try:
        syms = {}
        for e in eqs:
            d = _to_sympy(e.arg(0), sp, syms, pc) - _to_sympy(e.arg(1), sp, syms, pc)
            if not _is_zero(d, sp, syms.get('\0roots', [])):
                return False
        return True
    except (_Give, TimeoutError, RecursionError):
        return None
    finally:
        signal.setitimer(signal.ITIMER_VIRTUAL, 0)
        signal.signal(signal.SIGVTALRM, old)


def nonzero_multiple(t, facts, pc=(), budget_s=3):
    """True when the real term `t` is identically  q * f  for a non-zero rational constant q and some term f of `facts`
    (terms known to be non-zero on this path): then  t == 0  is infeasible.  None / False: not shown."""
    try:
        import sympy as sp
    except ImportError:
        return None
    old = signal.signal(signal.SIGVTALRM, _alarm)
    signal.setitimer(signal.ITIMER_VIRTUAL, budget_s)
    try:
        syms = {}
        d = _to_sympy(t, sp, syms, pc)
        for f in facts:
            try:
                g = _to_sympy(f, sp, syms, pc)
            except _Give:
                continue                         # a fact outside the rational-function fragment says nothing here
            if syms.get('\0roots'):
                return None                      # radicals: leave to the solvers
            r = sp.cancel(sp.together(d / g))
            if r.is_number and r != 0:
                return True
        return False
    except (_Give, TimeoutError, RecursionError, ZeroDivisionError):
        return None
    finally:
        signal.setitimer(signal.ITIMER_VIRTUAL, 0)
        signal.signal(signal.SIGVTALRM, old)


def looks_polynomial(claim):
    """cheap test used to decide whether to try this back end BEFORE z3: a conjunction of real equalities with at least
    one product/quotient of two non-constant terms"""
    eqs = _conj(claim)
    if not eqs or not all(z3.is_eq(e) and e.arg(0).sort() == z3.RealSort() for e in eqs):
        return False
    stack, seen, n = list(eqs), set(), 0
    while stack and n < 4000:
        t = stack.pop()
        if t.get_id() in seen:
            continue
        seen.add(t.get_id())
        n += 1
        if z3.is_quantifier(t):
            return False
        k = t.decl().kind()
        if k not in (z3.Z3_OP_ADD, z3.Z3_OP_SUB, z3.Z3_OP_MUL, z3.Z3_OP_DIV, z3.Z3_OP_UMINUS, z3.Z3_OP_TO_REAL, z3.Z3_OP_POWER,
                     z3.Z3_OP_ITE, z3.Z3_OP_EQ, z3.Z3_OP_UNINTERPRETED, z3.Z3_OP_ANUM, z3.Z3_OP_LE, z3.Z3_OP_GE, z3.Z3_OP_LT,
                     z3.Z3_OP_GT, z3.Z3_OP_NOT, z3.Z3_OP_AND, z3.Z3_OP_OR):
            return False
        if k in (z3.Z3_OP_MUL, z3.Z3_OP_DIV, z3.Z3_OP_POWER):
            if sum(1 for c in t.children() if not (z3.is_rational_value(c) or z3.is_int_value(c))) >= 2 or k == z3.Z3_OP_POWER:
                return True
        stack.extend(t.children())
    return False
