"""Dual-mode harness: the same contract text runs symbolically (pyvc) and natively (CPython: replay,
random cross-check, bounded run-time checking)."""
import ast
import math
import random as _random
import time
import importlib
import z3
from fractions import Fraction
from .values import *
from .state import State, Obl
from .interp import Interp, Env, LoopSpec, ExcVal
from . import models as Mo
from . import modules as M


import sys as _sys
if M.REPO not in _sys.path:
    _sys.path.insert(0, M.REPO)      # native mode imports mystic from the tree under verification


def split_anchor(anchor):
    rel, qual = anchor.split('::')
    return rel, qual


# =========================================================================== symbolic mode
class SymH:
    mode = 'sym'

    def __init__(self, st, loops=None, summaries=None, concretize=None):
        self.st = st
        self.I = Interp(st, loops, summaries)
        self.ufs = {}
        self.labels = []
        self.concretize = concretize or {}     # size parameters fixed to small constants (DESIGN 2.6, phase 2)
        self._inf_axiom()

    # ------------------------------------------------------------ symbols
    def _reg(self, name, fn):
        self.st.symbols[name] = fn

    def real(self, name, inf=False):
        v = self.st.fresh(name, 'real')
        self._reg(name, lambda m, t=v.t: _num(m, t))
        self._inf_axiom()
        self.st.assume(z3.And(-INF <= v.t, v.t <= INF) if inf else z3.And(-INF < v.t, v.t < INF))
        self.st.value_terms.append(v.t)
        return v

    def _inf_axiom(self):
        if not getattr(self, '_inf_done', False):
            self._inf_done = True
            self.st.assume(INF >= z3.RealVal(2) ** 1024)
            self._reg('INF', lambda m: _num(m, INF))

    def int(self, name):
        if name in self.concretize:
            k = int(self.concretize[name])
            self._reg(name, lambda m, k=k: k)
            return k
        v = self.st.fresh(name, 'int')
        self._reg(name, lambda m, t=v.t: _num(m, t))
        self.st.size_terms.append(v.t)
        return v

    def bool(self, name):
        v = self.st.fresh(name, 'bool')
        self._reg(name, lambda m, t=v.t: bool(z3.is_true(m.eval(t, model_completion=True))))
        return v

    def inf(self):
        self._reg('INF', lambda m: _num(m, INF))
        return SV(INF, 'real')

    def choice(self, name, options):
        """kind fork over concrete alternatives"""
        k = self.st.choose(len(options), name)
        self._reg(name, lambda m, kk=k: kk)
        return options[k]

    def list_real(self, name, nd=False, ek='real', minlen=0, inf=False, n=None):
        """numeric list of symbolic length (n: its length, when the contract fixes it)"""
        if isinstance(n, int) and not isinstance(n, bool):
            items = [self.real('%s_%d' % (name, k), inf=inf) if ek == 'real' else self.int('%s_%d' % (name, k))
                     for k in range(n)]
            r = self.st.alloc('clist', items, name=name, nd=nd)
            self._reg(name, lambda m, items=items: [_num(m, x.t) if isinstance(x, SV) else x for x in items])
            return r
        arr = z3.Array(name + '_a', z3.IntSort(), z3.RealSort() if ek == 'real' else z3.IntSort())
        ln = z3.Int(name + '_n')
        self.st.assume(ln >= minlen)
        self.st.size_terms.append(ln)
        if ek == 'real':
            self._inf_axiom()
            kq = z3.Int(name + '_kq')
            sel = z3.Select(arr, kq)
            self.st.assume(z3.ForAll([kq], z3.And(-INF <= sel, sel <= INF) if inf else z3.And(-INF < sel, sel < INF)))
        r = self.st.alloc('slist', {'len': ln, 'arr': arr, 'ek': ek}, name=name, nd=nd)
        if n is not None:
            self.st.assume(ln == zint(n))

        def get(m, ln=ln, arr=arr):
            n = _num(m, ln)
            n = min(int(n), 12)
            return [_num(m, z3.Select(arr, k)) for k in range(n)]
        self._reg(name, get)
        return r

    def list_int(self, name, nd=False):
        return self.list_real(name, nd, 'int')

    def matrix(self, name, nrows, ncols, nd=True):
        """2-d array / list of separate rows with symbolic shape (by-value rows: rows are distinct objects)"""
        if isinstance(nrows, int) and isinstance(ncols, int):
            rows = [self.list_real('%s_%d' % (name, i), nd=nd, n=ncols) for i in range(nrows)]
            r = self.st.alloc('clist', rows, name=name, nd=False)
            return r
        rows = z3.Array(name + '_r', z3.IntSort(), z3.ArraySort(z3.IntSort(), z3.RealSort()))
        r = self.st.alloc('rows', {'len': zint(nrows), 'rows': rows, 'ncols': zint(ncols)}, name=name, nd=nd)
        self._inf_axiom()
        a, b = z3.Int(name + '_qa'), z3.Int(name + '_qb')
        sel = z3.Select(z3.Select(rows, a), b)
        self.st.assume(z3.ForAll([a, b], z3.And(-INF < sel, sel < INF)))
        self.st.assumptions.add('rows of a 2-d population are separate objects (no two rows alias)')

        def get(m, rows=rows, nr=zint(nrows), nc=zint(ncols)):
            R, Cn = min(int(_num(m, nr)), 8), min(int(_num(m, nc)), 8)
            return [[_num(m, z3.Select(z3.Select(rows, i), j)) for j in range(Cn)] for i in range(R)]
        self._reg(name, get)
        return r

    def clist(self, items, nd=False, name=None):
        return self.st.alloc('clist', list(items), name=name, nd=nd)

    def vec(self, name, n, nd=False, kind='real'):
        """list of concrete length n with symbolic entries"""
        items = [getattr(self, kind)('%s_%d' % (name, k)) for k in range(n)]
        return self.st.alloc('clist', items, name=name, nd=nd)

    def tup(self, *items):
        return tuple(items)

    def dict(self, **kw):
        return self.st.alloc('dict', dict(kw))

    def none(self):
        return None

    def string(self, name, nonempty=True):
        return SStr(name, nonempty=nonempty)

    def obj(self, cls=None, open=False, **fields):
        r = self.st.alloc('obj', dict(fields), name=(cls or 'obj'))
        if cls is not None:
            c = self.get(cls)
            r.cls = c.info
            _ = c.info.bases
        if open:
            self.st.heap[r]['__open__'] = True
        return r

    def tuple_obj(self, cls, items):
        c = self.get(cls)
        r = self.st.alloc('obj', {'__items__': list(items)}, name=c.info.name)
        r.cls = c.info
        _ = c.info.bases
        return r

    def field(self, obj, name):
        return self.st.heap[obj].get(name, UNDEF)

    def has_field(self, obj, name):
        return name in self.st.heap[obj]

    def set_field(self, obj, name, v):
        self.st.heap[obj][name] = v

    # ------------------------------------------------------------ abstract callables
    def fn(self, name, ret='real', raises=(), attrs=None, missing=(), pure=True, nargs=None, sym=None, native=None,
           log=None, mutates=False, minlen=0, inplace=False, truthy=None):
        """abstract callable.  truthy: truth value of the callable object itself (None: an ordinary function, true).  inplace: the (list) result is written into argument 0, which is returned (the way
        mystic's own generated constraints work).  ret: real | int | bool | opaque | list | same (returns a list of the length of arg 0).
        Deterministic in its numeric/list arguments (uninterpreted function).  `raises`: exception type names
        that it may raise (decided by an uninterpreted predicate of the arguments)."""
        H = self

        def impl(I, args, kwargs):
            if sym is not None:
                return sym(H, I, args, kwargs)
            if log is not None:
                H.st.ghost.setdefault(log, []).append(tuple(Mo.snapshot(I, a) for a in args))
            if inplace:
                res = impl0(I, args, kwargs)
                Mo.list_assign_all(I, args[0], res)
                return args[0]
            if mutates:
                res = impl0(I, args, kwargs)
                for a in args:
                    if Mo.is_list(a):
                        I.st.note_write(a)
                        if a.kind == 'slist':
                            c = dict(I.st.heap[a])
                            c['arr'] = z3.Array(I.st.fresh_name(name + '_mut'), z3.IntSort(),
                                                z3.RealSort() if c['ek'] == 'real' else z3.IntSort())
                            I.st.heap[a] = c
                        else:
                            I.st.heap[a] = [I.havoc_like(x, name + '_mut') if numkind(x) else x for x in I.st.heap[a]]
                return res
            return impl0(I, args, kwargs)

        def impl0(I, args, kwargs):
            enc = []
            for a in list(args) + [kwargs[k] for k in sorted(kwargs)]:
                enc.extend(H._encode(a))
            sig = tuple(e.sort() for e in enc)
            H._congruence(name, enc)
            for ex in raises:
                p = H._uf(name + '!raises_' + ex, sig, z3.BoolSort())
                if I.st.branch(p(*enc) if enc else p()):
                    raise PyExc(ex)
            if ret in ('real', 'int', 'bool', 'xreal'):
                f = H._uf(name, sig, {'real': z3.RealSort(), 'xreal': z3.RealSort(), 'int': z3.IntSort(), 'bool': z3.BoolSort()}[ret])
                t = f(*enc) if enc else f()
                if ret in ('real', 'xreal'):
                    H._inf_axiom()
                    I.st.assume(z3.And(-INF < t, t < INF) if ret == 'real' else z3.And(-INF < t, t <= INF))
                    I.st.value_terms.append(t)
                return SV(t, 'real' if ret == 'xreal' else ret)
            if ret == 'opaque':
                f = H._uf(name + '!truthy', sig, z3.BoolSort())
                return SOpaque(name, f(*enc) if enc else f())
            if ret == 'same_nd_int':
                # an INTEGER-typed ndarray of the argument's (concrete) length: componentwise integer functions
                if Mo.seq_items(I, args[0]) is None:
                    raise Unsupported('same_nd_int over a symbolic-length argument')
                out = []
                for j in range(len(Mo.seq_items(I, args[0]))):
                    fj = H._uf('%s!i%d' % (name, j), sig, z3.IntSort())
                    out.append(SV(fj(*enc), 'int'))
                return I.st.alloc('clist', out, name=name + '_res', nd=True)
            if ret in ('same', 'same_nd') and Mo.seq_items(I, args[0]) is not None:
                # concrete length: componentwise scalar functions (quantifier-free encoding)
                nn = len(Mo.seq_items(I, args[0]))
                out = []
                for j in range(nn):
                    fj = H._uf('%s!e%d' % (name, j), sig, z3.RealSort())
                    t = fj(*enc)
                    H._inf_axiom()
                    I.st.assume(z3.And(-INF < t, t < INF))
                    I.st.value_terms.append(t)
                    out.append(SV(t, 'real'))
                return I.st.alloc('clist', out, name=name + '_res', nd=(ret == 'same_nd'))
            if ret in ('list', 'same', 'ndarray', 'same_nd'):
                fa = H._uf(name + '!arr', sig, z3.ArraySort(z3.IntSort(), z3.RealSort()))
                H._inf_axiom()
                kq = z3.Int(I.st.fresh_name(name + '_kq'))
                I.st.assume(z3.ForAll([kq], z3.And(-INF < z3.Select(fa(*enc), kq), z3.Select(fa(*enc), kq) < INF)))
                if ret.startswith('same'):
                    ln = Mo.to_slist(I, args[0])[0]
                else:
                    fl = H._uf(name + '!len', sig, z3.IntSort())
                    ln = fl(*enc)
                    I.st.assume(ln >= minlen)
                return I.st.alloc('slist', {'len': ln, 'arr': fa(*enc), 'ek': 'real'}, name=name + '_res',
                                  nd=ret in ('ndarray', 'same_nd'))
            if ret == 'none':
                return None
            raise Unsupported('abstract return kind %s' % ret)
        f = AbsFun(name, impl)
        f.attrs.update(attrs or {})
        f.attrs.setdefault('__name__', name)
        f.attrs.setdefault('__doc__', None)
        f.missing_attrs = set(missing)
        f.all_missing = True
        f.native = native
        f.truthy = truthy
        f.spec = dict(ret=ret, raises=tuple(raises))
        return f

    def log(self, name):
        return tuple(self.st.ghost.get(name, []))

    def spec(self, name, value, pure=False):
        """make a spec function / ghost object visible by name in contract expressions and loop invariants"""
        self.I.spec_names[name] = value
        if pure:
            from . import interp as _ip
            _ip.PURE_SPEC_CALLS.add(name)

    def set_summaries(self, table):
        """callee contracts that depend on per-path abstract callables: (relpath, qualname) -> summary"""
        self.I.summaries.update(table)

    def _congruence(self, name, enc):
        """lists are passed to uninterpreted functions as (len, array); two argument tuples that agree on
        [0,len) denote the same python lists, so they must get the same results.  Instantiated pairwise
        (the quantifier sits in an antecedent: it skolemises, so sat-queries stay decidable)."""
        apps = self.__dict__.setdefault('_apps', {}).setdefault(name, [])
        if not any(z3.is_array(e) for e in enc):
            return
        for old in apps:
            if len(old) != len(enc) or any(a.sort() != b.sort() for a, b in zip(old, enc)):
                continue
            same = []
            j = 0
            while j < len(enc):
                if j + 1 < len(enc) and z3.is_array(enc[j + 1]) and enc[j].sort() == z3.IntSort():
                    k = z3.Int(self.st.fresh_name('k!cg'))
                    same.append(enc[j] == old[j])
                    same.append(z3.ForAll([k], z3.Implies(z3.And(k >= 0, k < enc[j]),
                                                          z3.Select(enc[j + 1], k) == z3.Select(old[j + 1], k))))
                    j += 2
                else:
                    same.append(enc[j] == old[j])
                    j += 1
            eqs = []
            for uname, (f, (sig, ret)) in self.ufs.items():
                if (uname == name or uname.startswith(name + '!')) and len(sig) == len(enc) and \
                        all(sg == e.sort() for sg, e in zip(sig, enc)):
                    eqs.append(f(*enc) == f(*old))
            if eqs:
                self.st.assume(z3.Implies(z3.And(*same), z3.And(*eqs)))
        apps.append(list(enc))
        self.__dict__.setdefault('_pending_cg', []).append((name, list(enc)))

    def _uf(self, name, sig, ret):
        key = name
        if key in self.ufs:
            f, s = self.ufs[key]
            if s != (sig, ret):
                raise Unsupported('abstract function %s used with two signatures' % name)
            return f
        f = z3.Function(name, *(list(sig) + [ret])) if sig else (lambda nm=name, r=ret: z3.Const(nm, r))
        self.ufs[key] = (f, (sig, ret))
        self.st.uf_tables[name] = f
        return f

    def _encode(self, a):
        if numkind(a) is not None:
            k = numkind(a)
            return [zreal(a)] if k == 'real' else [z3.ToReal(zint(a))]
        if Mo.is_list(a) or isinstance(a, tuple):
            items = Mo.seq_items(self.I, a)
            if items is None and isinstance(a, Ref) and a.kind == 'slist':
                items = Mo.concrete_iter(self.I, a)
            if items is not None:
                out = [z3.IntVal(len(items))]
                for x in items:
                    out.extend(self._encode(x))
                return out
            ln, arr, ek = Mo.to_slist(self.I, a)
            arr = Mo._coerce_arr(arr, ek, 'real')
            # entries outside [0,len) do not matter to the callable: see _congruence
            return [ln, arr]
        return []      # non-numeric arguments (objects, callables, strings) do not enter the UF

    # ------------------------------------------------------------ code access
    def get(self, anchor):
        rel, qual = split_anchor(anchor)
        mod = M.load_module(M.relpath_to_modname(rel))
        if mod is None:
            raise Unsupported('anchor module not found: %s' % rel)
        parts = qual.split('.')
        v = self.I.module_lookup(mod, parts[0])
        if v is UNDEF:
            raise Unsupported('anchor not found: %s' % anchor)
        for p in parts[1:]:
            v = self.I.getattr(v, p)
        return v

    def call(self, f, *args, **kwargs):
        return self.I.call(f, list(args), kwargs)

    def call_raises(self, f, *args, **kwargs):
        """returns (value, None) or (None, exception type name)"""
        try:
            return self.I.call(f, list(args), kwargs), None
        except PyExc as e:
            return None, e.tname

    def getattr(self, o, name):
        return self.I.getattr(o, name)

    # ------------------------------------------------------------ logic
    def ev(self, expr, /, **env):
        for k_, v_ in env.items():
            if isinstance(v_, z3.ExprRef):
                # a raw solver term is not an interpreter value (it would be compared by python identity): harness bug
                raise TypeError('harness passes a raw z3 term as %r; wrap it in SV(term, kind)' % k_)
        tree = ast.parse(expr.strip(), mode='eval').body
        e = Env(dict(env), None, None)
        return self.I.eval(tree, e)

    def assume(self, expr, /, **env):
        v = self.ev(expr, **env) if isinstance(expr, str) else expr
        t = self.I.truth_term(v)
        self.st.assume(t)
        if not isinstance(t, bool) and not self.st.feasible(z3.BoolVal(True)):
            raise PathEnd()

    def check(self, label, expr, /, **env):
        v = self.ev(expr, **env) if isinstance(expr, str) else expr
        t = self.I.truth_term(v)
        self.st.check(label, t, detail=expr if isinstance(expr, str) else '')

    def cover(self, label, expr="True", /, **env):
        """reachability: the condition must be satisfiable here (vacuity guard)"""
        v = self.ev(expr, **env)
        t = self.I.truth_term(v)
        ok = t if isinstance(t, bool) else (self.st._check(t) != z3.unsat)
        self.st.obligations.append(Obl('cover:' + label, 'covered' if ok else 'uncovered'))

    def snapshot(self, v):
        return Mo.snapshot(self.I, v)

    def exec_text(self, text, /, **env):
        """execute python source text that the code under verification GENERATED (mystic.symbolic passes such strings
        to exec / eval): same front end, same interpreter; names resolve in `env`, then builtins"""
        tree = ast.parse(text.strip())
        self.I.exec_block(tree.body, Env(dict(env), None, None))

    def eval_text(self, text, /, **env):
        tree = ast.parse(text.strip(), mode='eval').body
        return self.I.eval(tree, Env(dict(env), None, None))

    def is_sym(self):
        return True

    def len(self, v):
        return Mo.list_len(self.I, v)

    def unsupported(self, why):
        raise Unsupported(why)


def _num(m, t):
    v = m.eval(t, model_completion=True)
    if z3.is_int_value(v):
        return v.as_long()
    if z3.is_rational_value(v):
        return Fraction(v.numerator_as_long(), v.denominator_as_long())
    if z3.is_algebraic_value(v):
        return Fraction(v.approx(20).numerator_as_long(), v.approx(20).denominator_as_long())
    return str(v)


# =========================================================================== exploration driver
class CaseResult:
    def __init__(self, name):
        self.name = name
        self.obligations = {}     # label -> aggregated dict
        self.paths = 0
        self.errors = []
        self.functions = set()
        self.trusted = set()
        self.assumptions = set()
        self.secs = 0.0
        self.solver_secs = 0.0
        self.queries = 0
        self.covers = {}
        self.refutations = []     # (label, model dict, decisions)
        self.replays = {}         # label -> [replay records]

    def add(self, o, decisions):
        if o.label.startswith('cover:'):
            self.covers[o.label] = self.covers.get(o.label, False) or (o.status == 'covered')
            return
        d = self.obligations.setdefault(o.label, {'label': o.label, 'paths': 0, 'status': 'discharged', 'secs': 0.0,
                                                  'detail': '', 'trivial': 0})
        d['paths'] += 1
        d['secs'] += o.secs
        if o.backend != 'z3' and o.status == 'discharged':
            d['backend'] = o.backend if d.get('backend', o.backend) == o.backend else 'z3 + ' + o.backend
        elif o.status == 'discharged' and d.get('backend') and not d['backend'].startswith('z3'):
            d['backend'] = 'z3 + ' + d['backend']
        if o.status == 'trivial':
            d['trivial'] += 1
        rank = {'trivial': 0, 'discharged': 0, 'undecided': 1, 'refuted': 2}
        cur = d['status']
        if rank[o.status] > rank.get(cur, 0):
            d['status'] = o.status if o.status != 'trivial' else 'discharged'
            d['detail'] = o.detail
        if o.status == 'refuted':
            self.refutations.append((o.label, o.model, list(decisions)))
        if o.status == 'undecided' and o.model and '__smt2__' in o.model:
            d.setdefault('smt2', []).append(o.model['__smt2__'])


def explore(name, harness_fn, loops=None, summaries=None, timeout_ms=10000, max_paths=4000, deadline=None,
            concretize=None):
    """run harness_fn(h) on every feasible path; returns CaseResult"""
    res = CaseResult(name)
    t0 = time.time()
    work = [[]]
    seen_unsupported = {}
    while work:
        prefix = work.pop()
        if res.paths >= max_paths or (deadline and time.time() > deadline):
            res.errors.append('path budget exhausted (%d paths)' % res.paths)
            for lbl in list(res.obligations):
                if res.obligations[lbl]['status'] == 'discharged':
                    res.obligations[lbl]['status'] = 'undecided'
                    res.obligations[lbl]['detail'] = 'path budget exhausted'
            res.obligations.setdefault(name + '/paths', {'label': name + '/paths', 'paths': 0, 'status': 'undecided',
                                                         'secs': 0, 'detail': 'path budget exhausted', 'trivial': 0})
            break
        st = State(prefix, timeout_ms)
        h = SymH(st, loops, summaries, concretize)
        # a single path may not outlive the contract's budget either (a changed tree can make one path loop on and on)
        h.I.deadline = (deadline + 60) if deadline else None
        res.paths += 1
        try:
            harness_fn(h)
        except PathEnd:
            pass
        except Unsupported as e:
            msg = str(e)
            seen_unsupported[msg] = seen_unsupported.get(msg, 0) + 1
            st.obligations.append(Obl(name + '/supported', 'undecided', 0, 'unsupported: ' + msg))
        except PyExc as e:
            # an uncaught Python exception on a feasible path
            mdl = st._model()
            if mdl is None and st.model_status == 'unsat':
                mdl = 'infeasible'
            status = 'refuted' if (not st.imprecise and mdl is not None) else 'undecided'
            why = '' if status == 'refuted' else (' [imprecise path]' if st.imprecise else
                                                  ' [path feasibility not confirmed by the solver: no model]')
            if mdl != 'infeasible':       # (an infeasible path raises nothing)
                st.obligations.append(Obl(name + '/no-uncaught-exception', status, 0,
                                          'uncaught %s(%s)%s' % (e.tname, e.msg, why), mdl))
        except RecursionError:
            st.obligations.append(Obl(name + '/supported', 'undecided', 0, 'interpreter recursion limit'))
        for o in st.obligations:
            if o.status == 'refuted' and len(res.replays.get(o.label, [])) < 3:
                zm = o.zmodel
                try:
                    status, fails, rec = run_native(harness_fn, values=dict(o.model or {}), z3model=zm, symh=h)
                except Exception as e:      # noqa
                    status, fails, rec = 'error', [('replay', repr(e))], {}
                res.replays.setdefault(o.label, []).append(
                    {'model': jsonable(o.model), 'native_status': status,
                     'native_failures': [list(map(str, f)) for f in fails], 'record': jsonable(rec),
                     'reproduced': status in ('failed', 'raised') and
                     any(f[0] == o.label.split('/')[-1] or f[0] == o.label or o.label.endswith(f[0]) for f in fails)})
            o.zmodel = None
            res.add(o, st.decisions)
        work.extend(st.alternatives)
        res.functions |= h.I.functions_seen
        res.trusted |= st.trusted
        res.assumptions |= st.assumptions
        res.solver_secs += st.solver_secs
        res.queries += st.n_queries
    res.secs = time.time() - t0
    return res


# =========================================================================== native mode
class _Helpers:
    tol_rel = 1e-9
    tol_abs = 1e-12

    @staticmethod
    def implies(a, b):
        return (not a) or bool(b)

    @staticmethod
    def iff(a, b):
        return bool(a) == bool(b)

    @staticmethod
    def truthy(v):
        return bool(v)

    @staticmethod
    def eq(a, b):
        try:
            if a == b:
                return True
            a, b = float(a), float(b)
        except (TypeError, ValueError):
            return False
        if math.isinf(a) or math.isinf(b):
            return a == b
        return math.isclose(a, b, rel_tol=_Helpers.tol_rel, abs_tol=_Helpers.tol_abs)

    @staticmethod
    def gt(a, b):
        return a > b or _Helpers.eq(a, b)

    @staticmethod
    def ge(a, b):
        return a >= b or _Helpers.eq(a, b)

    @staticmethod
    def le_(a, b):
        return a <= b or _Helpers.eq(a, b)

    @staticmethod
    def Pow(h, n):
        return float(h) ** int(n)

    @staticmethod
    def Sqrt(x):
        return math.sqrt(x)

    @staticmethod
    def Log(x):
        return math.log(x)

    @staticmethod
    def forall(lo, hi, f):
        return all(f(i) for i in range(int(lo), int(hi)))

    @staticmethod
    def exists(lo, hi, f):
        return any(f(i) for i in range(int(lo), int(hi)))

    @staticmethod
    def is_none(x):
        return x is None

    @staticmethod
    def same(a, b):
        return a is b

    @staticmethod
    def seq_eq(a, b):
        a, b = list(a), list(b)
        return len(a) == len(b) and all(_Helpers.eq(x, y) for x, y in zip(a, b))

    @staticmethod
    def isinf(x):
        return x == float('inf')

    @staticmethod
    def isint(x):
        # a whole number up to the rounding error of one scaling (native cross-check works in floats)
        return abs(float(x) - round(float(x))) <= 1e-9 * max(1.0, abs(float(x)))


NATIVE_NS = {k: getattr(_Helpers, k) for k in dir(_Helpers) if not k.startswith('_') and not k.startswith('tol')}
NATIVE_NS['inf'] = float('inf')
NATIVE_NS_EXTRA = {}


class Discard(Exception):
    """sample does not satisfy a precondition"""


class NativeFailure(Exception):
    def __init__(self, label, detail):
        Exception.__init__(self, label, detail)
        self.label = label
        self.detail = detail


class NativeH:
    """runs the harness against the real functions in CPython.  Values come from `source`:
    a dict name -> value (replay of a z3 model / recorded file) or a random generator."""
    mode = 'native'

    def __init__(self, values=None, rng=None, tables=None, z3model=None, symh=None, choices=None):
        self.values = values or {}
        self.rng = rng
        self.tables = tables if tables is not None else {}
        self.record = {'values': {}, 'tables': {}}
        self.failures = []
        self.checked = []
        self.z3model = z3model
        self.symh = symh
        self.choices = choices or {}
        self.infval = self.values.get('INF')
        self.ghost = {}
        self._memo = {}

    # ------------------------------------------------------------ symbols
    def _val(self, name, gen):
        if name in self.values:
            v = self.values[name]
        elif name in self._memo:
            v = self._memo[name]      # a named input has ONE value per run, however often it is asked for
        else:
            v = gen()
        self._memo[name] = v
        self.record['values'][name] = v
        return v

    def _flt(self, v):
        if isinstance(v, str):
            try:
                v = float(Fraction(v))
            except (ValueError, ZeroDivisionError):
                v = float(v)
        if self.infval is not None and not isinstance(v, list) and Fraction(v) == Fraction(self.infval):
            return float('inf')
        try:
            return float(v)
        except OverflowError:
            return 1e308 if v > 0 else -1e308

    def _rnd_real(self, inf=False):
        r = self.rng or _random
        c = r.random()
        if c < 0.15:
            return float(r.choice([0, 1, -1, 2, 0.5, -0.5, 3, 10]))
        if c < 0.2 and inf:
            return float('inf')
        if c < 0.6:
            return r.uniform(-3, 3)
        return r.uniform(-100, 100) * r.choice([1e-3, 1, 1, 10])

    def real(self, name, inf=False):
        return self._flt(self._val(name, lambda: self._rnd_real(inf)))

    def int(self, name):
        r = self.rng or _random
        return int(self._val(name, lambda: r.choice([0, 0, 1, 1, 2, 3, 4, 5, 7, -1, -2, 10])))

    def bool(self, name):
        r = self.rng or _random
        return bool(self._val(name, lambda: r.random() < 0.5))

    def inf(self):
        return float('inf')

    def choice(self, name, options):
        r = self.rng or _random
        k = int(self._val(name, lambda: r.randrange(len(options))))
        return options[k]

    def list_real(self, name, nd=False, ek='real', minlen=0, inf=False, n=None):
        r = self.rng or _random

        def gen():
            if n is not None:
                nn = int(n)
            else:
                nn = r.choice([0, 1, 1, 2, 2, 3, 4, 5, 8]) if minlen == 0 else r.choice([1, 1, 2, 3, 4, 6]) + minlen - 1
            if ek == 'int':
                return [r.randrange(-3, 6) for _ in range(nn)]
            return [self._rnd_real(inf) for _ in range(nn)]
            if ek == 'int':
                return [r.randrange(-3, 6) for _ in range(n)]
            return [self._rnd_real(inf) for _ in range(n)]
        self._memo.pop(name, None)
        v = self._val(name, gen)
        v = [self._flt(x) if ek == 'real' else int(x) for x in v]
        if nd:
            import numpy
            return numpy.array(v, dtype=float if ek == 'real' else int)
        return v

    def list_int(self, name, nd=False):
        return self.list_real(name, nd, 'int')

    def matrix(self, name, nrows, ncols, nd=True):
        def gen():
            return [[self._rnd_real() for _ in range(int(ncols))] for _ in range(int(nrows))]
        v = self._val(name, gen)
        v = [[self._flt(x) for x in row][:int(ncols)] + [0.0] * max(0, int(ncols) - len(row)) for row in v][:int(nrows)]
        while len(v) < int(nrows):
            v.append([0.0] * int(ncols))
        if nd:
            import numpy
            return numpy.array(v, dtype=float).reshape(int(nrows), int(ncols))
        return v

    def clist(self, items, nd=False, name=None):
        if nd:
            import numpy
            return numpy.array(list(items))
        return list(items)

    def vec(self, name, n, nd=False, kind='real'):
        items = [getattr(self, kind)('%s_%d' % (name, k)) for k in range(n)]
        return self.clist(items, nd)

    def tup(self, *items):
        return tuple(items)

    def dict(self, **kw):
        return dict(kw)

    def none(self):
        return None

    def string(self, name, nonempty=True):
        return name if nonempty else ''

    def obj(self, cls=None, open=False, **fields):
        if cls is None:
            o = _Bag()
        else:
            c = self.get(cls)
            o = c.__new__(c)
        for k, v in fields.items():
            try:
                object.__setattr__(o, k, v)
            except (AttributeError, TypeError):
                o.__dict__[k] = v
        return o

    def tuple_obj(self, cls, items):
        c = self.get(cls)
        return tuple.__new__(c, items)

    def field(self, obj, name):
        return obj.__dict__.get(name, UNDEF) if hasattr(obj, '__dict__') else getattr(obj, name, UNDEF)

    def has_field(self, obj, name):
        return name in obj.__dict__

    def set_field(self, obj, name, v):
        obj.__dict__[name] = v

    # ------------------------------------------------------------ abstract callables
    def fn(self, name, ret='real', raises=(), attrs=None, missing=(), pure=True, nargs=None, sym=None, native=None,
           log=None, mutates=False, minlen=0, inplace=False, truthy=None):
        H = self
        self._minlen = getattr(self, '_minlen', {})
        self._minlen[name] = minlen
        table = self.tables.setdefault(name, {})
        rec = self.record['tables'].setdefault(name, [])

        def key_of(args, kwargs):
            out = []
            for a in list(args) + [kwargs[k] for k in sorted(kwargs)]:
                try:
                    import numpy
                    if isinstance(a, numpy.ndarray):
                        a = a.tolist()
                except ImportError:
                    pass
                if isinstance(a, (int, float)):
                    out.append(repr(float(a)))
                elif isinstance(a, (list, tuple)) and all(isinstance(x, (int, float)) for x in _flat(a)):
                    out.append(repr([float(x) for x in _flat(a)]))
            return '|'.join(out)

        def f(*args, **kwargs):
            if native is not None:
                return native(H, *args, **kwargs)
            if log is not None:
                import copy
                H.ghost.setdefault(log, []).append(tuple(copy.deepcopy(a) for a in args))
            k = key_of(args, kwargs)
            if mutates:
                for a in args:
                    if hasattr(a, '__setitem__') and len(a):
                        for j in range(len(a)):
                            a[j] = a[j] + 1.0 + j
            if k in table:
                r = table[k]
            else:
                r = H._absval(name, ret, raises, args, kwargs)
                table[k] = r
            rec.append([k, r if not isinstance(r, Exception) else 'raise'])
            if isinstance(r, dict) and 'raise' in r:
                raise _EXC[r['raise']]()
            if inplace and not (isinstance(r, dict) and 'raise' in r):
                args[0][:] = list(r)
                return args[0]
            if ret in ('same_nd', 'ndarray'):
                import numpy
                return numpy.array(r, dtype=float)
            if ret in ('list', 'same'):
                return list(r)
            if ret == 'opaque':
                return _Opq(name, bool(r))
            return r
        f.__name__ = name
        for k, v in (attrs or {}).items():
            setattr(f, k, v)
        return f

    def _absval(self, name, ret, raises, args, kwargs):
        r = self.rng or _random
        if self.z3model is not None and self.symh is not None:
            v = self._from_model(name, ret, raises, args, kwargs)
            if v is not None:
                return v
        for ex in raises:
            if r.random() < 0.15:
                return {'raise': ex}
        if ret == 'real':
            return self._rnd_real()
        if ret == 'xreal':
            return self._rnd_real(True)
        if ret == 'int':
            return r.randrange(-3, 6)
        if ret in ('bool', 'opaque'):
            return r.random() < 0.5
        if ret in ('same', 'same_nd'):
            return [self._rnd_real() for _ in _flat(args[0])]
        if ret in ('list', 'ndarray'):
            return [self._rnd_real() for _ in range(max(self._minlen.get(name, 0), r.choice([0, 1, 2, 3])))]
        return None

    def _from_model(self, name, ret, raises, args, kwargs):
        sh, m = self.symh, self.z3model
        enc = []
        for a in list(args) + [kwargs[k] for k in sorted(kwargs)]:
            try:
                import numpy
                if isinstance(a, numpy.ndarray):
                    a = a.tolist()
            except ImportError:
                pass
            if isinstance(a, (int, float)) and not isinstance(a, bool):
                enc.append(self._z3num(a))
            elif isinstance(a, (list, tuple)) and all(isinstance(x, (int, float)) for x in a):
                if (name + '!e0') in sh.ufs or any(u.startswith(name + '!') and sh.ufs[u][1][0] and
                                                   all(srt != z3.ArraySort(z3.IntSort(), z3.RealSort()) for srt in sh.ufs[u][1][0])
                                                   for u in sh.ufs) or \
                        (name in sh.ufs and all(srt != z3.ArraySort(z3.IntSort(), z3.RealSort()) for srt in sh.ufs[name][1][0])):
                    enc.append(z3.IntVal(len(a)))
                    enc.extend(self._z3num(x) for x in a)
                else:
                    arr = z3.K(z3.IntSort(), z3.RealVal(0))
                    for k, x in enumerate(a):
                        arr = z3.Store(arr, k, self._z3num(x))
                    enc.extend([z3.IntVal(len(a)), arr])
        try:
            for ex in raises:
                uf = sh.ufs.get(name + '!raises_' + ex)
                if uf is not None and z3.is_true(m.eval(uf[0](*enc), model_completion=True)):
                    return {'raise': ex}
            if ret in ('real', 'int', 'bool', 'xreal'):
                uf = sh.ufs.get(name)
                if uf is None:
                    return None
                v = m.eval(uf[0](*enc) if enc else uf[0](), model_completion=True)
                if ret == 'bool':
                    return bool(z3.is_true(v))
                return self._flt(_num(m, v)) if ret in ('real', 'xreal') else int(_num(m, v))
            if ret == 'opaque':
                uf = sh.ufs.get(name + '!truthy')
                if uf is None:
                    return None
                return bool(z3.is_true(m.eval(uf[0](*enc) if enc else uf[0](), model_completion=True)))
            if ret in ('same', 'same_nd') and (name + '!e0') in sh.ufs:
                n = len(list(args[0]))
                return [self._flt(_num(m, sh.ufs['%s!e%d' % (name, j)][0](*enc))) for j in range(n)]
            if ret in ('list', 'same', 'ndarray', 'same_nd'):
                ufa = sh.ufs.get(name + '!arr')
                if ufa is None:
                    return None
                if ret.startswith('same'):
                    n = len(list(args[0]))
                else:
                    n = int(_num(m, sh.ufs[name + '!len'][0](*enc)))
                arr = ufa[0](*enc)
                return [self._flt(_num(m, z3.Select(arr, k))) for k in range(min(n, 12))]
        except (z3.Z3Exception, KeyError, TypeError, ValueError):
            return None
        return None

    def _z3num(self, x):
        if isinstance(x, float) and math.isinf(x):
            return INF if x > 0 else -INF
        return z3.RealVal(str(Fraction(x)))

    def log(self, name):
        return tuple(self.ghost.get(name, []))

    def spec(self, name, value, pure=False):
        NATIVE_NS_EXTRA[name] = value

    def set_summaries(self, table):
        pass

    # ------------------------------------------------------------ code access
    def get(self, anchor):
        rel, qual = split_anchor(anchor)
        mod = importlib.import_module(M.relpath_to_modname(rel))
        v = mod
        for p in qual.split('.'):
            if isinstance(v, type) and p.startswith('__') and not p.endswith('__'):
                p = '_%s%s' % (v.__name__.lstrip('_'), p)
            v = getattr(v, p)
        return v

    def call(self, f, *args, **kwargs):
        return f(*args, **kwargs)

    def call_raises(self, f, *args, **kwargs):
        try:
            return f(*args, **kwargs), None
        except Exception as e:      # noqa
            return None, type(e).__name__

    def getattr(self, o, name):
        return getattr(o, name)

    # ------------------------------------------------------------ logic
    def ev(self, expr, /, **env):
        ns = dict(NATIVE_NS)
        ns.update(NATIVE_NS_EXTRA)
        ns.update(env)
        ns['__builtins__'] = __builtins__
        return eval(_tolerant(expr), ns)       # one namespace, so lambdas inside the expression see the bindings

    def assume(self, expr, /, **env):
        v = self.ev(expr, **env) if isinstance(expr, str) else expr
        if not v:
            raise Discard(expr)

    def check(self, label, expr, /, **env):
        try:
            v = self.ev(expr, **env) if isinstance(expr, str) else expr
        except Discard:
            raise
        except Exception as e:      # noqa
            v = False
            expr = '%s  [raised %s: %s]' % (expr, type(e).__name__, e)
        self.checked.append(label)
        if not v:
            self.failures.append((label, expr))

    def cover(self, label, expr="True", /, **env):
        pass

    def snapshot(self, v):
        import copy
        return copy.deepcopy(v)

    def exec_text(self, text, /, **env):
        ns = dict(env)
        ns['__builtins__'] = __builtins__
        exec(text.strip(), ns)

    def eval_text(self, text, /, **env):
        ns = dict(env)
        ns['__builtins__'] = __builtins__
        return eval(text.strip(), ns)

    def is_sym(self):
        return False

    def len(self, v):
        return len(v)

    def unsupported(self, why):
        raise Discard(why)


class _Bag:
    pass


class _Tol(ast.NodeTransformer):
    """contracts are statements over the reals; evaluated on floats,  a == b / a != b / a <= b / a >= b  are taken up to
    rounding (relative 1e-9): a == b  ->  eq(a, b)  etc.   `is`, `<`, `>`, `in` stay exact."""
    def visit_Compare(self, node):
        self.generic_visit(node)
        if len(node.ops) != 1:
            return node
        op = node.ops[0]
        fn = {ast.Eq: 'eq', ast.LtE: 'le_', ast.GtE: 'ge'}.get(type(op))
        if isinstance(op, ast.NotEq):
            call = ast.Call(func=ast.Name(id='eq', ctx=ast.Load()), args=[node.left, node.comparators[0]], keywords=[])
            return ast.copy_location(ast.UnaryOp(op=ast.Not(), operand=call), node)
        if fn is None:
            return node
        return ast.copy_location(ast.Call(func=ast.Name(id=fn, ctx=ast.Load()), args=[node.left, node.comparators[0]], keywords=[]), node)


_TOL_CACHE = {}


def _tolerant(expr):
    c = _TOL_CACHE.get(expr)
    if c is None:
        tree = ast.parse(expr.strip(), mode='eval')
        tree = ast.fix_missing_locations(_Tol().visit(tree))
        c = compile(tree, '<contract>', 'eval')
        _TOL_CACHE[expr] = c
    return c


class _Opq:
    def __init__(self, name, t):
        self.name, self.t = name, t

    def __bool__(self):
        return self.t

    def __repr__(self):
        return '<%s:%s>' % (self.name, self.t)


_EXC = {'ZeroDivisionError': ZeroDivisionError, 'IndexError': IndexError, 'ValueError': ValueError,
        'TypeError': TypeError, 'KeyError': KeyError, 'OverflowError': OverflowError}


def _flat(a):
    out = []
    for x in a:
        if isinstance(x, (list, tuple)):
            out.extend(_flat(x))
        else:
            out.append(x)
    return out


def run_native(harness_fn, values=None, rng=None, tables=None, z3model=None, symh=None):
    """returns (status, failures, record): status in held / failed / discarded / error"""
    h = NativeH(values, rng, tables, z3model, symh)
    import warnings
    try:
        import numpy
        numpy.seterr(all='ignore')
    except ImportError:
        pass
    warnings.simplefilter('ignore')
    try:
        harness_fn(h)
    except Discard:
        return 'discarded', [], h.record
    except Exception as e:      # noqa  -- uncaught exception of the real code
        import traceback
        return 'raised', [('no-uncaught-exception', '%s: %s' % (type(e).__name__, e),
                           traceback.format_exc(limit=6))], h.record
    if h.failures:
        return 'failed', h.failures, h.record
    return 'held', [], h.record


def jsonable(x):
    if isinstance(x, Fraction):
        return str(x) if x.denominator != 1 else int(x)
    if isinstance(x, dict):
        return {str(k): jsonable(v) for k, v in x.items()}
    if isinstance(x, (list, tuple)):
        return [jsonable(v) for v in x]
    if isinstance(x, float):
        if math.isinf(x) or math.isnan(x):
            return repr(x)
        return x
    if isinstance(x, (int, str, bool)) or x is None:
        return x
    return repr(x)
