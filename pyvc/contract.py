"""Contract registry.  A contract names the function under contract (anchor into /repo), the properties
it serves, and a harness: symbolic inputs by kind, requires (assume), the call, ensures (check)."""
from .interp import LoopSpec

REGISTRY = []


class Contract:
    def __init__(self, id, props, anchor, harness, loops=None, summaries=None, cases=None, note='',
                 known=None, native=True, samples=200, small=None):
        self.id = id
        self.props = list(props)
        self.anchor = anchor
        self.harness = harness
        self.loops = loops or {}
        self.summaries = summaries or {}
        self.cases = cases            # optional list of (name, kwargs) -> harness(h, **kwargs)
        self.note = note
        self.known = known or {}      # label -> finding id  (sub-cases listed in known_findings.json)
        self.native = native          # run the CPython cross-check
        self.samples = samples
        self.small = small or []      # size assignments for the quantifier-free re-instantiation (DESIGN 2.6)


def contract(id, props, anchor, loops=None, summaries=None, cases=None, note='', known=None, native=True, samples=200,
             small=None):
    def deco(fn):
        REGISTRY.append(Contract(id, props, anchor, fn, loops, summaries, cases, note, known, native, samples, small))
        return fn
    return deco


def loop(relpath, qual, ordinal, header, invariants, modifies=(), decreases=None, name=None):
    return ((relpath, qual, ordinal), LoopSpec(header, invariants, modifies, decreases, name))


def exit_check(relpath, qual, checks):
    """ensures evaluated inside the callee at return, with its locals in scope (ghost access): [(label, expr)]"""
    return (('exit', relpath, qual), list(checks))
