"""Loading of the real source: every run re-reads the files under REPO with ast.parse."""
import ast
import os

REPO = os.environ.get('PYVC_REPO', '/repo')

_cache = {}


class ModuleInfo:
    def __init__(self, name, path):
        self.name = name
        self.path = path
        self.relpath = os.path.relpath(path, REPO)
        with open(path) as f:
            self.source = f.read()
        self.tree = ast.parse(self.source, path)
        self.lines = self.source.splitlines()
        self.binders = {}      # name -> top level statement that binds it (last one wins)
        self.done = set()      # ids of executed top-level statements
        self.env = None        # set by the interpreter
        self.stars = []        # top-level `from X import *` statements, in source order
        self.patches = {}      # name -> top-level `name.attr = value` statements, in source order
        self._scan(self.tree.body)

    def _scan(self, body):
        for st in body:
            if isinstance(st, ast.ImportFrom) and any(a.name == '*' for a in st.names):
                self.stars.append(st)
                continue
            for n in bound_names(st):
                self.binders[n] = st
            # `Name.attr = value` at top level (attributes attached to a class / function after its definition)
            if isinstance(st, ast.Assign) and all(isinstance(t, ast.Attribute) and isinstance(t.value, ast.Name) for t in st.targets):
                for t in st.targets:
                    self.patches.setdefault(t.value.id, [])
                    if st not in self.patches[t.value.id]:
                        self.patches[t.value.id].append(st)

    def segment(self, node):
        return ast.get_source_segment(self.source, node)


def bound_names(st):
    out = []
    if isinstance(st, (ast.FunctionDef, ast.ClassDef)):
        out.append(st.name)
    elif isinstance(st, ast.Assign):
        for t in st.targets:
            out.extend(_target_names(t))
    elif isinstance(st, (ast.AugAssign, ast.AnnAssign)):
        out.extend(_target_names(st.target))
    elif isinstance(st, ast.Import):
        for a in st.names:
            out.append((a.asname or a.name).split('.')[0])
    elif isinstance(st, ast.ImportFrom):
        for a in st.names:
            out.append(a.asname or a.name)
    elif isinstance(st, (ast.If, ast.Try, ast.With, ast.For, ast.While)):
        for sub in ast.iter_child_nodes(st):
            if isinstance(sub, ast.stmt):
                out.extend(bound_names(sub))
            elif isinstance(sub, ast.ExceptHandler):
                for s2 in sub.body:
                    out.extend(bound_names(s2))
    return out


def _target_names(t):
    if isinstance(t, ast.Name):
        return [t.id]
    if isinstance(t, (ast.Tuple, ast.List)):
        r = []
        for e in t.elts:
            r.extend(_target_names(e))
        return r
    return []


def module_path(name):
    """mystic.tools -> /repo/mystic/tools.py (or package __init__), None if not a repo module"""
    parts = name.split('.')
    base = os.path.join(REPO, *parts)
    if os.path.isfile(base + '.py'):
        return base + '.py'
    if os.path.isdir(base) and os.path.isfile(os.path.join(base, '__init__.py')):
        return os.path.join(base, '__init__.py')
    return None


def load_module(name):
    key = (REPO, name)
    if key in _cache:
        return _cache[key]
    p = module_path(name)
    if p is None:
        return None
    m = ModuleInfo(name, p)
    _cache[key] = m
    return m


def reset_cache():
    _cache.clear()


def relpath_to_modname(relpath):
    p = relpath[:-3] if relpath.endswith('.py') else relpath
    parts = p.split('/')
    if parts[-1] == '__init__':
        parts = parts[:-1]
    return '.'.join(parts)


def find_def(tree, qual):
    """locate a (possibly nested) def/class by dotted path: 'A.b.c' -> node, with the chain of parents"""
    chain = []
    body = tree.body
    node = None
    for part in qual.split('.'):
        found = None
        for st in _iter_defs(body):
            if st.name == part:
                found = st      # last definition wins (as in Python)
        if found is None:
            return None, chain
        chain.append(found)
        node = found
        body = found.body
    return node, chain


def _iter_defs(body):
    for st in body:
        if isinstance(st, (ast.FunctionDef, ast.ClassDef)):
            yield st
        elif isinstance(st, (ast.If, ast.Try, ast.With, ast.For, ast.While)):
            for f in ('body', 'orelse', 'finalbody'):
                yield from _iter_defs(getattr(st, f, []) or [])
            for h in getattr(st, 'handlers', []) or []:
                yield from _iter_defs(h.body)
