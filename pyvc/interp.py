"""Symbolic interpreter for the Python subset used by the functions under contract.

The interpreter executes the *real* AST (re-read from REPO on every run).  What it drops:
docstrings, comments, print(...) calls, warnings.* calls.  Anything it does not model raises
Unsupported, which makes the obligations of that path `undecided` -- never a violation.
"""
import ast
import time
import z3
from .values import *
from .state import State
from . import modules as M


class ReturnEx(Exception):
    def __init__(self, value):
        self.value = value


class BreakEx(Exception):
    pass


class ContinueEx(Exception):
    pass


class ExcVal:
    """an exception instance value"""
    def __init__(self, tname, msg=None):
        self.tname = tname
        self.msg = msg


class Env:
    __slots__ = ('vars', 'parent', 'module', 'cls', 'func', 'globals_decl', 'nonlocal_decl')

    def __init__(self, vars=None, parent=None, module=None, cls=None, func=None):
        self.vars = vars if vars is not None else {}
        self.parent = parent
        self.module = module if module is not None else (parent.module if parent else None)
        self.cls = cls if cls is not None else (parent.cls if parent else None)
        self.func = func
        self.globals_decl = set()
        self.nonlocal_decl = set()


class LoopSpec:
    def __init__(self, header, invariants, modifies=(), decreases=None, name=None):
        self.header = header            # fingerprint: source text of the loop header
        self.invariants = list(invariants)
        self.modifies = list(modifies)  # expressions (evaluated in the function env) naming heap cells / fields
        self.decreases = decreases
        self.name = name


class ClassInfo:
    def __init__(self, name, node, module, interp):
        self.name = name
        self.node = node
        self.module = module
        self.interp = interp
        self._bases = None
        self._attrs = None
        self.builtin_base = None

    @property
    def bases(self):
        if self._bases is None:
            self._bases = []
            env = self.interp.module_env(self.module)
            for b in self.node.bases:
                v = self.interp.eval(b, env)
                if isinstance(v, ClassRef):
                    self._bases.append(v.info)
                elif isinstance(v, TypeTag):
                    self.builtin_base = v.name
                else:
                    raise Unsupported('base class %r' % (v,))
        return self._bases

    @property
    def attrs(self):
        if self._attrs is None:
            self._attrs = {}
            env = Env({}, self.interp.module_env(self.module), self.module, cls=self)
            env.vars = self._attrs
            for st in self.node.body:
                if isinstance(st, ast.Expr) and isinstance(st.value, ast.Constant):
                    continue
                if isinstance(st, ast.FunctionDef):
                    name = self.interp.mangle(st.name, self)
                    self._attrs[name] = self.interp.make_closure(st, env, qual=self.name + '.' + st.name)
                    for dec in st.decorator_list:
                        d = self.interp.eval(dec, env)
                        self._attrs[name] = self.interp.call(d, [self._attrs[name]], {})
                elif isinstance(st, ast.Pass):
                    continue
                else:
                    self.interp.exec_stmt(st, env)
        return self._attrs

    def mro(self):
        out = [self]
        for b in self.bases:
            for c in b.mro():
                if c not in out:
                    out.append(c)
        return out

    def lookup(self, name):
        for c in self.mro():
            if name in c.attrs:
                return c.attrs[name]
        return UNDEF

    def is_subclass(self, other):
        return other in self.mro()


class Interp:
    MAXDEPTH = 40

    def __init__(self, st, loops=None, summaries=None):
        self.st = st
        self.loops = loops or {}          # (relpath, qualname, ordinal) -> LoopSpec
        self.summaries = summaries or {}  # (relpath, qualname) -> callable(interp, closure, args, kwargs)
        # ('exit', relpath, qualname) -> [(label, expr)]: ensures evaluated in the callee's local scope at return
        self.exit_checks = {k[1:]: v for k, v in self.loops.items() if isinstance(k, tuple) and k and k[0] == 'exit'}
        self.comp_index = None
        self.depth = 0
        self.menvs = {}
        self.classes = {}
        from . import models
        self.models = models
        self.builtins = models.builtins(self)
        self.functions_seen = set()       # (relpath, qualname) executed from source on this path
        self.spec_names = {}              # spec functions / ghost objects named in contracts (harness.spec)
        self.unroll_limit = 64

    # ================================================================ modules / names
    def module_env(self, mod):
        if mod.name not in self.menvs:
            self.menvs[mod.name] = Env({'__name__': mod.name}, None, mod)
        return self.menvs[mod.name]

    def module_lookup(self, mod, name):
        env = self.module_env(mod)
        limit = self.__dict__.setdefault('_import_line', {}).get(mod.name)
        if limit is not None:
            # a top-level statement of this module is being executed (as at import time): a name it reads is bound by an
            # EARLIER statement, or not yet at all (`_type = type` before `def type`: the builtin)
            prior = [s_ for s_ in mod.tree.body if s_.lineno < limit and name in M.bound_names(s_)]
            if not prior and not any(star.lineno < limit for star in mod.stars):
                return UNDEF
            if prior and name not in env.vars:
                for s_ in prior:
                    self._exec_toplevel(mod, s_, env)
                return env.vars.get(name, UNDEF)
        if name in env.vars:
            return env.vars[name]
        st = mod.binders.get(name)
        # `from X import *` at module level: the name may come from there (a star import AFTER the last explicit binding wins)
        for star in reversed(mod.stars):
            if st is not None and star.lineno < st.lineno:
                break
            v = self._star_lookup(mod, star, name)
            if v is not UNDEF:
                env.vars[name] = v
                return v
        if st is None:
            return UNDEF
        if id(st) not in mod.done or name not in env.vars:
            # execute the top-level statements binding this name, in source order (the last one wins)
            for s in mod.tree.body:
                if name in M.bound_names(s):
                    self._exec_toplevel(mod, s, env)
            done = self.__dict__.setdefault('_patched', set())
            for s in mod.patches.get(name, ()):
                if id(s) not in done:
                    done.add(id(s))
                    self._exec_toplevel(mod, s, env)
        return env.vars.get(name, UNDEF)

    def _exec_toplevel(self, mod, s, env):
        """execute one top-level statement of a module; while a plain assignment runs, the names it reads resolve as they
        would at import time (bindings of earlier lines only)"""
        lines = self.__dict__.setdefault('_import_line', {})
        if isinstance(s, (ast.Assign, ast.AugAssign, ast.AnnAssign)):
            old = lines.get(mod.name)
            lines[mod.name] = s.lineno
            try:
                self.exec_stmt(s, env)
            finally:
                if old is None:
                    lines.pop(mod.name, None)
                else:
                    lines[mod.name] = old
        else:
            self.exec_stmt(s, env)

    def _star_lookup(self, mod, star, name):
        if name.startswith('__') and name.endswith('__'):
            return UNDEF
        modname = star.module or ''
        if star.level:
            base = mod.name.split('.')
            pk = base[:-star.level] if not mod.path.endswith('__init__.py') else base[:len(base) - star.level + 1]
            modname = '.'.join(pk + ([star.module] if star.module else []))
        src = M.load_module(modname)
        if src is not None:
            if src is mod:
                return UNDEF
            allv = self.module_lookup(src, '__all__') if '__all__' in src.binders else UNDEF
            if allv is not UNDEF:
                names = self.models.concrete_iter(self, allv)
                if names is None or name not in names:
                    return UNDEF
            elif name.startswith('_'):
                return UNDEF
            return self.module_lookup(src, name)
        if name.startswith('_'):
            return UNDEF
        try:
            return self.mod_getattr(self.import_module(modname), name)
        except (Unsupported, PyExc):
            return UNDEF

    def lookup(self, name, env):
        e = env
        first = True
        while e is not None:
            if e.cls is not None and e.vars is getattr(e.cls, '_attrs', None) and not first:
                e = e.parent      # class scope is not visible from nested functions
                continue
            if first and name in e.globals_decl:
                break
            if name in e.vars:
                if e.parent is None and e.module is not None and self.__dict__.get('_import_line', {}).get(e.module.name) is not None \
                        and self.menvs.get(e.module.name) is e:
                    break           # module scope while one of its top-level statements runs: see module_lookup
                v = e.vars[name]
                if v is UNDEF:
                    raise PyExc('NameError', name)
                return v
            first = False
            e = e.parent
        mod = env.module
        if mod is not None:
            v = self.module_lookup(mod, name)
            if v is not UNDEF:
                return v
        if name in self.builtins:
            return self.builtins[name]
        if name in self.spec_names:
            return self.spec_names[name]
        raise Unsupported('name %s' % name)

    VOCAB = ('implies', 'iff', 'truthy', 'eq', 'gt', 'ge', 'Pow', 'Sqrt', 'Log', 'forall', 'exists', 'is_none',
             'same', 'seq_eq', 'isinf', 'isint', 'inf')

    def contract_vocab(self):
        v = {k: self.builtins[k] for k in self.VOCAB}
        v.update(self.spec_names)
        return v

    def mangle(self, name, cls):
        if cls is not None and name.startswith('__') and not name.endswith('__'):
            return '_%s%s' % (cls.name.lstrip('_'), name)
        return name

    def get_class(self, mod, node):
        key = (mod.name, node.name, id(node))
        if key not in self.classes:
            self.classes[key] = ClassInfo(node.name, node, mod, self)
        return self.classes[key]

    def import_module(self, name):
        m = M.load_module(name)
        if m is not None:
            return ('repo', m)
        return ModRef(name)

    def mod_getattr(self, modv, attr):
        if isinstance(modv, tuple) and modv[0] == 'repo':
            v = self.module_lookup(modv[1], attr)
            if v is UNDEF:
                sub = M.load_module(modv[1].name + '.' + attr)
                if sub is not None:
                    return ('repo', sub)
                raise PyExc('AttributeError', attr)
            return v
        return self.models.lib_lookup(self, modv.name + '.' + attr)

    # ================================================================ closures
    def make_closure(self, node, env, qual=None):
        if qual is None:
            base = env.func.qualname + '.' if env.func is not None else ''
            qual = base + (node.name if isinstance(node, ast.FunctionDef) else '<lambda>')
        a = node.args
        defaults = [self.eval(d, env) for d in a.defaults]
        kwdefaults = {}
        for k, d in zip(a.kwonlyargs, a.kw_defaults):
            if d is not None:
                kwdefaults[k.arg] = self.eval(d, env)
        c = Closure(node, env, env.module, qual, defaults, kwdefaults)
        if isinstance(node, ast.FunctionDef):
            c.attrs['__name__'] = node.name
            doc = ast.get_docstring(node, clean=False)
            c.attrs['__doc__'] = doc
            c.attrs['__module__'] = env.module.name if env.module else None
        else:
            c.attrs['__name__'] = '<lambda>'
            c.attrs['__doc__'] = None
            c.attrs['__module__'] = env.module.name if env.module else None
        return c

    def bind_args(self, c, args, kwargs):
        a = c.node.args
        params = [p.arg for p in a.posonlyargs + a.args]
        vars = {}
        args = list(args)
        kwargs = dict(kwargs)
        npos = len(params)
        for i, p in enumerate(params):
            if i < len(args):
                vars[p] = args[i]
                if p in kwargs:
                    raise PyExc('TypeError', 'multiple values for %s' % p)
            elif p in kwargs:
                vars[p] = kwargs.pop(p)
            else:
                di = i - (npos - len(c.defaults))
                if di >= 0:
                    vars[p] = c.defaults[di]
                else:
                    raise PyExc('TypeError', 'missing argument %s' % p)
        extra = args[npos:]
        if a.vararg is not None:
            vars[a.vararg.arg] = tuple(extra)
        elif extra:
            raise PyExc('TypeError', 'too many positional arguments for %s' % c.qualname)
        for k in a.kwonlyargs:
            if k.arg in kwargs:
                vars[k.arg] = kwargs.pop(k.arg)
            elif k.arg in c.kwdefaults:
                vars[k.arg] = c.kwdefaults[k.arg]
            else:
                raise PyExc('TypeError', 'missing keyword-only argument %s' % k.arg)
        if a.kwarg is not None:
            vars[a.kwarg.arg] = self.st.alloc('dict', dict(kwargs), name='kwargs')
        elif kwargs:
            raise PyExc('TypeError', 'unexpected keyword argument %s' % sorted(kwargs)[0])
        return vars

    def call_closure(self, c, args, kwargs):
        key = (c.module.relpath if c.module else None, c.qualname)
        if key in self.summaries and not getattr(c, 'no_summary', False):
            return self.summaries[key](self, c, args, kwargs)
        if self.depth > self.MAXDEPTH:
            raise Unsupported('call depth exceeded (recursion?) in %s' % c.qualname)
        vars = self.bind_args(c, args, kwargs)
        env = Env(vars, c.env, c.module, cls=getattr(c, 'defcls', None) or (c.env.cls if c.env else None), func=c)
        self.functions_seen.add(key)
        self.depth += 1
        try:
            if isinstance(c.node, ast.Lambda):
                return self.eval(c.node.body, env)
            if any(isinstance(n, (ast.Yield, ast.YieldFrom)) for n in _walk_no_nested(c.node)):
                # generator function: evaluated EAGERLY -- the body runs to its end now and the yielded values are handed
                # over as an iterator.  Same values in the same order as lazy evaluation whenever the body has no side
                # effect the consumer could observe between two yields (recorded as an assumption of the proof).
                self.st.assumptions.add('generator %s evaluated eagerly (no observable side effects between yields)' % c.qualname)
                ys = []
                env.vars['__yields__'] = ys
                try:
                    self.exec_block(c.node.body, env)
                except ReturnEx:
                    pass
                return self.models.IterV(self.st.alloc('clist', ys))
            rv = None
            try:
                self.exec_block(c.node.body, env)
            except ReturnEx as r:
                rv = r.value
            for label, expr in self.exit_checks.get(key, ()):
                tree = ast.parse(expr.strip(), mode='eval').body
                v2 = self.contract_vocab()
                v2['result'] = rv
                e2 = Env(v2, env, env.module, env.cls, env.func)
                self.st.check('%s/exit: %s' % (c.qualname, label), self.truth_term(self.eval(tree, e2)))
            return rv
        finally:
            self.depth -= 1

    # ================================================================ calls
    def call(self, f, args, kwargs):
        if isinstance(f, Closure):
            return self.call_closure(f, args, kwargs)
        if isinstance(f, BoundMethod):
            return self.call(f.func, [f.selfv] + list(args), kwargs)
        if isinstance(f, Builtin):
            self.st.trusted.add(f.name)
            return f.impl(self, list(args), dict(kwargs))
        if isinstance(f, AbsFun):
            return f.impl(self, list(args), dict(kwargs))
        if isinstance(f, ClassRef):
            return self.instantiate(f.info, args, kwargs)
        if isinstance(f, TypeTag):
            return self.models.call_type(self, f, list(args), dict(kwargs))
        if isinstance(f, Ref) and f.kind == 'obj':
            m = f.cls.lookup('__call__') if f.cls is not None else UNDEF
            if m is UNDEF:
                raise PyExc('TypeError', 'object not callable')
            return self.call(m, [f] + list(args), kwargs)
        raise Unsupported('call of %r' % (f,))

    def instantiate(self, cls, args, kwargs):
        if cls.builtin_base is None:
            _ = cls.bases
        if any(c.builtin_base == 'list' for c in cls.mro()):
            # a subclass of list: a list cell that also carries a class (methods / properties) and instance attributes
            r = self.st.alloc('clist', [], name=cls.name)
            r.cls = cls
            r.meta['attrs'] = {}
            init = cls.lookup('__init__')
            if init is not UNDEF:
                self.call(init, [r] + list(args), kwargs)
            elif args:
                items = self.models.concrete_iter(self, args[0])
                if items is None:
                    raise Unsupported('%s(symbolic sequence)' % cls.name)
                self.st.heap[r] = list(items)
            return r
        r = self.st.alloc('obj', {}, name=cls.name)
        r.cls = cls
        new = cls.lookup('__new__')
        if new is not UNDEF:
            # user-defined __new__ (e.g. the Null singleton): run it; __init__ follows only on an instance of the class
            r = self.call(new, [ClassRef(cls)] + list(args), kwargs)
            if not (isinstance(r, Ref) and r.kind == 'obj' and r.cls is not None and cls in r.cls.mro()):
                return r
        init = cls.lookup('__init__')
        if init is not UNDEF:
            self.call(init, [r] + list(args), kwargs)
        return r

    # ================================================================ statements
    def exec_block(self, stmts, env):
        for s in stmts:
            self.exec_stmt(s, env)

    deadline = None

    def exec_stmt(self, s, env):
        if self.deadline is not None and time.time() > self.deadline:
            raise Unsupported('time budget of the contract exhausted inside one path')
        m = getattr(self, 'st_' + type(s).__name__, None)
        if m is None:
            raise Unsupported('statement %s' % type(s).__name__)
        return m(s, env)

    def st_Expr(self, s, env):
        v = s.value
        if isinstance(v, ast.Constant):
            return
        if isinstance(v, ast.Call):
            fn = v.func
            if isinstance(fn, ast.Name) and fn.id == 'print':
                return        # dropped (stated in DESIGN 2.1)
            if isinstance(fn, ast.Attribute) and isinstance(fn.value, ast.Name) and fn.value.id == 'warnings':
                return
        self.eval(v, env)

    def st_Pass(self, s, env):
        return

    def st_Global(self, s, env):
        env.globals_decl.update(s.names)

    def st_Nonlocal(self, s, env):
        env.nonlocal_decl.update(s.names)

    def st_Return(self, s, env):
        raise ReturnEx(self.eval(s.value, env) if s.value is not None else None)

    def st_Break(self, s, env):
        raise BreakEx()

    def st_Continue(self, s, env):
        raise ContinueEx()

    def st_Import(self, s, env):
        for a in s.names:
            if a.asname:
                env.vars[a.asname] = self._import_dotted(a.name)
            else:
                env.vars[a.name.split('.')[0]] = self.import_module(a.name.split('.')[0])

    def _import_dotted(self, name):
        return self.import_module(name)

    def st_ImportFrom(self, s, env):
        modname = s.module or ''
        if s.level:
            base = env.module.name.split('.')
            pk = base[:-s.level] if not env.module.path.endswith('__init__.py') else base[:len(base) - s.level + 1]
            modname = '.'.join(pk + ([s.module] if s.module else []))
        mv = self.import_module(modname)
        for a in s.names:
            if a.name == '*':
                raise Unsupported('import *')
            try:
                v = self.mod_getattr(mv, a.name)
            except (Unsupported, PyExc) as e:
                v = self.models.Unknown('%s.%s' % (modname, a.name))
            env.vars[a.asname or a.name] = v

    def st_FunctionDef(self, s, env):
        c = self.make_closure(s, env)
        v = c
        for dec in reversed(s.decorator_list):
            d = self.eval(dec, env)
            v = self.call(d, [v], {})
        self.store_name(s.name, v, env)

    def st_ClassDef(self, s, env):
        info = self.get_class(env.module, s)
        self.store_name(s.name, ClassRef(info), env)

    def st_Assign(self, s, env):
        v = self.eval(s.value, env)
        for t in s.targets:
            self.assign(t, v, env)

    def st_AnnAssign(self, s, env):
        if s.value is not None:
            self.assign(s.target, self.eval(s.value, env), env)

    def st_AugAssign(self, s, env):
        t = s.target
        if isinstance(t, ast.Name):
            cur = self.lookup(t.id, env)
            new = self.inplace(s.op, cur, self.eval(s.value, env))
            self.store_name(t.id, new, env)
        elif isinstance(t, ast.Subscript):
            obj = self.eval(t.value, env)
            idx = self.eval_index(t.slice, env)
            cur = self.getitem(obj, idx)
            new = self.inplace(s.op, cur, self.eval(s.value, env))
            self.setitem(obj, idx, new)
        elif isinstance(t, ast.Attribute):
            obj = self.eval(t.value, env)
            name = self.mangle(t.attr, env.cls)
            cur = self.getattr(obj, name)
            new = self.inplace(s.op, cur, self.eval(s.value, env))
            self.setattr(obj, name, new)
        else:
            raise Unsupported('augassign target')

    def inplace(self, op, cur, val):
        if isinstance(cur, Ref) and cur.kind in ('clist', 'slist'):
            if isinstance(op, ast.Add) and not cur.nd:
                self.models.list_extend(self, cur, val)
                return cur
            if cur.nd:
                res = self.binop(op, cur, val)
                self.models.list_assign_all(self, cur, res)
                return cur
        return self.binop(op, cur, val)

    def st_Delete(self, s, env):
        for t in s.targets:
            if isinstance(t, ast.Name):
                e = env
                if t.id in e.vars:
                    del e.vars[t.id]
                else:
                    raise Unsupported('del of non-local name')
            elif isinstance(t, ast.Attribute):
                obj = self.eval(t.value, env)
                name = self.mangle(t.attr, env.cls)
                if isinstance(obj, Ref) and obj.kind == 'obj':
                    cell = self.st.heap[obj]
                    if name not in cell:
                        raise PyExc('AttributeError', name)
                    self.st.note_write(obj, name)
                    del cell[name]
                else:
                    raise Unsupported('del attribute')
            elif isinstance(t, ast.Subscript):
                obj = self.eval(t.value, env)
                idx = self.eval_index(t.slice, env)
                self.models.delitem(self, obj, idx)
            else:
                raise Unsupported('del target')

    def st_If(self, s, env):
        if self.truth(self.eval(s.test, env)):
            self.exec_block(s.body, env)
        else:
            self.exec_block(s.orelse, env)

    def st_Assert(self, s, env):
        if not self.truth(self.eval(s.test, env)):
            raise PyExc('AssertionError')

    def st_Raise(self, s, env):
        if s.exc is None:
            cur = getattr(self, '_handling', None)
            if cur is None:
                raise Unsupported('bare raise outside handler')
            raise cur
        v = self.eval(s.exc, env)
        if isinstance(v, ExcVal):
            raise PyExc(v.tname, v.msg)
        if isinstance(v, TypeTag) and v.name in EXC_PARENTS:
            raise PyExc(v.name)
        raise Unsupported('raise of %r' % (v,))

    def st_Try(self, s, env):
        try:
            try:
                self.exec_block(s.body, env)
            except PyExc as e:
                for h in s.handlers:
                    if self._handler_matches(h, e, env):
                        if h.name:
                            env.vars[h.name] = ExcVal(e.tname, e.msg)
                        old = getattr(self, '_handling', None)
                        self._handling = e
                        try:
                            self.exec_block(h.body, env)
                        finally:
                            self._handling = old
                        break
                else:
                    raise
            else:
                self.exec_block(s.orelse, env)
        except (PathEnd, Unsupported):
            raise
        except BaseException:
            if s.finalbody:
                self.exec_block(s.finalbody, env)
            raise
        else:
            if s.finalbody:
                self.exec_block(s.finalbody, env)

    def _handler_matches(self, h, e, env):
        if h.type is None:
            return True
        t = self.eval(h.type, env)
        ts = t if isinstance(t, tuple) else (t,)
        for x in ts:
            if isinstance(x, TypeTag) and exc_isinstance(e.tname, x.name):
                return True
            if not isinstance(x, TypeTag):
                raise Unsupported('except clause type %r' % (x,))
        return False

    def st_With(self, s, env):
        # `with warnings.catch_warnings():` / `with numpy.errstate(...):` only change how warnings are shown: the body is
        # executed as is (same exclusion as warnings.filterwarnings, DESIGN 2.1).  Any other context manager: unsupported.
        for item in s.items:
            ce = item.context_expr
            ok = isinstance(ce, ast.Call) and isinstance(ce.func, ast.Attribute) and isinstance(ce.func.value, ast.Name) and \
                (ce.func.value.id, ce.func.attr) in (('warnings', 'catch_warnings'), ('numpy', 'errstate'), ('np', 'errstate'))
            if not ok or item.optional_vars is not None:
                raise Unsupported('with statement')
        self.exec_block(s.body, env)

    # ---------------------------------------------------------------- loops
    def _loop_key(self, s, env):
        f = env.func
        if f is None:
            return None, None
        fnode = f.node
        ordinal = 0
        for n in _walk_no_nested(fnode):
            if isinstance(n, (ast.For, ast.While)) or (isinstance(n, ast.ListComp)):
                if n is s:
                    break
                ordinal += 1
        else:
            return None, None
        key = (f.module.relpath, f.qualname, ordinal)
        return key, self.loops.get(key)

    def header_text(self, s, env):
        mod = env.module
        if isinstance(s, ast.For):
            return 'for %s in %s' % (mod.segment(s.target), mod.segment(s.iter))
        if isinstance(s, ast.While):
            return 'while %s' % mod.segment(s.test)
        if isinstance(s, ast.ListComp):
            g = s.generators[0]
            return '[%s for %s in %s]' % (mod.segment(s.elt), mod.segment(g.target), mod.segment(g.iter))
        return ''

    def st_For(self, s, env):
        it = self.eval(s.iter, env)
        items = self.models.concrete_iter(self, it)
        if items is not None:
            if len(items) > self.unroll_limit:
                raise Unsupported('loop too long to unroll (%d)' % len(items))
            broke = False
            for x in items:
                self.assign(s.target, x, env)
                try:
                    self.exec_block(s.body, env)
                except BreakEx:
                    broke = True
                    break
                except ContinueEx:
                    continue
            if not broke:
                self.exec_block(s.orelse, env)
            return
        key, spec = self._loop_key(s, env)
        if spec is None:
            raise Unsupported('loop over symbolic range without invariant: %s [%s]'
                              % (self.header_text(s, env), key))
        if _norm(spec.header) != _norm(self.header_text(s, env)):
            raise Unsupported('loop header changed (%r vs contract %r): invariant not applied'
                              % (self.header_text(s, env), spec.header))
        if s.orelse:
            raise Unsupported('for-else with invariant')
        n_term, item_of = self.models.symbolic_iter(self, it)
        self._inv_loop(s, env, spec, key, n_term, item_of, None)

    def st_While(self, s, env):
        key, spec = self._loop_key(s, env)
        if spec is None:
            # try bounded unrolling only when the condition is concrete each time
            k = 0
            while True:
                c = self.eval(s.test, env)
                tv = self.truth_term(c)
                if not isinstance(tv, bool):
                    raise Unsupported('while loop with symbolic condition and no invariant: %s [%s]'
                                      % (self.header_text(s, env), key))
                if not tv:
                    break
                k += 1
                if k > self.unroll_limit:
                    raise Unsupported('while loop too long to unroll')
                try:
                    self.exec_block(s.body, env)
                except BreakEx:
                    return
                except ContinueEx:
                    continue
            self.exec_block(s.orelse, env)
            return
        if _norm(spec.header) != _norm(self.header_text(s, env)):
            raise Unsupported('loop header changed: invariant not applied')
        self._inv_loop(s, env, spec, key, None, None, s.test)

    def _inv_loop(self, s, env, spec, key, n_term, item_of, test):
        st = self.st
        name = spec.name or '%s#loop%d' % (key[1], key[2])
        # entry(...) snapshots
        inv_asts = []
        entry_env = {}
        for k, text in enumerate(spec.invariants):
            tree = ast.parse(text.strip(), mode='eval').body
            tree = _EntryLift(self, env, entry_env, 'e%d' % k).visit(tree)
            inv_asts.append((text, tree))
        dec_ast = None
        if spec.decreases:
            dec_ast = ast.parse(spec.decreases.strip(), mode='eval').body

        def inv_env(i):
            v = self.contract_vocab()      # contract vocabulary shadows module-level names of the analysed code
            v.update(entry_env)
            v['_i_'] = i
            return Env(v, env, env.module, env.cls, env.func)

        # 1. establish
        i0 = 0
        for text, tree in inv_asts:
            c = self.truth_term(self.eval(tree, inv_env(i0)))
            st.check('%s/inv-establish: %s' % (name, text), c)
        # 2. havoc
        assigned = _assigned_names(s.body) | (set(M._target_names(s.target)) if isinstance(s, ast.For) else set())
        stamp = st.stamp
        refs = set()
        for mexpr in spec.modifies:
            mt = ast.parse(mexpr.strip(), mode='eval').body
            if isinstance(mt, ast.Attribute):
                o = self.eval(mt.value, env)
                fld = self.mangle(mt.attr, env.cls)
                refs.add((o, fld))
                cur = self.getattr(o, fld)
                if isinstance(cur, Ref) and cur.kind in ('slist', 'rows', 'clist'):
                    # a field holding a list: the loop may change its contents (and re-bind the field to it)
                    refs.add(cur)
                    self.havoc_cell(cur)
                else:
                    self.setattr_raw(o, fld, self.havoc_like(cur, fld))
            else:
                r = self.eval(mt, env)
                if not isinstance(r, Ref):
                    raise Unsupported('modifies clause %s is not a heap cell' % mexpr)
                refs.add(r)
                if r.meta.get('parent') is not None:
                    refs.add(('row', r.meta['parent'][0], r.meta['parent'][1].get_id()))
                self.havoc_cell(r)
        for nme in sorted(assigned):
            e = self._find_env(nme, env)
            if e is None:
                continue        # first bound inside the loop: not live at the head
            e.vars[nme] = self.havoc_like(e.vars[nme], nme)
        if n_term is not None:
            i = st.fresh('_i_' + name.replace('#', '_').replace('.', '_'), 'int')
            st.assume(i.t >= 0)
            st.assume(i.t <= n_term)
        else:
            i = st.fresh('_it_' + name.replace('#', '_').replace('.', '_'), 'int')
            st.assume(i.t >= 0)
        for text, tree in inv_asts:
            c = self.truth_term(self.eval(tree, inv_env(i)))
            st.assume(c if not isinstance(c, bool) else z3.BoolVal(c))
        # 3. body or exit
        if n_term is not None:
            cont = st.branch(i.t < n_term)
        else:
            cont = self.truth(self.eval(test, env))
        if not cont:
            if isinstance(s, ast.While):
                self.exec_block(s.orelse, env)
            return
        if item_of is not None:
            self.assign(s.target, item_of(i), env)
        d0 = None
        if dec_ast is not None:
            d0 = self.eval(dec_ast, env)
        # references held at the loop head: the havoc above kept them (only contents were havocked), which is
        # right only if the body does not re-bind them to other cells (aliasing would break the separation the
        # invariants rely on)
        held = {}
        for item in refs:
            if isinstance(item, tuple) and len(item) == 2 and isinstance(item[1], str):
                cur = st.heap[item[0]].get(item[1])
                if isinstance(cur, Ref):
                    held[('field', item[0], item[1])] = cur
        tnames = set(M._target_names(s.target)) if isinstance(s, ast.For) else set()
        for nme in sorted(assigned - tnames):
            e = self._find_env(nme, env)
            if e is not None and isinstance(e.vars[nme], Ref):
                held[('name', nme)] = e.vars[nme]
        st.frames.append({'stamp': stamp, 'refs': refs, 'name': name})
        try:
            try:
                self.exec_block(s.body, env)
            except ContinueEx:
                pass
            except BreakEx:
                return            # state after break continues after the loop
        finally:
            st.frames.pop()
        for key, ref0 in held.items():
            if key[0] == 'field':
                now = st.heap[key[1]].get(key[2])
                what = 'field %s' % key[2]
            else:
                e = self._find_env(key[1], env)
                now = e.vars.get(key[1]) if e is not None else None
                what = 'variable %s' % key[1]
            if now is not ref0:
                raise Unsupported('%s is re-bound to another object inside loop %s: the invariant frame (separate '
                                  'cells) cannot be carried to the next iteration' % (what, name))
        inext = SV(i.t + 1, 'int')
        for text, tree in inv_asts:
            c = self.truth_term(self.eval(tree, inv_env(inext)))
            st.check('%s/inv-preserve: %s' % (name, text), c)
        if dec_ast is not None:
            d1 = self.eval(dec_ast, env)
            st.check('%s/decreases: %s' % (name, spec.decreases),
                     z3.And(zint(d1) < zint(d0), zint(d0) > 0) if True else True)
        raise PathEnd()

    def _find_env(self, name, env):
        e = env
        while e is not None:
            if name in e.vars:
                return e
            e = e.parent
        return None

    def havoc_like(self, v, base):
        st = self.st
        if isinstance(v, SV):
            return st.fresh(base, v.kind)
        if isinstance(v, bool):
            return st.fresh(base, 'bool')
        if isinstance(v, int):
            return st.fresh(base, 'int')
        if isinstance(v, float):
            return st.fresh(base, 'real')
        if v is None:
            raise Unsupported('havoc of a variable holding None (%s): kind unknown' % base)
        if isinstance(v, Ref):
            return v     # the reference itself is loop-invariant unless reassigned; contents via modifies
        if isinstance(v, (SStr, SOpaque, str, tuple, Closure, Builtin, AbsFun)):
            return v if not isinstance(v, tuple) else tuple(self.havoc_like(x, base) for x in v)
        raise Unsupported('havoc of %r' % (v,))

    def havoc_cell(self, r):
        st = self.st
        cell = st.heap[r]
        if r.kind == 'slist':
            nm = st.fresh_name((r.name or 'l') + '_h')
            ek = cell['ek']
            arr = z3.Array(nm + '_a', z3.IntSort(), z3.RealSort() if ek == 'real' else z3.IntSort())
            ln = z3.Int(nm + '_n')
            st.assume(ln >= 0)
            st.heap[r] = {'len': ln, 'arr': arr, 'ek': ek}
            for k in cell:
                if k not in ('len', 'arr', 'ek'):
                    st.heap[r][k] = cell[k]
        elif r.kind == 'rows':
            nm = st.fresh_name((r.name or 'm') + '_h')
            nc = dict(cell)
            nc['rows'] = z3.Array(nm + '_r', z3.IntSort(), z3.ArraySort(z3.IntSort(), z3.RealSort()))
            st.heap[r] = nc
        elif r.kind == 'clist':
            st.heap[r] = [self.havoc_like(x, (r.name or 'l') + '_%d' % k) for k, x in enumerate(cell)]
        elif r.kind == 'obj':
            raise Unsupported('havoc of whole object; name its fields in modifies')
        else:
            raise Unsupported('havoc of %s cell' % r.kind)

    # ================================================================ assignment
    def store_name(self, name, v, env):
        if name in env.globals_decl:
            self.module_env(env.module).vars[name] = v
            return
        if name in env.nonlocal_decl:
            e = self._find_env(name, env.parent)
            if e is None:
                raise Unsupported('nonlocal %s' % name)
            e.vars[name] = v
            return
        env.vars[self.mangle(name, env.cls) if (env.cls is not None and env.vars is getattr(env.cls, '_attrs', None)) else name] = v

    def assign(self, t, v, env):
        if isinstance(t, ast.Name):
            self.store_name(t.id, v, env)
        elif isinstance(t, (ast.Tuple, ast.List)):
            items = self.models.concrete_iter(self, v)
            if items is None:
                if numkind(v) is not None or v is None:
                    raise PyExc('TypeError', 'cannot unpack non-iterable object')
                raise Unsupported('unpacking a symbolic sequence')
            if len(items) != len(t.elts):
                raise PyExc('ValueError', 'unpack')
            for e, x in zip(t.elts, items):
                self.assign(e, x, env)
        elif isinstance(t, ast.Subscript):
            obj = self.eval(t.value, env)
            idx = self.eval_index(t.slice, env)
            self.setitem(obj, idx, v)
        elif isinstance(t, ast.Attribute):
            obj = self.eval(t.value, env)
            if t.attr == 'shape' and isinstance(t.value, ast.Name) and numkind(obj) is not None and isinstance(v, tuple):
                # a 0-d array is represented by its scalar: `name.shape = (..)` rebinds the name to the reshaped array
                # (exact as long as the 0-d array has no other reference, e.g. it was just made by numpy.asarray)
                from . import lib as _lib
                new = _lib.nd_reshape([obj], v)
                self.st.assumptions.add('a 0-d array reshaped in place has no other reference')
                self.store_name(t.value.id, _lib.nd_build(self, new), env)
                return
            self.setattr(obj, self.mangle(t.attr, env.cls), v)
        elif isinstance(t, ast.Starred):
            raise Unsupported('starred assignment')
        else:
            raise Unsupported('assignment target %s' % type(t).__name__)

    # ================================================================ expressions
    def eval(self, n, env):
        m = getattr(self, 'ev_' + type(n).__name__, None)
        if m is None:
            raise Unsupported('expression %s' % type(n).__name__)
        return m(n, env)

    def ev_Constant(self, n, env):
        return n.value

    def lookup_is_builtin(self, name, env):
        """does `name` resolve to the builtin of that name here (not shadowed by a local / module definition)?"""
        try:
            v = self.lookup(name, env)
        except PyExc:
            return False
        return isinstance(v, Builtin) and v is self.builtins.get(name)

    def ev_Name(self, n, env):
        name = n.id
        if env.cls is not None:
            mn = self.mangle(name, env.cls)
            if mn != name:
                name = mn
        return self.lookup(name, env)

    def _yield_sink(self, env):
        e = env
        while e is not None:
            if '__yields__' in e.vars:
                return e.vars['__yields__']
            e = e.parent
        raise Unsupported('yield outside a generator function')

    def ev_Yield(self, n, env):
        self._yield_sink(env).append(self.eval(n.value, env) if n.value is not None else None)
        return None

    def ev_YieldFrom(self, n, env):
        items = self.models.concrete_iter(self, self.eval(n.value, env))
        if items is None:
            raise Unsupported('yield from a sequence of symbolic length')
        self._yield_sink(env).extend(items)
        return None

    def ev_Lambda(self, n, env):
        return self.make_closure(n, env)

    def ev_Tuple(self, n, env):
        out = []
        for e in n.elts:
            if isinstance(e, ast.Starred):
                items = self.models.concrete_iter(self, self.eval(e.value, env))
                if items is None:
                    raise Unsupported('starred symbolic sequence')
                out.extend(items)
            else:
                out.append(self.eval(e, env))
        return tuple(out)

    def ev_List(self, n, env):
        return self.st.alloc('clist', list(self.ev_Tuple(n, env)))

    def ev_Set(self, n, env):
        return self.models.make_set(self, list(self.ev_Tuple(n, env)))

    def ev_Dict(self, n, env):
        d = {}
        for k, v in zip(n.keys, n.values):
            if k is None:
                src = self.eval(v, env)
                d.update(self.models.dict_cell(self, src))
            else:
                d[self.models.hkey(self.eval(k, env))] = self.eval(v, env)
        return self.st.alloc('dict', d)

    def ev_JoinedStr(self, n, env):
        return SStr(self.st.fresh_name('fstr'))

    def ev_IfExp(self, n, env):
        # peephole (reals):  `0.0 if abs(X) <= T else X`  with T evaluating to the number 0 is X  (abs(X) <= 0 iff X == 0).
        # Decided on the syntax tree because the solver-side simplifier rewrites abs/products beyond recognition.
        t = n.test
        if isinstance(t, ast.Compare) and len(t.ops) == 1 and isinstance(t.ops[0], ast.LtE) and \
                isinstance(t.left, ast.Call) and isinstance(t.left.func, ast.Name) and t.left.func.id == 'abs' and \
                len(t.left.args) == 1 and not t.left.keywords and ast.dump(t.left.args[0]) == ast.dump(n.orelse) and \
                isinstance(n.body, ast.Constant) and n.body.value == 0 and not isinstance(n.body.value, bool) and \
                isinstance(n.orelse, ast.Name) and self.lookup_is_builtin('abs', env):
            tol = self.eval(t.comparators[0], env)
            if isinstance(tol, (int, float)) and not isinstance(tol, bool) and tol == 0:
                v = self.eval(n.orelse, env)
                if numkind(v) == 'real' or (isinstance(v, float)):
                    return v
        c = self.eval(n.test, env)
        tv = self.truth_term(c)
        if isinstance(tv, bool):
            return self.eval(n.body if tv else n.orelse, env)
        # try a pure merge for scalar results (no side effects in either arm)
        if _is_pure_scalar_expr(n.body) and _is_pure_scalar_expr(n.orelse):
            a = self.try_pure(n.body, env, tv)
            b = self.try_pure(n.orelse, env, z3.Not(tv))
            if a is not None and b is not None and numkind(a) and numkind(b):
                if numkind(a) == 'real' or numkind(b) == 'real':
                    # `0.0 if abs(s) <= tol else s` with tol = 0 IS s: when the guard implies that both arms are
                    # equal the conditional is dropped (decided on an abstraction in which every nonlinear subterm is
                    # an opaque constant -- the typical instance is linear once s is opaque).  Keeps big arithmetic
                    # terms free of if-then-else, which the solvers handle much better.
                    from .algebra import _abstract
                    am = {}
                    ta, tb, tc = (_abstract(z3.simplify(u), am) for u in (zreal(a), zreal(b), tv))
                    for cond, keep in ((tc, b), (z3.Not(tc), a)):
                        sv = z3.Solver()
                        sv.set('timeout', 1000)
                        sv.add(cond, ta != tb)
                        if sv.check() == z3.unsat:
                            return keep
                return self.ite(tv, a, b)
        if self.st.branch(tv):
            return self.eval(n.body, env)
        return self.eval(n.orelse, env)

    def try_pure(self, node, env, guard):
        """evaluate node under an extra assumption without forking; None if it may raise/branch"""
        self.st.push(guard)
        try:
            return self.eval_nofork(node, env)
        finally:
            self.st.pop()

    def ite(self, c, a, b):
        ka, kb = numkind(a), numkind(b)
        if ka == 'bool' and kb == 'bool':
            return SV(z3.If(c, zbool(a), zbool(b)), 'bool')
        if ka in ('int', 'bool') and kb in ('int', 'bool'):
            return SV(z3.If(c, zint(a), zint(b)), 'int')
        return SV(z3.If(c, zreal(a), zreal(b)), 'real')

    def ev_BoolOp(self, n, env):
        # python semantics: returns an operand.  Keep it symbolic when all operands are boolean-like and pure.
        vals = []
        isand = isinstance(n.op, ast.And)
        v = None
        for k, e in enumerate(n.values):
            v = self.eval(e, env)
            if k == len(n.values) - 1:
                break
            tv = self.truth_term(v)
            if isinstance(tv, bool):
                if tv != isand:
                    return v
                continue
            # symbolic: if the remaining operands are pure comparisons, build a formula; otherwise fork
            rest = n.values[k + 1:]
            if isinstance(v, SV) and v.kind == 'bool' and all(_is_pure_bool_expr(r) for r in rest):
                acc = tv
                ok = True
                saved = (list(self.st.decisions), list(self.st.alternatives))
                terms = []
                try:
                    for r in rest:
                        # operands are evaluated under the guard that evaluation reaches them
                        self.st.push(acc if isand else z3.Not(acc))
                        try:
                            rv = self.eval_nofork(r, env)
                        finally:
                            self.st.pop()
                        if rv is None:
                            ok = False
                            break
                        rt = self.truth_term(rv)
                        rt = z3.BoolVal(rt) if isinstance(rt, bool) else rt
                        terms.append(rt)
                        acc = z3.And(acc, rt) if isand else z3.Or(acc, rt)
                except _NoFork:
                    ok = False
                if ok:
                    return SV(z3.simplify(acc), 'bool')
                self.st.decisions, self.st.alternatives = saved
            if self.st.branch(tv) != isand:
                return v
        return v

    def eval_nofork(self, node, env):
        """evaluate an expression; abort (return None) if it would need to fork or raise conditionally"""
        old = self.st.branch
        old_choose = self.st.choose

        def nb(cond):
            c = z3.simplify(cond)
            if z3.is_true(c):
                return True
            if z3.is_false(c):
                return False
            d = self.st.decide(c)
            if d is not None:
                return d
            raise _NoFork()
        self.st.branch = nb
        try:
            return self.eval(node, env)
        except _NoFork:
            return None
        except PyExc:
            return None
        finally:
            self.st.branch = old

    def ev_UnaryOp(self, n, env):
        v = self.eval(n.operand, env)
        if type(v).__name__ == 'MaskedSel':
            if isinstance(n.op, ast.USub):          # -(a[m]) == (-a)[m]
                return type(v)(self.binop(ast.Sub(), 0.0, v.src), v.mask)
            if isinstance(n.op, ast.UAdd):
                return v
            from .models import resolve_masked
            v = resolve_masked(self, v)
            if v is None:
                raise Unsupported('unary operator on a boolean-mask selection of symbolic shape')
        if isinstance(n.op, ast.Not):
            tv = self.truth_term(v)
            if isinstance(tv, bool):
                return not tv
            return SV(z3.Not(tv), 'bool')
        if isinstance(n.op, ast.USub):
            return self.binop(ast.Sub(), 0 if numkind(v) in ('int', 'bool') else 0.0, v) \
                if isinstance(v, (SV, Ref)) else -v
        if isinstance(n.op, ast.UAdd):
            return v
        if isinstance(n.op, ast.Invert):
            if isinstance(v, Ref):
                return self.models.elementwise1(self, v, lambda x: self.lnot(x))
            raise Unsupported('~ on scalar')
        raise Unsupported('unary op')

    def lnot(self, x):
        tv = self.truth_term(x)
        return (not tv) if isinstance(tv, bool) else SV(z3.Not(tv), 'bool')

    def ev_BinOp(self, n, env):
        a = self.eval(n.left, env)
        b = self.eval(n.right, env)
        return self.binop(n.op, a, b)

    def ev_Compare(self, n, env):
        left = self.eval(n.left, env)
        res = None
        for op, rn in zip(n.ops, n.comparators):
            right = self.eval(rn, env)
            c = self.compare(op, left, right)
            if res is None:
                res = c
            else:
                res = self.land(res, c)
            left = right
        return res

    def land(self, a, b):
        ta, tb = self.truth_term(a), self.truth_term(b)
        if isinstance(ta, bool):
            return b if ta else False
        if isinstance(tb, bool):
            return a if tb else False
        return SV(z3.And(ta, tb), 'bool')

    def lor(self, a, b):
        ta, tb = self.truth_term(a), self.truth_term(b)
        if isinstance(ta, bool):
            return True if ta else b
        if isinstance(tb, bool):
            return True if tb else a
        return SV(z3.Or(ta, tb), 'bool')

    def ev_Call(self, n, env):
        if isinstance(n.func, ast.Name) and n.func.id == 'super' and not n.args and not n.keywords and \
                self.lookup_is_builtin('super', env):
            # zero-argument super(): the class the enclosing method is defined in and its first parameter
            e = env
            while e is not None and e.func is None:
                e = e.parent
            if e is not None and e.cls is not None and e.func.node.args.args:
                from .values import SuperV
                return SuperV(e.cls, self.lookup(e.func.node.args.args[0].arg, e))
            raise Unsupported('super() outside a method')
        if isinstance(n.func, ast.Name) and n.func.id == 'eval' and len(n.args) == 1 and not n.keywords and \
                self.lookup_is_builtin('eval', env):
            # eval(text) of a CONCRETE text (e.g. the repr of a settings dict kept in a doc string): parsed and evaluated
            # by this interpreter in the caller's scope, as python does
            text = self.eval(n.args[0], env)
            if not isinstance(text, str):
                raise Unsupported('eval of a symbolic text')
            try:
                tree = ast.parse(text.strip(), mode='eval').body
            except SyntaxError:
                raise PyExc('SyntaxError', 'eval')
            return self.eval(tree, env)
        f = self.eval(n.func, env)
        args = []
        for a in n.args:
            if isinstance(a, ast.Starred):
                items = self.models.concrete_iter(self, self.eval(a.value, env))
                if items is None:
                    raise Unsupported('*args from symbolic sequence')
                args.extend(items)
            else:
                args.append(self.eval(a, env))
        kwargs = {}
        for k in n.keywords:
            if k.arg is None:
                d = self.eval(k.value, env)
                kwargs.update(self.models.dict_cell(self, d))
            else:
                kwargs[k.arg] = self.eval(k.value, env)
        return self.call(f, args, kwargs)

    def ev_Attribute(self, n, env):
        obj = self.eval(n.value, env)
        return self.getattr(obj, self.mangle(n.attr, env.cls))

    def ev_Subscript(self, n, env):
        obj = self.eval(n.value, env)
        idx = self.eval_index(n.slice, env)
        return self.getitem(obj, idx)

    def eval_index(self, sl, env):
        if isinstance(sl, ast.Slice):
            return slice(self.eval(sl.lower, env) if sl.lower is not None else None,
                         self.eval(sl.upper, env) if sl.upper is not None else None,
                         self.eval(sl.step, env) if sl.step is not None else None)
        if isinstance(sl, ast.Tuple):
            return tuple(self.eval_index(e, env) for e in sl.elts)
        return self.eval(sl, env)

    def ev_Slice(self, n, env):
        return self.eval_index(n, env)

    def ev_ListComp(self, n, env):
        return self._comp(n, env, 'list')

    def ev_GeneratorExp(self, n, env):
        return self._comp(n, env, 'gen')

    def ev_SetComp(self, n, env):
        items = self.st.heap[self._comp(n, env, 'list')]
        return self.models.make_set(self, list(items))

    def ev_DictComp(self, n, env):
        fake = ast.ListComp(elt=ast.Tuple(elts=[n.key, n.value], ctx=ast.Load()), generators=n.generators)
        items = self.st.heap[self._comp(fake, env, 'list', nospec=True)]
        return self.st.alloc('dict', {self.models.hkey(k): v for k, v in items})

    def _comp(self, n, env, kind, nospec=False):
        out = []
        cenv = Env({}, env, env.module, env.cls, env.func)

        def rec(gi):
            if gi == len(n.generators):
                out.append(self.eval(n.elt, cenv))
                return
            g = n.generators[gi]
            it = self.eval(g.iter, cenv if gi else env)
            items = self.models.concrete_iter(self, it)
            if items is None:
                raise _SymComp(it)
            if len(items) > self.unroll_limit:
                raise Unsupported('comprehension too long to unroll')
            for x in items:
                self.assign(g.target, x, cenv)
                if all(self.truth(self.eval(c, cenv)) for c in g.ifs):
                    rec(gi + 1)
        try:
            rec(0)
        except _SymComp as sc:
            if len(n.generators) != 1 or nospec:
                raise Unsupported('nested comprehension over a symbolic sequence')
            return self._sym_comp(n, env, cenv, sc.it)
        return self.st.alloc('clist', out)

    def _sym_comp(self, n, env, cenv, it):
        """[elt for t in <symbolic seq>]: either a pure elementwise map (Lambda array) or, when the
        contract gives an invariant for it, a loop with side effects whose result is discarded/havocked"""
        g = n.generators[0]
        key, spec = self._loop_key(n, env)
        if spec is not None:
            # the fingerprint of a comprehension is its `for <target> in <iterable>` part; the element expression is the
            # loop *body* and is analysed against the invariant like the body of a for statement
            def _forpart(t):
                t = _norm(t)
                return t[t.index(' for ') + 1:].rstrip(']') if ' for ' in t else t
            if _forpart(spec.header) != _forpart(self.header_text(n, env)):
                raise Unsupported('comprehension header changed: invariant not applied')
            n_term, item_of = self.models.symbolic_iter(self, it)
            body = [ast.Expr(value=n.elt)]
            fake = ast.For(target=g.target, iter=g.iter, body=body, orelse=[])
            ast.copy_location(fake, n)
            if g.ifs:
                fake.body = [ast.If(test=ast.BoolOp(op=ast.And(), values=g.ifs) if len(g.ifs) > 1 else g.ifs[0],
                                    body=body, orelse=[])]
            self._inv_loop(fake, env, spec, key, n_term, item_of, None)
            # the produced list is not modelled: opaque list of that length
            r = self.st.alloc('slist', {'len': n_term, 'arr': z3.Array(self.st.fresh_name('comp_a'), z3.IntSort(), z3.RealSort()), 'ek': 'real'})
            r.meta['opaque_elems'] = True
            return r
        if g.ifs:
            raise Unsupported('filtered comprehension over a symbolic sequence')
        n_term, item_of = self.models.symbolic_iter(self, it)
        if not z3.is_int_value(z3.simplify(n_term)) and not self.st.feasible(n_term > 0):
            return self.st.alloc('clist', [])          # the sequence is empty on this path: the body is never evaluated
        k = z3.Int(self.st.fresh_name('ck'))
        self.assign(g.target, item_of(SV(k, 'int')), cenv)
        self.comp_index = k
        try:
            self.st.push(k >= 0, k < n_term)
            try:
                v = self.eval_nofork(n.elt, cenv)
            finally:
                self.st.pop()
        finally:
            self.comp_index = None
        if v is None or numkind(v) is None:
            raise Unsupported('comprehension body over symbolic sequence is not a pure scalar map')
        ek = 'int' if numkind(v) in ('int',) else 'real'
        body = zint(v) if ek == 'int' else zreal(v)
        arr = z3.Lambda([k], body)
        return self.st.alloc('slist', {'len': n_term, 'arr': arr, 'ek': ek})

    # ================================================================ truthiness
    def truth_term(self, v):
        """python bool when concrete, else z3 Bool"""
        if isinstance(v, SV):
            t = z3.simplify(zbool(v))
            if z3.is_true(t):
                return True
            if z3.is_false(t):
                return False
            return t
        if isinstance(v, SStr):
            return bool(v.nonempty)
        if isinstance(v, SOpaque):
            return v.truthy
        if isinstance(v, Ref):
            if v.kind == 'clist':
                if v.nd and len(self.st.heap[v]) != 1:
                    if len(self.st.heap[v]) == 0:
                        return False
                    raise PyExc('ValueError', 'truth value of an array is ambiguous')
                if v.nd:
                    return self.truth_term(self.st.heap[v][0])
                return len(self.st.heap[v]) > 0
            if v.kind == 'slist':
                if v.nd:
                    raise Unsupported('truth of symbolic ndarray')
                t = z3.simplify(self.st.heap[v]['len'] > 0)
                return True if z3.is_true(t) else False if z3.is_false(t) else t
            if v.kind in ('dict', 'set'):
                return len(self.st.heap[v]) > 0
            if v.kind == 'obj':
                ln = v.cls.lookup('__len__') if v.cls else UNDEF
                bl = v.cls.lookup('__bool__') if v.cls else UNDEF
                if bl is not UNDEF:
                    return self.truth_term(self.call(bl, [v], {}))
                if ln is not UNDEF:
                    return self.truth_term(self.compare(ast.Gt(), self.call(ln, [v], {}), 0))
                if v.cls is not None and v.cls.builtin_base == 'tuple':
                    return len(self.st.heap[v]['__items__']) > 0
                return True
        if isinstance(v, AbsFun) and getattr(v, 'truthy', None) is not None:
            # a user-supplied callable *object* (it may define __bool__ / __len__: a recorder that subclasses list ...):
            # its truth value is whatever the contract says, typically an unconstrained boolean
            t = v.truthy
            return t if isinstance(t, bool) else self.truth_term(t)
        if isinstance(v, (Closure, Builtin, AbsFun, BoundMethod, ClassRef, TypeTag, ModRef)):
            return True
        if isinstance(v, float) and v != v:
            return True
        if isinstance(v, (type(None), bool, int, float, str, tuple, RangeV)):
            if isinstance(v, RangeV):
                raise Unsupported('truth of range')
            return bool(v)
        if isinstance(v, ExcVal):
            return True
        raise Unsupported('truthiness of %r' % (v,))

    def truth(self, v):
        t = self.truth_term(v)
        if isinstance(t, bool):
            return t
        return self.st.branch(t)

    # ================================================================ arithmetic
    def binop(self, op, a, b):
        return self.models.binop(self, op, a, b)

    def compare(self, op, a, b):
        return self.models.compare(self, op, a, b)

    # ================================================================ attributes / items
    def getattr(self, obj, name):
        return self.models.getattr(self, obj, name)

    def setattr(self, obj, name, v):
        return self.models.setattr(self, obj, name, v)

    def setattr_raw(self, obj, name, v):
        self.st.heap[obj][name] = v

    def getitem(self, obj, idx):
        return self.models.getitem(self, obj, idx)

    def setitem(self, obj, idx, v):
        return self.models.setitem(self, obj, idx, v)


class _NoFork(Exception):
    pass


class _SymComp(Exception):
    def __init__(self, it):
        self.it = it


class _EntryLift(ast.NodeTransformer):
    """replace entry(e) in an invariant by a temp bound to the value of e at loop entry"""
    def __init__(self, interp, env, store, prefix):
        self.interp, self.env, self.store, self.prefix = interp, env, store, prefix
        self.k = 0

    def visit_Call(self, node):
        if isinstance(node.func, ast.Name) and node.func.id == 'entry' and len(node.args) == 1:
            name = 'entry__%s_%d' % (self.prefix, self.k)
            self.k += 1
            v = self.interp.eval(node.args[0], self.env)
            v = self.interp.models.snapshot(self.interp, v)
            self.store[name] = v
            return ast.copy_location(ast.Name(id=name, ctx=ast.Load()), node)
        return self.generic_visit(node)


def _norm(s):
    return ' '.join(s.split())


def _walk_no_nested(fnode):
    """walk a function body without descending into nested function/class definitions"""
    stack = list(fnode.body) if isinstance(fnode.body, list) else [fnode.body]
    while stack:
        n = stack.pop(0)
        yield n
        if isinstance(n, (ast.FunctionDef, ast.ClassDef, ast.Lambda)):
            continue
        stack = list(ast.iter_child_nodes(n)) + stack


def _assigned_names(body):
    out = set()

    class V(ast.NodeVisitor):
        def visit_FunctionDef(self, n):
            out.add(n.name)

        def visit_Lambda(self, n):
            pass

        def visit_ClassDef(self, n):
            out.add(n.name)

        def visit_Name(self, n):
            if isinstance(n.ctx, (ast.Store, ast.Del)):
                out.add(n.id)

        def visit_ListComp(self, n):
            # comprehension targets are local to the comprehension
            for g in n.generators:
                self.visit(g.iter)
            self.visit(n.elt)

        visit_GeneratorExp = visit_ListComp
        visit_SetComp = visit_ListComp

        def visit_Import(self, n):
            for a in n.names:
                out.add((a.asname or a.name).split('.')[0])

        def visit_ImportFrom(self, n):
            for a in n.names:
                out.add(a.asname or a.name)

        def visit_ExceptHandler(self, n):
            if n.name:
                out.add(n.name)
            self.generic_visit(n)
    v = V()
    for s in body:
        v.visit(s)
    return out


_PURE_NODES = (ast.Compare, ast.BoolOp, ast.UnaryOp, ast.BinOp, ast.Name, ast.Constant, ast.Subscript,
               ast.Attribute, ast.Load, ast.operator, ast.cmpop, ast.boolop, ast.unaryop, ast.expr_context,
               ast.Call, ast.Tuple, ast.IfExp)


PURE_SPEC_CALLS = set()      # names of side-effect-free spec functions registered by harnesses (harness.spec)


def _is_pure_bool_expr(n):
    for x in ast.walk(n):
        if not isinstance(x, _PURE_NODES):
            return False
        if isinstance(x, ast.Call):
            if isinstance(x.func, ast.Name) and x.func.id in PURE_SPEC_CALLS:
                continue
            if not (isinstance(x.func, ast.Name) and x.func.id in ('abs', 'len', 'max', 'min', 'float', 'int', 'bool',
                                                                   'isinstance', 'hasattr', 'implies', 'iff', 'eq',
                                                                   'truthy', 'Pow', 'Sqrt', 'forall', 'exists', 'seq_eq',
                                                                   'isinf', 'isint', 'gt', 'ge', 'same', 'is_none', 'Log')):
                return False
    return True


def _is_pure_scalar_expr(n):
    return _is_pure_bool_expr(n)
