"""Path state of the symbolic interpreter: path condition, heap, decisions, obligations."""
import os
import time
import z3
from .values import *


class Obl:
    __slots__ = ('label', 'status', 'secs', 'detail', 'model', 'backend', 'path', 'zmodel')

    def __init__(self, label, status, secs=0.0, detail='', model=None, backend='z3', path=None):
        self.label = label
        self.status = status        # discharged | refuted | undecided | trivial
        self.secs = secs
        self.detail = detail
        self.model = model
        self.backend = backend
        self.path = path
        self.zmodel = None

    def as_dict(self):
        return {'label': self.label, 'status': self.status, 'secs': round(self.secs, 4),
                'detail': self.detail, 'backend': self.backend, 'model': self.model}


_hq_cache = {}


def has_quantifier(t):
    """does the term contain a quantifier or lambda?"""
    if isinstance(t, bool):
        return False
    key = t.get_id()
    if key in _hq_cache and _hq_cache[key][1].eq(t):
        return _hq_cache[key][0]
    stack, seen, res = [t], set(), False
    while stack:
        x = stack.pop()
        i = x.get_id()
        if i in seen:
            continue
        seen.add(i)
        if z3.is_quantifier(x):
            res = True
            break
        if i in _hq_cache and _hq_cache[i][1].eq(x):
            if _hq_cache[i][0]:
                res = True
                break
            continue
        stack.extend(x.children())
    if len(_hq_cache) > 200000:
        _hq_cache.clear()
    _hq_cache[key] = (res, t)       # the term is kept alive with its entry: z3 ast ids are reused after collection
    return res


_lin_cache = {}


def is_linear(t):
    """quantifier-free and without products / quotients of two non-constant terms, powers or SQRT/POW applications"""
    if isinstance(t, bool):
        return True
    key = t.get_id()
    if key in _lin_cache and _lin_cache[key][1].eq(t):
        return _lin_cache[key][0]
    stack, seen, res = [t], set(), True
    while stack:
        x = stack.pop()
        i = x.get_id()
        if i in seen:
            continue
        seen.add(i)
        if z3.is_quantifier(x):
            res = False
            break
        if x.num_args():
            k = x.decl().kind()
            nonconst = sum(1 for c in x.children() if not (z3.is_rational_value(c) or z3.is_int_value(c)))
            if (k == z3.Z3_OP_MUL and nonconst >= 2) or (k in (z3.Z3_OP_DIV, z3.Z3_OP_IDIV, z3.Z3_OP_MOD) and
                                                        not (z3.is_rational_value(x.arg(1)) or z3.is_int_value(x.arg(1)))) \
                    or k == z3.Z3_OP_POWER or (k == z3.Z3_OP_UNINTERPRETED and x.decl().name() in ('SQRT', 'POW', 'LOG')):
                res = False
                break
        stack.extend(x.children())
    if len(_lin_cache) > 200000:
        _lin_cache.clear()
    _lin_cache[key] = (res, t)
    return res


class Heap(dict):
    """heap cells; a row view (ref.meta['parent'] = (rows ref, index term)) reads and writes through its parent"""
    def __getitem__(self, r):
        par = r.meta.get('parent') if isinstance(r, Ref) else None
        if par is not None:
            pc = dict.__getitem__(self, par[0])
            return {'len': pc['ncols'], 'arr': z3.Select(pc['rows'], par[1]), 'ek': 'real'}
        return dict.__getitem__(self, r)

    def __setitem__(self, r, cell):
        par = r.meta.get('parent') if isinstance(r, Ref) else None
        if par is not None:
            pc = dict(dict.__getitem__(self, par[0]))
            arr = cell['arr']
            if cell.get('ek') == 'int':
                k = z3.Int('k!rw')
                arr = z3.Lambda([k], z3.ToReal(z3.Select(arr, k)))
            pc['rows'] = z3.Store(pc['rows'], par[1], arr)
            dict.__setitem__(self, par[0], pc)
            return
        dict.__setitem__(self, r, cell)


def _sum_of_squares_zero(cond):
    """cond of the form  S == 0  or  S <= 0  with S = sum of  c*q*q  (c a positive numeral, the same factor twice):
    the equivalent conjunction q == 0 for every q; None otherwise"""
    if not (z3.is_app(cond) and cond.num_args() == 2 and cond.decl().kind() in (z3.Z3_OP_EQ, z3.Z3_OP_LE)):
        return None
    l, r = cond.arg(0), cond.arg(1)
    if not z3.is_arith(l):
        return None
    if not z3.is_rational_value(r) or r.as_fraction() != 0:
        return None
    terms = l.children() if z3.is_app_of(l, z3.Z3_OP_ADD) else [l]
    qs = []
    for t in terms:
        if not z3.is_app_of(t, z3.Z3_OP_MUL):
            return None
        fs, todo = [], list(t.children())
        while todo:                             # flatten nested products: (* 1/3 (* q q))
            f = todo.pop(0)
            if z3.is_app_of(f, z3.Z3_OP_MUL):
                todo = list(f.children()) + todo
            else:
                fs.append(f)
        def num(f):
            if z3.is_rational_value(f):
                return f
            if f.num_args() and all(z3.is_rational_value(c) for c in f.children()):
                g = z3.simplify(f)              # an unevaluated constant such as (/ 1.0 3.0)
                return g if z3.is_rational_value(g) else None
            return None
        nums = [num(f) for f in fs if num(f) is not None]
        rest = [f for f in fs if num(f) is None]
        coef = 1
        for n_ in nums:
            coef *= n_.as_fraction()
        if coef <= 0 or len(rest) != 2 or not rest[0].eq(rest[1]):
            return None
        qs.append(rest[0])
    if not qs:
        return None
    return z3.And(*[q == 0 for q in qs]) if len(qs) > 1 else (qs[0] == 0)


class State:
    def __init__(self, prefix, timeout_ms=10000, symbols=None):
        self.solver = z3.Solver()
        self.solver.set('timeout', timeout_ms)
        # light solver: quantifier-free part of the path condition only; used for path feasibility (an
        # over-approximation is sound there: an infeasible path explored anyway proves its obligations vacuously)
        self.light = z3.Solver()
        self.light.set('timeout', 4000)
        # linear solver: only the linear quantifier-free facts.  `unsat` there is `unsat` of the whole path condition, and
        # it answers at once where nonlinear clutter makes the other two wander (e.g. "is the sum of the weights zero?")
        self.lin = z3.Solver()
        self.lin.set('timeout', 2000)
        # abstraction solver: every quantifier-free fact with its nonlinear subterms (products / quotients of non-constants,
        # powers, radicals) replaced by opaque constants.  Weaker than the path condition, so `unsat` there is `unsat`
        # here; `sat` there means "explore the branch" (exploring an infeasible branch is sound for proofs).  Used for
        # path feasibility once the path condition is nonlinear: z3's nonlinear solver needs 5-20 s per branch query on
        # e.g. Powell's extrapolation test, and does not honour its timeout.
        self.abs = z3.Solver()
        self.abs.set('timeout', 2000)
        self._abs_memo = {}
        self.nonlinear = False
        self.nonzero_terms = []
        self.timeout_ms = timeout_ms
        self.pc = []
        self.heap = Heap()
        self.prefix = list(prefix)
        self.decisions = []
        self.alternatives = []        # decision lists still to explore
        self.obligations = []
        self.imprecise = False
        self.imprecise_why = []
        self.counter = {}
        self.stamp = 0                # allocation clock
        self.ghost = {}
        self.symbols = symbols if symbols is not None else {}   # name -> z3 term / description for models
        self.uf_tables = {}
        self.frames = []              # active loop frames (declared write sets)
        self.solver_secs = 0.0
        self.n_queries = 0
        self.value_terms = []         # real-valued inputs / abstract results to keep small in counterexamples
        self.size_terms = []          # int terms (lengths, counters) to keep small in counterexamples
        self.trusted = set()          # library models used on this path
        self.assumptions = set()

    # ------------------------------------------------------------------ names
    def fresh(self, base, sort='real'):
        n = self.counter.get(base, 0)
        self.counter[base] = n + 1
        name = '%s!%d' % (base, n) if n else base
        if sort == 'real':
            return SV(z3.Real(name), 'real')
        if sort == 'int':
            return SV(z3.Int(name), 'int')
        if sort == 'bool':
            return SV(z3.Bool(name), 'bool')
        raise ValueError(sort)

    def fresh_name(self, base):
        n = self.counter.get(base, 0)
        self.counter[base] = n + 1
        return '%s!%d' % (base, n) if n else base

    # ------------------------------------------------------------------ heap
    def alloc(self, kind, cell, name=None, nd=False):
        r = Ref(kind, name)
        self.stamp += 1
        r.meta['birth'] = self.stamp
        r.nd = nd
        self.heap[r] = cell
        return r

    def note_write(self, ref, field=None):
        row = None
        if ref.meta.get('parent') is not None:
            row = ('row', ref.meta['parent'][0], ref.meta['parent'][1].get_id())
            ref = ref.meta['parent'][0]
        for fr in self.frames:
            if row is not None and row in fr['refs']:
                continue
            if ref.meta.get('birth', 0) > fr['stamp']:
                continue
            if ref in fr['refs'] or (ref, field) in fr['refs']:
                continue
            raise Unsupported('write to %r%s inside loop %s not declared in its modifies clause'
                              % (ref, '.' + field if field else '', fr['name']))

    # ------------------------------------------------------------------ logic
    def assume(self, cond):
        if isinstance(cond, bool):
            if not cond:
                raise PathEnd()
            return
        self.pc.append(cond)
        self.solver.add(cond)
        if not has_quantifier(cond):
            self.light.add(cond)
            if is_linear(cond):
                self.lin.add(cond)
                self.abs.add(cond)
            else:
                self.nonlinear = True
                self._note_nonzero(cond)
                self.abs.add(self._abstract(cond))
                # also in z3's normal form: branch conditions arrive simplified, and the abstraction matches nonlinear
                # subterms structurally (the same polynomial then abstracts to the same constants on both sides)
                sc = z3.simplify(cond)
                if not sc.eq(cond):
                    self.abs.add(self._abstract(sc))

    def _note_nonzero(self, cond):
        """remember the nonlinear real terms an assumption makes non-zero (t > 0, t < 0, t != 0): used to refute `t' == 0`
        for a t' that is the same polynomial written differently (sympy normal form, see feasible)"""
        stack = [cond]
        while stack:
            c = stack.pop()
            if z3.is_and(c):
                stack.extend(c.children())
                continue
            neg = False
            if z3.is_not(c):
                c, neg = c.arg(0), True
            if not z3.is_app(c) or c.num_args() != 2 or not z3.is_arith(c.arg(0)):
                continue
            k = c.decl().kind()
            strict = (k in (z3.Z3_OP_GT, z3.Z3_OP_LT) and not neg) or (k in (z3.Z3_OP_GE, z3.Z3_OP_LE, z3.Z3_OP_EQ) and neg) or \
                (k == z3.Z3_OP_DISTINCT and not neg)
            if strict and not is_linear(c) and len(self.nonzero_terms) < 8:
                l, r = c.arg(0), c.arg(1)

                def zero(u):
                    return (z3.is_int_value(u) and u.as_long() == 0) or (z3.is_rational_value(u) and u.as_fraction() == 0)
                # If(g, 0, m) != 0 means m != 0 (e.g. the library's `0.0 if abs(m) <= tol else m`)
                while zero(r) and z3.is_app_of(l, z3.Z3_OP_ITE) and (zero(l.arg(1)) or zero(l.arg(2))):
                    l = l.arg(2) if zero(l.arg(1)) else l.arg(1)
                self.nonzero_terms.append(l - r)

    def _abstract(self, t):
        from .algebra import _abstract
        return _abstract(t, self._abs_memo)

    def push(self, *conds):
        self.solver.push()
        self.light.push()
        self.lin.push()
        self.abs.push()
        for c in conds:
            self.solver.add(c)
            if not has_quantifier(c):
                self.light.add(c)
                if is_linear(c):
                    self.lin.add(c)
                    self.abs.add(c)
                else:
                    self.abs.add(self._abstract(c))

    def pop(self):
        self.solver.pop()
        self.light.pop()
        self.lin.pop()
        self.abs.pop()

    def _check_light(self, extra):
        t0 = time.time()
        self.light.push()
        self.light.add(extra)
        r = self.light.check()
        self.light.pop()
        self.solver_secs += time.time() - t0
        self.n_queries += 1
        return r

    def _check(self, extra=None):
        t0 = time.time()
        if extra is not None:
            self.solver.push()
            self.solver.add(extra)
        r = self.solver.check()
        if extra is not None:
            self.solver.pop()
        self.solver_secs += time.time() - t0
        self.n_queries += 1
        return r

    def feasible(self, cond, exact=False):
        """is pc /\\ cond satisfiable?  unknown counts as feasible (sound for proofs)."""
        if has_quantifier(cond):
            return self._check(cond) != z3.unsat
        sos = _sum_of_squares_zero(cond)
        if sos is not None:
            cond = sos            # c1*q1*q1 + ... + cn*qn*qn == 0 (ci > 0)  <=>  q1 == 0 and ... and qn == 0
        if is_linear(cond):
            t0 = time.time()
            self.lin.push()
            self.lin.add(cond)
            rl = self.lin.check()
            self.lin.pop()
            self.solver_secs += time.time() - t0
            self.n_queries += 1
            if rl == z3.unsat:
                return False
        if self.nonlinear or not is_linear(cond):
            t0 = time.time()
            self.abs.push()
            self.abs.add(self._abstract(cond))
            ra = self.abs.check()
            self.abs.pop()
            self.solver_secs += time.time() - t0
            self.n_queries += 1
            if ra == z3.unsat:
                return False
            if ra == z3.sat:
                # feasible in the abstraction: give the exact solver a short chance to refute it, then explore
                # feasible in the abstraction.  Ordinary branches are simply explored (sound: an infeasible branch proves its
                # obligations vacuously); guards whose 'wrong' side the interpreter cannot execute at all (sqrt of a
                # negative number ...) ask for the exact solver (exact=True)
                if self.nonzero_terms and z3.is_eq(cond) and z3.is_arith(cond.arg(0)):
                    from .algebra import nonzero_multiple
                    t0 = time.time()
                    hit = nonzero_multiple(cond.arg(0) - cond.arg(1), self.nonzero_terms)
                    self.solver_secs += time.time() - t0
                    if hit:
                        return False
                if not exact:
                    return True
                self.light.set('timeout', 2000)
                try:
                    r = self._check_light(cond)
                finally:
                    self.light.set('timeout', 4000)
                return r != z3.unsat
        r = self._check_light(cond)
        if r == z3.unknown:
            r = self._check(cond)      # the light solver timed out (loaded machine): ask the full one
        return r != z3.unsat

    def decide(self, cond):
        """True / False if the path condition implies cond / not cond, else None (used where forking is not allowed)"""
        ft = self.feasible(cond)
        ff = self.feasible(z3.Not(cond))
        if ft and ff:
            # both look feasible: make sure with the full solver before giving up
            if self._check(z3.Not(cond)) == z3.unsat:
                return True
            if self._check(cond) == z3.unsat:
                return False
            return None
        if ft:
            return True
        if ff:
            return False
        return True

    def branch(self, cond, exact=False):
        """cond: z3 Bool.  Returns the python bool taken on this path."""
        cond = z3.simplify(cond)
        if z3.is_true(cond):
            return True
        if z3.is_false(cond):
            return False
        i = len(self.decisions)
        if i < len(self.prefix):
            d = self.prefix[i]
            self.decisions.append(d)
            self.assume(cond if d else z3.Not(cond))
            return d
        if is_linear(cond):
            # forced by the linear facts alone?  (cheap, and spares the nonlinear solver a model search)
            for c, val in ((z3.Not(cond), True), (cond, False)):
                t0 = time.time()
                self.lin.push()
                self.lin.add(c)
                rl = self.lin.check()
                self.lin.pop()
                self.solver_secs += time.time() - t0
                self.n_queries += 1
                if rl == z3.unsat:
                    self.decisions.append(val)
                    self.assume(cond if val else z3.Not(cond))
                    return val
        ft = self.feasible(cond, exact)
        # if one side is refuted the other one is taken without asking whether it is satisfiable: on a feasible path
        # it must be, and exploring an infeasible path is sound for proofs (refutations need a model anyway).  This
        # avoids the expensive direction -- finding a model of a nonlinear path condition -- for guards such as
        # `denominator == 0` that are plainly excluded
        ff = self.feasible(z3.Not(cond), exact) if ft else True
        if ft and ff:
            self.alternatives.append(self.decisions + [False])
            self.decisions.append(True)
            self.assume(cond)
            return True
        if ft:
            self.decisions.append(True)      # forced, recorded so that replay does not depend on the solver
            self.assume(cond)
            return True
        if ff:
            self.decisions.append(False)
            self.assume(z3.Not(cond))
            return False
        raise PathEnd()

    def choose(self, n, why=''):
        """non-deterministic choice among n alternatives (returns index) -- used for kind forks"""
        k = 0
        while k < n - 1:
            i = len(self.decisions)
            if i < len(self.prefix):
                d = self.prefix[i]
                self.decisions.append(d)
            else:
                self.alternatives.append(self.decisions + [False])
                self.decisions.append(True)
                d = True
            if d:
                return k
            k += 1
        return n - 1

    def check(self, label, claim, detail=''):
        """proof obligation: pc => claim.  claim is python bool or z3 Bool."""
        t0 = time.time()
        if isinstance(claim, bool):
            if claim:
                self.obligations.append(Obl(label, 'trivial', 0.0, detail))
                return
            # claim is literally False on a feasible path
            status = 'refuted'
            model = self._model()
            if model is None and self.model_status == 'unsat':
                raise PathEnd()       # the path is infeasible after all: nothing to prove on it
            if model is None:
                # the solver never confirmed this path as satisfiable (feasibility `unknown` counts as feasible
                # for proofs only): no counterexample, hence not a refutation
                status = 'undecided'
                detail = (detail + ' claim is False on a path whose feasibility the solver could not decide')[:400]
            elif self.imprecise:
                status = 'undecided'
                detail = (detail + ' sat on imprecise path: ' + '; '.join(self.imprecise_why))[:400]
            o = Obl(label, status, time.time() - t0, detail, model)
            o.zmodel = getattr(self, '_zm', None)
            self.obligations.append(o)
            raise PathEnd()
        claim = z3.simplify(claim)
        if z3.is_true(claim):
            self.obligations.append(Obl(label, 'trivial', 0.0, detail))
            return
        r = z3.unknown
        from . import algebra
        if algebra.looks_polynomial(claim) and algebra.prove_identities(claim, [a for a in self.pc if not has_quantifier(a)]) is True:
            # identity of rational functions (normal form): holds wherever the denominators are non-zero, which the
            # path condition ensures (division by zero raises on another path).  See pyvc/algebra.py
            o = Obl(label, 'discharged', time.time() - t0, detail, backend='sympy (rational-function normal form)')
            self.obligations.append(o)
            self.trusted.add('sympy cancel/expand as a decision procedure for rational-function identities (pyvc/algebra.py)')
            self.assume(claim)
            return
        if any(has_quantifier(a) for a in self.pc[-60:]) or has_quantifier(claim):
            # quantified hypotheses: first try E-matching only (model-based instantiation off), it is much
            # faster on valid obligations; fall back to the default configuration otherwise
            s2 = z3.Solver()
            s2.set('timeout', max(2000, self.timeout_ms // 2))
            s2.set('smt.mbqi', False)
            s2.add(self.solver.assertions())
            s2.add(z3.Not(claim))
            t1 = time.time()
            r = s2.check()
            self.solver_secs += time.time() - t1
            self.n_queries += 1
            if r != z3.unsat:
                r = z3.unknown
        if r != z3.unsat:
            r = self._check(z3.Not(claim))
        if r == z3.unknown and ('timeout' in self.solver.reason_unknown() or 'cancel' in self.solver.reason_unknown()):
            # wall-clock budget exhausted: on a busy machine that says nothing about the query.  One more attempt with
            # three times the budget, so that verdicts do not flip with the load (never a violation either way)
            self.solver.set('timeout', self.timeout_ms * 3)
            try:
                r = self._check(z3.Not(claim))
            finally:
                self.solver.set('timeout', self.timeout_ms)
        secs = time.time() - t0
        if r == z3.unsat:
            self.obligations.append(Obl(label, 'discharged', secs, detail))
        elif r == z3.sat:
            if self.imprecise:
                self.obligations.append(Obl(label, 'undecided', secs,
                                            'sat on imprecise path: ' + '; '.join(self.imprecise_why)))
            else:
                self.solver.push()
                self.solver.add(z3.Not(claim))
                self.solver.check()
                model = self._model()
                self.solver.pop()
                o = Obl(label, 'refuted', secs, detail, model)
                o.zmodel = getattr(self, '_zm', None)
                self.obligations.append(o)
        else:
            # unknown: keep the query text so another back end can try it
            self.solver.push()
            self.solver.add(z3.Not(claim))
            smt2 = self.solver.to_smt2()
            self.solver.pop()
            o = Obl(label, 'undecided', secs, 'z3: ' + self.solver.reason_unknown())
            o.model = {'__smt2__': smt2}
            self.obligations.append(o)
        self.assume(claim)

    def _model(self):
        self.model_status = 'unknown'
        try:
            r0 = self.solver.check()
            self.model_status = str(r0)
            if r0 != z3.sat:
                return None
            m = self.solver.model()
            # prefer small counterexamples: bound the registered size terms, then loosen
            for bound in (3, 6, 12, 40):
                self.solver.push()
                for t in self.size_terms:
                    self.solver.add(t <= bound, t >= -bound)
                if bound < 40:
                    for t in self.value_terms[:400]:
                        self.solver.add(z3.Or(z3.And(t <= bound * 4, t >= -bound * 4), t == INF))
                r = self.solver.check()
                if r == z3.sat:
                    m = self.solver.model()
                    self.solver.pop()
                    break
                self.solver.pop()
        except z3.Z3Exception:
            return None
        self._zm = m
        out = {}
        for name, desc in self.symbols.items():
            try:
                out[name] = desc(m)
            except Exception as e:      # model extraction is best effort
                out[name] = 'unavailable: %s' % e
        return out

    def mark_imprecise(self, why):
        self.imprecise = True
        if why not in self.imprecise_why:
            self.imprecise_why.append(why)
