"""Builtins and library models (numpy, random, math, copy ...): assumed contracts, listed as trusted base."""
import ast
import z3
from .values import *
from . import models as Mo

__all__ = ['builtins', 'lib_lookup', 'call_type', 'b_abs']


def _num2(I, f, a, b):
    return f(a, b)


def b_abs(I, a, k):
    x = a[0]
    if Mo.is_list(x):
        return Mo.elementwise1(I, x, lambda y: b_abs(I, [y], {}))
    if isinstance(x, SV):
        if x.kind == 'real':
            return SV(z3.simplify(z3.If(x.t >= 0, x.t, -x.t)), 'real')
        t = zint(x)
        return SV(z3.simplify(z3.If(t >= 0, t, -t)), 'int')
    if numkind(x) is None:
        raise PyExc('TypeError', 'bad operand for abs')
    return abs(x)


def b_max(I, a, k, ismax=True):
    if k:
        raise Unsupported('max/min with key')
    if len(a) == 1:
        items = Mo.concrete_iter(I, a[0])
        if items is None:
            return sym_extreme(I, a[0], ismax)
        if items and Mo.is_list(items[0]):
            raise Unsupported('max of 2d')
    else:
        items = a
    if not items:
        raise PyExc('ValueError', 'max() arg is an empty sequence')
    r = items[0]
    for x in items[1:]:
        if numkind(x) is None or numkind(r) is None:
            raise Unsupported('max of non-numbers')
        if not isinstance(x, SV) and not isinstance(r, SV):
            # python: max returns the first maximal element
            r = x if ((x > r) if ismax else (x < r)) else r
            continue
        c = Mo.compare(I, ast.Gt() if ismax else ast.Lt(), x, r)
        tc = I.truth_term(c)
        if isinstance(tc, bool):
            r = x if tc else r
        else:
            r = I.ite(tc, x, r)
    return r


def sym_extreme(I, lst, ismax):
    """max/min of a list of symbolic length: fresh m with the defining property"""
    if not (isinstance(lst, Ref) and lst.kind == 'slist'):
        raise Unsupported('max of %r' % (lst,))
    c = I.st.heap[lst]
    if not I.st.branch(c['len'] > 0):
        raise PyExc('ValueError', 'max() of empty sequence')
    m = I.st.fresh('mx' if ismax else 'mn', c['ek'])
    k = z3.Int(I.st.fresh_name('k!M'))
    w = z3.Int(I.st.fresh_name('w!M'))
    sel = z3.Select(c['arr'], k)
    I.st.assume(z3.ForAll([k], z3.Implies(z3.And(k >= 0, k < c['len']), (sel <= m.t) if ismax else (sel >= m.t))))
    I.st.assume(z3.And(w >= 0, w < c['len'], z3.Select(c['arr'], w) == m.t))
    return m


def b_sum(I, a, k):
    items = Mo.concrete_iter(I, a[0])
    if items is None:
        raise Unsupported('sum over symbolic sequence (use the Sum spec function)')
    r = a[1] if len(a) > 1 else 0
    for x in items:
        r = Mo.binop(I, ast.Add(), r, x)
    return r


def b_all(I, a, k, isall=True):
    items = Mo.concrete_iter(I, a[0])
    if items is None:
        lst = a[0]
        if isinstance(lst, Ref) and lst.kind == 'slist':
            c = I.st.heap[lst]
            kk = z3.Int(I.st.fresh_name('k!A'))
            el = z3.Select(c['arr'], kk) if c['ek'] == 'bool' else z3.Select(c['arr'], kk) != 0
            rng = z3.And(kk >= 0, kk < c['len'])
            return SV(z3.ForAll([kk], z3.Implies(rng, el)) if isall else z3.Exists([kk], z3.And(rng, el)), 'bool')
        raise Unsupported('all/any over %r' % (lst,))
    r = isall
    for x in items:
        if Mo.is_list(x):
            x = b_all(I, [x], {}, isall)
        r = I.land(r, _tv(I, x)) if isall else I.lor(r, _tv(I, x))
    return r


def _tv(I, x):
    t = I.truth_term(x)
    return t if isinstance(t, bool) else SV(t, 'bool')


def b_len(I, a, k):
    return Mo.list_len(I, a[0])


def b_range(I, a, k):
    if len(a) == 1:
        return RangeV(0, a[0], 1)
    if len(a) == 2:
        return RangeV(a[0], a[1], 1)
    return RangeV(a[0], a[1], a[2])


def b_isinstance(I, a, k):
    v, t = a
    ts = t if isinstance(t, tuple) else (t,)
    return any(_isinst(I, v, x) for x in ts)


def _isinst(I, v, t):
    if isinstance(t, ClassRef):
        if isinstance(v, Ref) and v.kind in ('obj', 'clist') and v.cls is not None:
            return v.cls.is_subclass(t.info)
        return False
    if isinstance(t, Builtin) and t.name in ('numpy.ndarray',):
        return Mo.is_list(v) and v.nd
    if not isinstance(t, TypeTag):
        raise Unsupported('isinstance against %r' % (t,))
    n = t.name
    k = numkind(v)
    if n == 'bool':
        return k == 'bool'
    if n in ('int', 'Integral'):
        return k in ('int', 'bool')
    if n == 'float':
        return k == 'real'
    if n == 'str':
        return isinstance(v, (str, SStr))
    if n == 'tuple':
        return isinstance(v, tuple) or (isinstance(v, Ref) and v.kind == 'obj' and v.cls is not None and any(c.builtin_base == 'tuple' for c in v.cls.mro()))
    if n == 'list':
        return Mo.is_list(v) and not v.nd
    if n == 'ndarray':
        return Mo.is_list(v) and v.nd
    if n == 'dict':
        return isinstance(v, dict) or (isinstance(v, Ref) and v.kind == 'dict')
    if n == 'set':
        return isinstance(v, Ref) and v.kind == 'set'
    if n == 'function':
        return isinstance(v, (Closure, AbsFun))
    if n == 'Callable':
        return isinstance(v, (Closure, AbsFun, Builtin, BoundMethod, ClassRef)) or \
            (isinstance(v, Ref) and v.kind == 'obj' and v.cls is not None and v.cls.lookup('__call__') is not UNDEF)
    if n == 'object':
        return True
    if n == 'NoneType':
        return v is None
    raise Unsupported('isinstance %s' % n)


def b_vars(I, a, k):
    from .values import ClassRef
    if len(a) == 1 and isinstance(a[0], ClassRef):
        # the class's OWN namespace; used for membership tests only (a snapshot dict with concrete keys)
        return I.st.alloc('dict', dict(a[0].info.attrs))
    raise Unsupported('vars() of %r' % (a[:1],))


def b_hasattr(I, a, k):
    obj, name = a
    try:
        Mo.getattr(I, obj, name)
        return True
    except PyExc as e:
        if e.tname == 'AttributeError':
            return False
        raise


def b_getattr(I, a, k):
    obj, name = a[0], a[1]
    try:
        return Mo.getattr(I, obj, name)
    except PyExc as e:
        if e.tname == 'AttributeError' and len(a) > 2:
            return a[2]
        raise


def b_setattr(I, a, k):
    Mo.setattr(I, a[0], a[1], a[2])


def b_float(I, a, k):
    if not a:
        return 0.0
    x = a[0]
    if isinstance(x, SV):
        return SV(zreal(x), 'real')
    if isinstance(x, str):
        try:
            return float(x)
        except ValueError:
            raise PyExc('ValueError')
    if numkind(x) is None:
        if Mo.is_list(x):
            items = Mo.seq_items(I, x)
            if x.nd and items is not None and len(items) == 1:
                return b_float(I, [items[0]], {})
        raise PyExc('TypeError', 'float() argument')
    return float(x)


def b_int(I, a, k):
    if not a:
        return 0
    x = a[0]
    if isinstance(x, SV):
        if x.kind in ('int', 'bool'):
            return SV(zint(x), 'int')
        t = x.t          # truncation toward zero
        fl = z3.ToInt(t)
        return SV(z3.simplify(z3.If(t >= 0, fl, z3.If(z3.ToReal(fl) == t, fl, fl + 1))), 'int')
    if numkind(x) is None:
        if isinstance(x, str):
            try:
                return int(x)
            except ValueError:
                raise PyExc('ValueError')
        raise PyExc('TypeError', 'int() argument')
    try:
        return int(x)
    except (OverflowError, ValueError):
        raise PyExc('OverflowError')


def b_bool(I, a, k):
    if not a:
        return False
    t = I.truth_term(a[0])
    return t if isinstance(t, bool) else SV(t, 'bool')


def b_list(I, a, k):
    if not a:
        return I.st.alloc('clist', [])
    if isinstance(a[0], Mo.IterV):
        a = [a[0].seq] + list(a[1:])
    items = Mo.concrete_iter(I, a[0])
    if items is not None:
        return I.st.alloc('clist', list(items))
    if isinstance(a[0], Ref) and a[0].kind == 'slist':
        return I.st.alloc('slist', dict(I.st.heap[a[0]]))
    if isinstance(a[0], RangeV):
        n, f = Mo.symbolic_iter(I, a[0])
        kk = z3.Int(I.st.fresh_name('k!r'))
        return I.st.alloc('slist', {'len': n, 'arr': z3.Lambda([kk], zint(a[0].lo) + kk), 'ek': 'int'})
    raise Unsupported('list(%r)' % (a[0],))


def b_tuple(I, a, k):
    if not a:
        return ()
    items = Mo.concrete_iter(I, a[0])
    if items is None:
        raise Unsupported('tuple of symbolic sequence')
    return tuple(items)


def b_dict(I, a, k):
    d = {}
    if a:
        src = a[0]
        if isinstance(src, (dict,)) or (isinstance(src, Ref) and src.kind == 'dict'):
            d.update(Mo.dict_cell(I, src))
        else:
            pairs = Mo.concrete_iter(I, src)
            if pairs is None:
                raise Unsupported('dict() of a symbolic-length sequence')
            for kv in pairs:
                kk, vv = Mo.concrete_iter(I, kv)
                d[Mo.hkey(kk)] = vv
    d.update(k)
    return I.st.alloc('dict', d)


def _unsup(m):
    raise Unsupported(m)


def b_set(I, a, k):
    if not a:
        return Mo.make_set(I, [])
    items = Mo.concrete_iter(I, a[0])
    if items is None:
        raise Unsupported('set of symbolic sequence')
    return Mo.make_set(I, items)


def b_str(I, a, k):
    if not a:
        return ''
    x = a[0]
    if isinstance(x, (str, SStr)):
        return x
    if isinstance(x, (int, float, bool, type(None))):
        return str(x)
    if isinstance(x, (Ref, tuple)):
        c = Mo._concrete_py(I, x)
        if c is not UNDEF:
            return str(c)                   # a fully concrete container: CPython's own text
    r = SStr(I.st.fresh_name('str'), nonempty=True)
    if Mo.is_list(x):
        r.prefix = 'array(' if x.nd else '['          # str / repr of a list or array: unknown text with a known first character
    elif isinstance(x, tuple):
        r.prefix = '('
    return r


def b_iter(I, a, k):
    v = a[0]
    if numkind(v) is not None or v is None or isinstance(v, (Closure, AbsFun, Builtin, SOpaque)):
        raise PyExc('TypeError', 'object is not iterable')
    if isinstance(v, Mo.IterV):
        return v                # an iterator is its own iterator
    return Mo.IterV(v)          # a sequence gives a new iterator object:  x is iter(x)  is False


class CycleV:
    def __init__(self, items):
        self.items = items
        self.pos = 0


def it_cycle(I, a, k):
    items = Mo.concrete_iter(I, a[0])
    if items is None:
        raise Unsupported('itertools.cycle over a symbolic sequence')
    return CycleV(list(items))


def np_allclose(I, a, k):
    """numpy.allclose(a, b, rtol, atol): all(|a - b| <= atol + rtol * |b|), scalars broadcast (finite values)"""
    x, y = a[0], a[1]
    rtol = k.get('rtol', a[2] if len(a) > 2 else 1e-05)
    atol = k.get('atol', a[3] if len(a) > 3 else 1e-08)
    xs = Mo.concrete_iter(I, x) if (Mo.is_list(x) or isinstance(x, tuple)) else None
    ys = Mo.concrete_iter(I, y) if (Mo.is_list(y) or isinstance(y, tuple)) else None
    if (Mo.is_list(x) and xs is None) or (Mo.is_list(y) and ys is None):
        raise Unsupported('allclose over a symbolic-length sequence')
    if xs is None and ys is None:
        pairs = [(x, y)]
    elif xs is None:
        pairs = [(x, v) for v in ys]
    elif ys is None:
        pairs = [(v, y) for v in xs]
    else:
        if len(xs) != len(ys):
            raise PyExc('ValueError', 'operands could not be broadcast together')
        pairs = list(zip(xs, ys))
    r = True
    for u, v in pairs:
        d = b_abs(I, [Mo.binop(I, ast.Sub(), u, v)], {})
        bound = Mo.binop(I, ast.Add(), atol, Mo.binop(I, ast.Mult(), rtol, b_abs(I, [v], {})))
        r = I.land(r, Mo.compare(I, ast.LtE(), d, bound))
    return r


def it_chain(I, a, k):
    out = []
    for s_ in a:
        items = Mo.concrete_iter(I, s_)
        if items is None:
            raise Unsupported('itertools.chain over a symbolic-length sequence')
        out.extend(items)
    return Mo.IterV(I.st.alloc('clist', out)) if hasattr(Mo, 'IterV') else I.st.alloc('clist', out)


def np_prod(I, a, k):
    items = Mo.concrete_iter(I, a[0])
    if items is None or k:
        raise Unsupported('numpy.prod of a symbolic-length sequence')
    r = 1
    for x in items:
        if Mo.is_list(x):
            raise Unsupported('numpy.prod of a nested sequence')
        r = Mo.binop(I, ast.Mult(), r, x)
    return r


def b_next(I, a, k):
    c = a[0]
    if isinstance(c, CycleV):
        if not c.items:
            raise PyExc('StopIteration')
        v = c.items[c.pos % len(c.items)]
        c.pos += 1
        return v
    raise Unsupported('next(%r)' % (c,))


def _draw(I, name, kind):
    """one value from the global random generators: a fresh symbol (or a fresh function of the comprehension index)"""
    st = I.st
    st.ghost['rand_draws'] = st.ghost.get('rand_draws', 0) + 1
    idx = getattr(I, 'comp_index', None)
    nm = st.fresh_name(name)
    if idx is not None:
        f = z3.Function(nm, z3.IntSort(), z3.RealSort() if kind == 'real' else z3.IntSort())
        return SV(f(idx), kind)
    return SV(z3.Real(nm) if kind == 'real' else z3.Int(nm), kind)


def rnd_random(I, a, k):
    v = _draw(I, 'rnd_random', 'real')
    I.st.assume(z3.And(v.t >= 0, v.t < 1))
    return v


def _clock(name):
    """time.time / perf_counter / process_time: an abstract clock -- each reading is an arbitrary real not smaller than the
    previous reading of the same clock (monotone; nothing else is assumed).  Readings are logged in ghost state."""
    def f(I, a, k):
        log = I.st.ghost.setdefault('clock:' + name, [])
        v = _draw(I, 'clock_' + name.replace('.', '_'), 'real')
        if log:
            I.st.assume(v.t >= log[-1].t)
        log.append(v)
        I.st.assumptions.add('%s is an abstract monotone clock' % name)
        return v
    return f


def np_random_rand(I, a, k):
    """numpy.random.rand(d0[, d1]): an array of that shape of arbitrary reals in [0, 1) (no distributional claim)"""
    dims = list(a)
    if not dims:
        return rnd_random(I, [], {})
    if not all(isinstance(d, int) and not isinstance(d, bool) and d >= 0 for d in dims) or len(dims) > 2:
        raise Unsupported('numpy.random.rand with a symbolic or >2-d shape')
    if len(dims) == 1:
        return I.st.alloc('clist', [rnd_random(I, [], {}) for _ in range(dims[0])], nd=True)
    return I.st.alloc('clist', [I.st.alloc('clist', [rnd_random(I, [], {}) for _ in range(dims[1])], nd=True) for _ in range(dims[0])], nd=True)


def rnd_randint(I, a, k):
    v = _draw(I, 'rnd_randint', 'int')
    I.st.assume(z3.And(v.t >= zint(a[0]), v.t <= zint(a[1])))
    return v


def rnd_uniform(I, a, k):
    if Mo.is_list(a[0]) or Mo.is_list(a[1]):
        # python's random.uniform(a, b) is  a + (b - a) * random():  with array arguments one draw scales every
        # component
        u = rnd_random(I, [], {})
        return Mo.binop(I, ast.Add(), a[0], Mo.binop(I, ast.Mult(), Mo.binop(I, ast.Sub(), a[1], a[0]), u))
    v = _draw(I, 'rnd_uniform', 'real')
    lo, hi = zreal(a[0]), zreal(a[1])
    I.st.assume(z3.And(v.t >= z3.If(lo <= hi, lo, hi), v.t <= z3.If(lo <= hi, hi, lo)))
    return v


def rnd_randrange(I, a, k):
    v = _draw(I, 'rnd_randrange', 'int')
    lo, hi = (0, a[0]) if len(a) == 1 else (a[0], a[1])
    I.st.assume(z3.And(v.t >= zint(lo), v.t < zint(hi)))
    return v


def rnd_sample(I, a, k):
    """random.sample(pop, k): k members of pop at pairwise distinct positions"""
    pop, kk = a[0], a[1]
    if not isinstance(kk, int):
        raise Unsupported('random.sample with symbolic k')
    ln, arr, ek = Mo.to_slist(I, pop)
    if not I.st.branch(ln >= kk):
        raise PyExc('ValueError', 'Sample larger than population or is negative')
    out, pos = [], []
    for j in range(kk):
        p = _draw(I, 'rnd_sample_pos', 'int')
        I.st.assume(z3.And(p.t >= 0, p.t < ln))
        for q in pos:
            I.st.assume(p.t != q.t)
        pos.append(p)
        out.append(SV(z3.simplify(z3.Select(arr, p.t)), ek))
    I.st.ghost.setdefault('rand_sample', []).append(tuple(out))
    return I.st.alloc('clist', out)


def f_reduce(I, a, k):
    items = Mo.concrete_iter(I, a[1])
    if items is None:
        raise Unsupported('functools.reduce over a symbolic sequence')
    if len(a) > 2:
        acc = a[2]
    else:
        if not items:
            raise PyExc('TypeError', 'reduce() of empty sequence')
        acc, items = items[0], items[1:]
    for x in items:
        acc = I.call(a[0], [acc, x], {})
    return acc


def b_enumerate(I, a, k):
    return Mo._Enum(a[0], a[1] if len(a) > 1 else k.get('start', 0))


def b_zip(I, a, k):
    return Mo._Zip(a)


def b_reversed(I, a, k):
    items = Mo.concrete_iter(I, a[0])
    if items is None:
        raise Unsupported('reversed symbolic')
    return tuple(reversed(items))


def b_map(I, a, k):
    """map(f, seq, ...): evaluated EAGERLY over concrete-length sequences (same values in the same order as the lazy
    iterator whenever nothing observes the interleaving -- the policy already used for generators)"""
    f, seqs = a[0], [Mo.concrete_iter(I, s_) for s_ in a[1:]]
    if not seqs or any(s_ is None for s_ in seqs) or k:
        raise Unsupported('map over a symbolic-length sequence')
    I.st.assumptions.add('map() evaluated eagerly (no side effect observable between its items)')
    return Mo.IterV(tuple(I.call(f, list(args), {}) for args in zip(*seqs)))


def b_open(I, a, k):
    """open(name, mode): an opaque file object; what is written to it is the business of whoever is handed the object
    (dill.dump is an assumed contract); every open / close is logged in the ghost state"""
    mode = a[1] if len(a) > 1 else k.get('mode', 'r')
    f = I.st.alloc('obj', {'name': a[0], 'mode': mode, 'closed': False}, name='file')
    I.st.ghost.setdefault('files', []).append(('open', a[0], mode, f))

    def close(I_, aa, kk):
        I_.st.heap[f]['closed'] = True
        I_.st.ghost.setdefault('files', []).append(('close', a[0], mode, f))
        return None
    I.st.heap[f]['close'] = Builtin('file.close', close)
    return f


def b_compile(I, a, k):
    """compile(source, name, 'exec') of a CONCRETE source text: the text itself (executed by b_exec through the same
    front end as every other piece of code)"""
    if not isinstance(a[0], str) or (len(a) > 2 and a[2] != 'exec'):
        raise Unsupported('compile of a symbolic text / other than exec mode')
    return a[0]


def b_exec(I, a, k):
    """exec(text, namespace-dict) for a concrete text: parsed and executed by this interpreter; names are read from and
    written to the given dict"""
    from .interp import Env
    code, g = a[0], (a[1] if len(a) > 1 else None)
    if not isinstance(code, str) or not (isinstance(g, Ref) and g.kind == 'dict') or len(a) > 2:
        raise Unsupported('exec of a symbolic text / without an explicit namespace dict')
    cell = I.st.heap[g]
    env = Env(dict(cell), None, None)
    I.exec_block(ast.parse(code.strip()).body, env)
    I.st.note_write(g)
    cell.update(env.vars)
    return None


def imp_import_module(I, a, k):
    from . import modules as _M
    name = a[0]
    if not isinstance(name, str) or len(a) > 1 or k:
        raise Unsupported('import_module of a symbolic / relative name')
    m = _M.load_module(name)
    if m is None:
        return ModRef(name)
    return ('repo', m)


def b_sorted(I, a, k):
    items = Mo.concrete_iter(I, a[0])
    key = k.get('key')
    if items is not None and key is None and any(isinstance(x, SV) for x in items) and all(numkind(x) is not None for x in items) \
            and not (set(k) - {'reverse'}) and not isinstance(k.get('reverse', False), SV) and len(items) <= 6:
        # a few symbolic numbers: the ascending rearrangement, written as a compare-exchange network of min / max terms
        # (model of the builtin: the sorted multiset; stability is invisible on numbers)
        v = list(items)
        n = len(v)
        for rnd in range(n):
            for i in range(rnd % 2, n - 1, 2):
                c = I.truth_term(Mo.compare(I, ast.LtE(), v[i], v[i + 1]))
                if not isinstance(c, bool):
                    # an order the path condition already fixes (e.g. an input assumed ascending) needs no min / max term
                    if not I.st.feasible(z3.Not(c)):
                        c = True
                    elif not I.st.feasible(c):
                        c = False
                if isinstance(c, bool):
                    lo, hi = (v[i], v[i + 1]) if c else (v[i + 1], v[i])
                else:
                    lo, hi = I.ite(c, v[i], v[i + 1]), I.ite(c, v[i + 1], v[i])
                v[i], v[i + 1] = lo, hi
        if k.get('reverse', False):
            v.reverse()
        return I.st.alloc('clist', v)
    if items is None or any(isinstance(x, SV) for x in items) or (set(k) - {'key', 'reverse'}) or isinstance(k.get('reverse', False), SV):
        raise Unsupported('sorted')
    if key is not None:
        ks = [I.call(key, [x], {}) for x in items]
        if any(isinstance(x, SV) or numkind(x) is None for x in ks):
            raise Unsupported('sorted with a symbolic key')
        order = sorted(range(len(items)), key=lambda i: ks[i], reverse=bool(k.get('reverse', False)))
        return I.st.alloc('clist', [items[i] for i in order])
    return I.st.alloc('clist', sorted(items, reverse=bool(k.get('reverse', False))))


def round_half_even(I, x, decimals=0):
    """numpy.round / python round on the REAL number: nearest multiple of 10**-decimals, ties to the even multiple
    (floats are reals here: the value numpy returns differs from this by rounding error of the scaling only)"""
    if not isinstance(decimals, int) or isinstance(decimals, bool):
        raise Unsupported('round with symbolic digits')
    scale = 10 ** abs(decimals)
    if isinstance(x, SV):
        t = zreal(x)
        u = t * scale if decimals >= 0 else t / scale
        f = z3.ToInt(u)
        frac = u - z3.ToReal(f)
        r = z3.If(frac < z3.RealVal('1/2'), f, z3.If(frac > z3.RealVal('1/2'), f + 1, z3.If(f % 2 == 0, f, f + 1)))
        rr = z3.ToReal(r)
        return SV(rr / scale if decimals >= 0 else rr * scale, 'real')
    if numkind(x) is None:
        raise PyExc('TypeError', 'round of a non-number')
    from fractions import Fraction
    import math
    u = Fraction(x) * scale if decimals >= 0 else Fraction(x) / scale
    f = math.floor(u)
    frac = u - f
    r = f if frac < Fraction(1, 2) else f + 1 if frac > Fraction(1, 2) else (f if f % 2 == 0 else f + 1)
    v = Fraction(r) / scale if decimals >= 0 else Fraction(r) * scale
    return float(v)


def np_round(I, a, k):
    x = a[0]
    d = k.get('decimals', a[1] if len(a) > 1 else 0)
    if d is None:
        d = 0
    if Mo.is_list(x) or isinstance(x, tuple):
        items = Mo.concrete_iter(I, x)
        if items is None:
            raise Unsupported('numpy.round of a symbolic-length array')
        if any(Mo.is_list(y) for y in items):
            raise Unsupported('numpy.round of a 2-d array')
        return I.st.alloc('clist', [round_half_even(I, y, d) for y in items], nd=True)
    return round_half_even(I, x, d)


def op_itemgetter(I, a, k):
    idx = list(a)

    def get(I_, b, k_):
        vals = [I_.getitem(b[0], i) for i in idx]
        return vals[0] if len(vals) == 1 else tuple(vals)
    return Builtin('operator.itemgetter(...)', get)


def _accumulate(ismax):
    def f(I, a, k):
        items = Mo.concrete_iter(I, a[0])
        if items is None or k or any(Mo.is_list(x) for x in items):
            raise Unsupported('maximum/minimum.accumulate over a symbolic-length or 2-d sequence')
        out, cur = [], None
        for x in items:
            cur = x if cur is None else b_max(I, [cur, x], {}, ismax)
            out.append(cur)
        r = I.st.alloc('clist', out, nd=True)
        return _as_dtype(I, r, None)
    return f


def np_choose(I, a, k):
    """numpy.choose(sel, choices) with a selector of concrete length: out[i] = choices[sel[i]][i] (scalar choices
    broadcast); a boolean selector counts as 0 / 1; a symbolic selector entry gives an if-then-else chain"""
    sel = Mo.concrete_iter(I, a[0])
    choices = Mo.concrete_iter(I, a[1])
    if sel is None or choices is None or not choices or k:
        raise Unsupported('numpy.choose (concrete length only)')
    cols = []
    for c in choices:
        ci = Mo.concrete_iter(I, c) if (Mo.is_list(c) or isinstance(c, tuple)) else [c] * len(sel)
        if ci is None or len(ci) != len(sel):
            raise Unsupported('numpy.choose with mismatching shapes')
        cols.append(ci)
    out = []
    for i, m in enumerate(sel):
        if isinstance(m, SV):
            if m.kind == 'bool':
                if len(cols) != 2:
                    raise Unsupported('numpy.choose: boolean selector with other than two choices')
                out.append(I.ite(zbool(m), cols[1][i], cols[0][i]))
                continue
            if not I.st.branch(z3.And(zint(m) >= 0, zint(m) < len(cols))):
                raise PyExc('ValueError', 'invalid entry in choice array')
            out.append(_sel([c[i] for c in cols], zint(m)))
        else:
            j = int(m)
            if not 0 <= j < len(cols):
                raise PyExc('ValueError', 'invalid entry in choice array')
            out.append(cols[j][i])
    r = I.st.alloc('clist', out, nd=True)
    return _as_dtype(I, r, None)


def _size_of(k, a, pos):
    size = k.get('size', a[pos] if len(a) > pos else None)
    if size is None:
        return None
    if isinstance(size, int) and not isinstance(size, bool):
        return (size,)
    if isinstance(size, tuple) and len(size) == 1 and isinstance(size[0], int):
        return size
    raise Unsupported('random draw of shape %r' % (size,))


def np_random_uniform(I, a, k):
    """numpy.random.uniform(low, high, size): arbitrary reals in [low, high) (one per entry; no distributional claim)"""
    lo = a[0] if a else k.get('low', 0.0)
    hi = a[1] if len(a) > 1 else k.get('high', 1.0)
    size = _size_of(k, a, 2)
    if numkind(lo) is None or numkind(hi) is None:
        raise Unsupported('numpy.random.uniform with array limits')

    def one():
        v = _draw(I, 'np_uniform', 'real')
        l_, h_ = zreal(lo), zreal(hi)
        I.st.assume(z3.And(v.t >= l_, z3.Or(v.t < h_, z3.And(l_ == h_, v.t == l_))))
        return v
    if size is None:
        return one()
    return I.st.alloc('clist', [one() for _ in range(size[0])], nd=True)


def np_random_choice(I, a, k):
    """numpy.random.choice(n, size): arbitrary integers in [0, n)"""
    n = a[0]
    size = _size_of(k, a, 1)
    if numkind(n) not in ('int',) or set(k) - {'size'}:
        raise Unsupported('numpy.random.choice of a sequence / with options')

    def one():
        v = _draw(I, 'np_choice', 'int')
        I.st.assume(z3.And(v.t >= 0, v.t < zint(n)))
        return v
    if size is None:
        return one()
    return I.st.alloc('clist', [one() for _ in range(size[0])], nd=True)


def b_pow(I, a, k):
    return Mo.power(I, a[0], a[1])


def b_isint(I, a, k):
    """contract vocabulary: the number is a whole number"""
    x = a[0]
    if isinstance(x, SV):
        if x.kind in ('int', 'bool'):
            return True
        return SV(z3.ToReal(z3.ToInt(x.t)) == x.t, 'bool')
    if numkind(x) is None:
        raise PyExc('TypeError', 'isint of a non-number')
    return float(x) == int(x)


def b_round(I, a, k):
    if len(a) > 1 and a[1] is not None:
        return round_half_even(I, a[0], a[1])
    r = round_half_even(I, a[0], 0)
    # python's round(x) returns an int
    return SV(z3.ToInt(r.t), 'int') if isinstance(r, SV) else int(r)


def b_callable(I, a, k):
    return _isinst(I, a[0], TypeTag('Callable'))


def b_id(I, a, k):
    return SOpaque('id', True)


def b_type(I, a, k):
    v = a[0]
    if isinstance(v, Ref) and v.kind == 'obj':
        return ClassRef(v.cls)
    if isinstance(v, (Closure, AbsFun)):
        return TypeTag('function')
    kk = numkind(v)
    if kk:
        return TypeTag({'real': 'float'}.get(kk, kk))
    if Mo.is_list(v):
        return TypeTag('ndarray' if v.nd else 'list')
    if isinstance(v, tuple):
        return TypeTag('tuple')
    if isinstance(v, (str, SStr)):
        return TypeTag('str')
    if v is None:
        return TypeTag('NoneType')
    if isinstance(v, slice):
        return TypeTag('slice')
    if isinstance(v, Ref) and v.kind in ('dict', 'set'):
        return TypeTag(v.kind)
    raise Unsupported('type(%r)' % (v,))


def b_super(I, a, k):
    if len(a) == 2 and isinstance(a[0], ClassRef) and isinstance(a[1], Ref) and a[1].kind in ('obj', 'clist') and a[1].cls is not None:
        return SuperV(a[0].info, a[1])
    raise Unsupported('super() without explicit (class, instance)')


def b_property(I, a, k):
    return PropertyV(a[0] if a else k.get('fget'), a[1] if len(a) > 1 else k.get('fset'))


def call_type(I, tt, a, k):
    n = tt.name
    f = {'int': b_int, 'float': b_float, 'bool': b_bool, 'list': b_list, 'tuple': b_tuple, 'dict': b_dict,
         'set': b_set, 'str': b_str, 'type': b_type}.get(n)
    if f is not None:
        return f(I, a, k)
    if n in EXC_PARENTS:
        from .interp import ExcVal
        return ExcVal(n, a[0] if a else None)
    if n == 'object':
        r = I.st.alloc('obj', {}, name='object')
        return r
    raise Unsupported('call of type %s' % n)


_TYPES = ['int', 'float', 'bool', 'list', 'tuple', 'dict', 'set', 'str', 'object', 'type'] + list(EXC_PARENTS) + ['BaseException']


def builtins(I):
    b = {}
    for t in _TYPES:
        b[t] = TypeTag(t)

    def reg(name, f):
        b[name] = Builtin(name, f)
    reg('abs', b_abs)
    reg('max', lambda I_, a, k: b_max(I_, a, k, True))
    reg('min', lambda I_, a, k: b_max(I_, a, k, False))
    reg('sum', b_sum)
    reg('all', lambda I_, a, k: b_all(I_, a, k, True))
    reg('any', lambda I_, a, k: b_all(I_, a, k, False))
    reg('len', b_len)
    reg('range', b_range)
    reg('isinstance', b_isinstance)
    reg('hasattr', b_hasattr)
    reg('vars', b_vars)
    reg('getattr', b_getattr)
    reg('setattr', b_setattr)
    reg('iter', b_iter)
    reg('next', b_next)
    reg('enumerate', b_enumerate)
    reg('zip', b_zip)
    reg('reversed', b_reversed)
    reg('map', b_map)
    reg('open', b_open)
    reg('eval', lambda I_, a, k: _unsup('eval with explicit namespaces / through an alias'))
    reg('compile', b_compile)
    reg('exec', b_exec)
    reg('sorted', b_sorted)
    reg('pow', b_pow)
    reg('round', b_round)
    reg('callable', b_callable)
    reg('id', b_id)
    reg('super', b_super)
    reg('property', b_property)
    reg('print', lambda I_, a, k: None)
    reg('repr', lambda I_, a, k: b_str(I_, a, k))
    # ---- contract vocabulary (spec functions), same names exist in the CPython helper namespace
    reg('implies', lambda I_, a, k: I_.lor(I_.lnot(a[0]), _tv(I_, a[1])))
    reg('iff', lambda I_, a, k: _iff(I_, a[0], a[1]))
    reg('truthy', lambda I_, a, k: _tv(I_, a[0]))
    reg('eq', lambda I_, a, k: Mo.compare(I_, ast.Eq(), a[0], a[1]))
    reg('gt', lambda I_, a, k: Mo.compare(I_, ast.Gt(), a[0], a[1]))
    reg('ge', lambda I_, a, k: Mo.compare(I_, ast.GtE(), a[0], a[1]))
    reg('Pow', lambda I_, a, k: _spec_pow(I_, a[0], a[1]))
    reg('Sqrt', lambda I_, a, k: Mo.power(I_, a[0], 0.5))
    reg('Log', lambda I_, a, k: SV(Mo.LOG(zreal(a[0])), 'real'))
    reg('forall', lambda I_, a, k: _quant(I_, a, True))
    reg('exists', lambda I_, a, k: _quant(I_, a, False))
    reg('is_none', lambda I_, a, k: a[0] is None)
    reg('same', lambda I_, a, k: _identical(I_, a[0], a[1]))
    reg('seq_eq', lambda I_, a, k: Mo.equal(I_, a[0], a[1]))
    reg('isinf', lambda I_, a, k: Mo.compare(I_, ast.Eq(), a[0], SV(INF, 'real')))
    reg('isint', b_isint)
    b['inf'] = SV(INF, 'real')
    b['True'] = True
    b['False'] = False
    b['None'] = None
    b['NotImplemented'] = SOpaque('NotImplemented', True)
    return b


def _identical(I, x, y):
    r = Mo.identical(I, x, y)
    return r if isinstance(r, bool) else SV(r, 'bool')


def _iff(I, x, y):
    tx, ty = I.truth_term(x), I.truth_term(y)
    if isinstance(tx, bool) and isinstance(ty, bool):
        return tx == ty
    tx = z3.BoolVal(tx) if isinstance(tx, bool) else tx
    ty = z3.BoolVal(ty) if isinstance(ty, bool) else ty
    return SV(tx == ty, 'bool')


def _spec_pow(I, h, n):
    base, nn = zreal(h), zint(n)
    Mo.pow_axioms(I, base, nn)
    return SV(Mo.POW(base, nn), 'real')


def _quant(I, a, isall):
    """forall(lo, hi, lambda i: P(i))  over lo <= i < hi"""
    lo, hi, f = a
    from .interp import Env
    if isinstance(lo, int) and isinstance(hi, int) and hi - lo <= 8:
        r = isall
        for i in range(lo, hi):
            v = _tv(I, I.call(f, [i], {}))
            r = I.land(r, v) if isall else I.lor(r, v)
        return r
    k = z3.Int(I.st.fresh_name('q'))
    rng = z3.And(k >= zint(lo), k < zint(hi))
    st = I.st
    empty = z3.simplify(zint(lo) >= zint(hi))
    if z3.is_true(empty) or (not z3.is_false(empty) and not st.feasible(z3.Not(empty))):
        return isall                   # an empty range: the body is never evaluated
    st.push(rng)
    old_branch = st.branch

    def nb(cond, exact=False):
        c = z3.simplify(cond)
        if z3.is_true(c):
            return True
        if z3.is_false(c):
            return False
        d = st.decide(c)
        if d is not None:
            return d
        raise Unsupported('quantifier body needs a case split on %s' % str(c)[:300])
    st.branch = nb
    npc = len(st.pc)
    try:
        body = I.truth_term(I.call(f, [SV(k, 'int')], {}))
    finally:
        st.branch = old_branch
        st.pop()
        # facts assumed while the body was evaluated (ranges of abstract results, spec-function axioms) were
        # added inside the pushed scope: re-assert them for every index of the range
        from .state import has_quantifier
        facts = [f for f in st.pc[npc:] if not has_quantifier(f)]   # (pairwise congruence instances are dropped)
        del st.pc[npc:]
        if facts:
            st.assume(z3.ForAll([k], z3.Implies(rng, z3.And(*facts))))
    body = z3.BoolVal(body) if isinstance(body, bool) else body
    return SV(z3.ForAll([k], z3.Implies(rng, body)) if isall else z3.Exists([k], z3.And(rng, body)), 'bool')


# ===================================================================== library table
def np_asarray(I, a, k):
    x = a[0]
    dt = Mo.dtype_name(k.get('dtype', a[1] if len(a) > 1 else None))
    if dt == 'bool':
        raise Unsupported('asarray(dtype=bool)')
    if Mo.is_list(x):
        if x.nd and I_is_asarray(k) and (dt is None or Mo.nd_dtype(I, x) == dt):
            return x
        r = Mo.snapshot_copy(I, x)
        _mark_nd(I, r)
        return _as_dtype(I, r, dt)
    if isinstance(x, tuple):
        r = I.st.alloc('clist', [np_asarray(I, [y], {}) if isinstance(y, tuple) or Mo.is_list(y) else y for y in x], nd=True)
        return _as_dtype(I, r, dt)
    if numkind(x) is not None:
        r = Mo.cast_scalar(I, x, dt)            # 0-d array: the scalar, marked so that .shape / .ndim / .size exist
        from .values import SV0d, F0d, I0d
        if isinstance(r, SV):
            return SV0d(r.t, r.kind)
        if isinstance(r, bool):
            return r
        if isinstance(r, float):
            return F0d(r)
        if isinstance(r, int):
            return I0d(r)
        return r
    raise Unsupported('asarray(%r)' % (x,))


def _as_dtype(I, r, dt):
    """the array in the requested element type; without a request numpy's inference: all-int stays int, a mixture of
    ints and floats becomes float"""
    if dt is None:
        if Mo.nd_has_none(I, r):
            return r                    # object array: nothing is cast, None stays None
        dt = Mo.nd_dtype(I, r)
        if dt == 'bool':
            return r
    c = Mo.cast_value(I, r, dt)
    if c is not r:
        c.nd = True
        Mo._deep_nd(I, c)
    return c


def I_is_asarray(k):
    return k.get('__asarray__', False)


def _mark_nd(I, r):
    r.nd = True
    if r.kind == 'clist':
        cell = I.st.heap[r]
        for j, x in enumerate(cell):
            if Mo.is_list(x):
                c = Mo.snapshot_copy(I, x)
                _mark_nd(I, c)
                cell[j] = c
            elif isinstance(x, tuple):
                cell[j] = np_asarray(I, [x], {})


def np_array(I, a, k):
    return np_asarray(I, a, {})


def np_asarray_(I, a, k):
    k2 = dict(k)
    k2['__asarray__'] = True
    return np_asarray(I, a, k2)


def np_any(I, a, k, isall=False):
    x = a[0]
    if Mo.is_list(x):
        return b_all(I, [x], {}, isall)
    return _tv(I, x)


def nd_nested(I, x):
    """python nested lists (of scalar values) for an array / nested list / tuple whose shape is concrete; None when a
    length is symbolic.  A scalar is returned as it is."""
    if isinstance(x, tuple):
        out = [nd_nested(I, y) for y in x]
        return None if any(o is None for o in out) else out
    if Mo.is_list(x):
        if x.kind != 'clist':
            return None
        out = [nd_nested(I, y) for y in I.st.heap[x]]
        return None if any(o is None for o in out) else out
    if x is None:
        return None
    return x


def nd_shape(n):
    """shape of the nested lists of nd_nested (ragged nestings are an error of the caller: Unsupported)"""
    if not isinstance(n, list):
        return ()
    if not n:
        return (0,)
    subs = [nd_shape(y) for y in n]
    if any(s_ != subs[0] for s_ in subs):
        raise Unsupported('ragged array')
    return (len(n),) + subs[0]


def nd_build(I, n):
    if not isinstance(n, list):
        return n
    return I.st.alloc('clist', [nd_build(I, y) for y in n], nd=True)


def nd_flat(n):
    if not isinstance(n, list):
        return [n]
    out = []
    for y in n:
        out.extend(nd_flat(y))
    return out


def nd_reshape(flat, shape):
    """row-major nested lists of the given shape (one entry may be -1)"""
    shape = list(shape)
    if any((not isinstance(d, int)) or isinstance(d, bool) for d in shape):
        raise Unsupported('reshape to a symbolic shape')
    known = 1
    for d in shape:
        if d != -1:
            known *= d
    if shape.count(-1) > 1:
        raise PyExc('ValueError', 'can only specify one unknown dimension')
    if -1 in shape:
        if known == 0 or len(flat) % known:
            raise PyExc('ValueError', 'cannot reshape array')
        shape[shape.index(-1)] = len(flat) // known
    total = 1
    for d in shape:
        total *= d
    if total != len(flat):
        raise PyExc('ValueError', 'cannot reshape array of size %d into shape %r' % (len(flat), tuple(shape)))

    def build(vals, dims):
        if not dims:
            return vals[0]
        step = len(vals) // dims[0] if dims[0] else 0
        return [build(vals[i * step:(i + 1) * step], dims[1:]) for i in range(dims[0])]
    return build(list(flat), shape)


def nd_axis_reduce(I, x, axis, f, what):
    """reduce a concrete-shaped 1-d / 2-d array with f(list of scalars) along `axis` (None: over all entries)"""
    n = nd_nested(I, x)
    if n is None:
        raise Unsupported('%s of an array of symbolic shape' % what)
    shp = nd_shape(n)
    if axis is None or len(shp) <= 1:
        if axis not in (None, 0, -1):
            raise PyExc('AxisError', 'axis out of bounds')
        return f(nd_flat(n))
    if not isinstance(axis, int) or isinstance(axis, bool) or not -len(shp) <= axis < len(shp):
        raise PyExc('AxisError', 'axis out of bounds')

    def red(sub, ax):
        if ax == 0:
            def leaves(parts):
                if isinstance(parts[0], list):
                    return [leaves([p_[j] for p_ in parts]) for j in range(len(parts[0]))]
                return f(list(parts))
            if not sub:
                raise Unsupported('%s along an empty axis' % what)
            return leaves(sub)
        return [red(y, ax - 1) for y in sub]
    return nd_build(I, red(n, axis % len(shp)))


def _axis_of(a, k):
    return a[1] if len(a) > 1 else k.get('axis')


def np_max(I, a, k, ismax=True):
    x = a[0]
    if set(k) - {'axis'} or len(a) > 2:
        raise Unsupported('numpy max/min with options %r' % sorted(k))
    axis = _axis_of(a, k)
    if Mo.is_list(x) and x.kind == 'clist':
        items = I.st.heap[x]
        if items and Mo.is_list(items[0]):
            return nd_axis_reduce(I, x, axis, lambda vals: b_max(I, [tuple(vals)], {}, ismax), 'max/min')
    return b_max(I, [x], {}, ismax)


def np_argext(I, a, k, ismin=True):
    """argmin / argmax of a concrete-shaped array (optionally along an axis): the index of the FIRST extremal entry; every
    comparison it depends on is decided (one path per outcome), so the index is concrete on each path"""
    if set(k) - {'axis'} or len(a) > 2:
        raise Unsupported('argmin/argmax with options')

    def f(vals):
        if not vals:
            raise PyExc('ValueError', 'attempt to get argmin of an empty sequence')
        best = 0
        for j in range(1, len(vals)):
            c = Mo.compare(I, ast.Lt() if ismin else ast.Gt(), vals[j], vals[best])
            t = I.truth_term(c)
            if t if isinstance(t, bool) else I.st.branch(t):
                best = j
        return best
    return nd_axis_reduce(I, a[0], _axis_of(a, k), f, 'argmin/argmax')


def np_intersect1d(I, a, k):
    """sorted unique values present in both (concrete integers only: index sets)"""
    xs = Mo.concrete_iter(I, a[0])
    ys = Mo.concrete_iter(I, a[1])
    ok = lambda v: isinstance(v, int) and not isinstance(v, bool)       # noqa: E731
    if xs is None or ys is None or k or len(a) > 2 or not all(ok(v) for v in xs + ys):
        raise Unsupported('numpy.intersect1d of symbolic values')
    return I.st.alloc('clist', sorted(set(xs) & set(ys)), nd=True)


def np_shape(I, a, k):
    x = a[0]
    if numkind(x) is not None:
        return ()
    if isinstance(x, tuple):
        x = I.st.alloc('clist', list(x))
    if Mo.is_list(x):
        n = nd_nested(I, x)
        if n is not None:
            return nd_shape(n)
        return (Mo.list_len(I, x),)
    raise Unsupported('numpy.shape of %r' % (x,))


class BroadcastV:
    """numpy.broadcast(...): only its .shape is modelled"""
    def __init__(self, shape):
        self.shape = shape


def np_broadcast(I, a, k):
    shapes = [np_shape(I, [x], {}) for x in a]
    if any(len(s_) > 1 or (s_ and not isinstance(s_[0], int)) for s_ in shapes):
        raise Unsupported('numpy.broadcast of >1-d / symbolic-length operands')
    lens = set(s_[0] for s_ in shapes if s_) - {1}
    if len(lens) > 1:
        raise PyExc('ValueError', 'shape mismatch: objects cannot be broadcast to a single shape')
    if not any(shapes):
        return BroadcastV(())
    return BroadcastV((lens.pop() if lens else 1,))


def np_atleast_1d(I, a, k):
    out = []
    for x in a:
        if numkind(x) is not None:
            out.append(I.st.alloc('clist', [x], nd=True))
        elif Mo.is_list(x) or isinstance(x, tuple):
            out.append(np_asarray(I, [x], {'__asarray__': True}))
        else:
            raise Unsupported('atleast_1d of %r' % (x,))
    return out[0] if len(out) == 1 else tuple(out)


def np_empty(I, a, k):
    """numpy.empty(shape): an array of that shape holding ARBITRARY reals"""
    shp = a[0] if a else k.get('shape')
    shp = (shp,) if isinstance(shp, int) and not isinstance(shp, bool) else shp
    if not isinstance(shp, tuple) or len(shp) > 2 or not all(isinstance(d, int) and not isinstance(d, bool) and d >= 0 for d in shp):
        raise Unsupported('numpy.empty of shape %r' % (shp,))
    fresh = lambda: I.st.fresh('empty', 'real')        # noqa: E731
    if len(shp) == 0:
        return fresh()
    if len(shp) == 1:
        return I.st.alloc('clist', [fresh() for _ in range(shp[0])], nd=True)
    return I.st.alloc('clist', [I.st.alloc('clist', [fresh() for _ in range(shp[1])], nd=True) for _ in range(shp[0])], nd=True)


def np_sort(I, a, k):
    """numpy.sort(a): a sorted COPY (1-d; a few symbolic numbers go through the compare-exchange network of sorted())"""
    x = a[0]
    if k or len(a) > 1:
        raise Unsupported('numpy.sort with options')
    if Mo.is_list(x) and x.kind == 'clist' and any(Mo.is_list(y) for y in I.st.heap[x]):
        rows = I.st.heap[x]                 # 2-d: numpy sorts along the LAST axis, i.e. every row on its own
        if any(not Mo.is_list(y) or any(Mo.is_list(z) for z in (Mo.seq_items(I, y) or [None])) for y in rows):
            raise Unsupported('numpy.sort of an array of more than two dimensions / ragged')
        out = I.st.alloc('clist', [np_sort(I, [y], {}) for y in rows], nd=True)
        return out
    r = b_sorted(I, [x], {})
    r.nd = True
    return _as_dtype(I, r, None)


def np_mean(I, a, k):
    x = a[0]
    if isinstance(x, Mo.MaskedSel):
        x = Mo.resolve_masked(I, x) or _unsup('mean of a boolean-mask selection of symbolic shape')
    if k or len(a) > 1:
        raise Unsupported('numpy.mean with options')
    n = nd_nested(I, x) if (Mo.is_list(x) or isinstance(x, tuple)) else x
    if n is None:
        raise Unsupported('numpy.mean of an array of symbolic shape')
    flat = nd_flat(n)
    if not flat:
        raise Unsupported('numpy.mean of an empty array (nan)')
    return Mo.binop(I, ast.Div(), Mo.cast_scalar(I, b_sum(I, [tuple(flat)], {}), 'float'), len(flat))


def np_vstack(I, a, k):
    rows = Mo.concrete_iter(I, a[0])
    if rows is None or k or len(a) > 1:
        raise Unsupported('numpy.vstack of a symbolic sequence')
    out = []
    for r_ in rows:
        n = nd_nested(I, r_) if (Mo.is_list(r_) or isinstance(r_, tuple)) else None
        if n is None:
            raise Unsupported('numpy.vstack of rows of symbolic length')
        shp = nd_shape(n)
        if len(shp) == 1:
            out.append(n)
        elif len(shp) == 2:
            out.extend(n)
        else:
            raise Unsupported('numpy.vstack of %d-d operands' % len(shp))
    nd_shape(out)
    return _as_dtype(I, nd_build(I, out), None)


def np_ptp(I, a, k):
    x = a[0]
    if set(k) - {'axis'} or len(a) > 2:
        raise Unsupported('numpy.ptp with options')

    def f(vals):
        if not vals:
            raise PyExc('ValueError', 'zero-size array to reduction operation')
        return Mo.binop(I, ast.Sub(), b_max(I, [tuple(vals)], {}, True), b_max(I, [tuple(vals)], {}, False))
    return nd_axis_reduce(I, x, _axis_of(a, k), f, 'ptp')


def np_sum(I, a, k):
    x = a[0]
    if set(k) - {'axis', 'dtype'} or len(a) > 2:
        raise Unsupported('numpy.sum with options %r' % sorted(k))
    axis = _axis_of(a, k)
    dt = Mo.dtype_name(k.get('dtype'))

    def count(vals):
        # a COUNT of boolean entries along an axis: each symbolic one is decided (one path per truth value), so the
        # counts are concrete (they are used as positions by cumsum / split)
        if vals and all(numkind(v) == 'bool' for v in vals) and any(isinstance(v, SV) for v in vals):
            n = 0
            for v in vals:
                t = I.truth_term(v)
                n += 1 if (t if isinstance(t, bool) else I.st.branch(t)) else 0
            return n
        return b_sum(I, [tuple(vals)], {})
    r = None
    if Mo.is_list(x) and x.kind == 'clist':
        items = I.st.heap[x]
        if items and Mo.is_list(items[0]):
            r = nd_axis_reduce(I, x, axis, count if axis is not None else (lambda vals: b_sum(I, [tuple(vals)], {})), 'sum')
    if r is None:
        if axis not in (None, 0, -1):
            raise PyExc('AxisError', 'axis out of bounds')
        r = b_sum(I, [x], {})
    return Mo.cast_value(I, r, dt) if dt is not None else r


def np_cumsum(I, a, k):
    items = Mo.seq_items(I, a[0]) if Mo.is_list(a[0]) or isinstance(a[0], tuple) else None
    if items is None or k or len(a) > 1 or any(Mo.is_list(v) for v in items):
        raise Unsupported('numpy.cumsum of a symbolic-length / nested sequence')
    out, acc = [], 0
    for v in items:
        acc = Mo.binop(I, ast.Add(), acc, v)
        out.append(acc)
    return I.st.alloc('clist', out, nd=True)


def np_split(I, a, k):
    """numpy.split(ary, indices): the pieces ary[0:i0], ary[i0:i1], ..., ary[ik:] along the first axis"""
    items = Mo.seq_items(I, a[0]) if Mo.is_list(a[0]) else None
    cuts = Mo.seq_items(I, a[1]) if Mo.is_list(a[1]) or isinstance(a[1], tuple) else None
    if items is None or cuts is None or k or len(a) > 2 or any(not isinstance(c, int) or isinstance(c, bool) for c in cuts):
        raise Unsupported('numpy.split at symbolic positions / into equal sections')
    out, lo = [], 0
    for c in list(cuts) + [None]:
        out.append(I.st.alloc('clist', items[lo:c], nd=True))
        lo = c
    return I.st.alloc('clist', out)


def np_where(I, a, k):
    """numpy.where(cond) for a concrete-shaped boolean array: the tuple of index arrays of the true entries.  A symbolic
    entry is DECIDED (one path per truth value), so the result is concrete on each path."""
    if len(a) != 1 or k:
        raise Unsupported('numpy.where(cond, x, y)')
    n = nd_nested(I, a[0])
    if n is None:
        raise Unsupported('numpy.where of an array of symbolic shape')
    shp = nd_shape(n)
    if len(shp) == 0:
        n, shp = [n], (1,)
    if len(shp) > 2:
        raise Unsupported('numpy.where of a %d-d array' % len(shp))
    idx = [[] for _ in shp]

    def truth(v):
        t = I.truth_term(v)
        return t if isinstance(t, bool) else I.st.branch(t)
    if len(shp) == 1:
        for i, v in enumerate(n):
            if truth(v):
                idx[0].append(i)
    else:
        for i, row in enumerate(n):
            for j, v in enumerate(row):
                if truth(v):
                    idx[0].append(i)
                    idx[1].append(j)
    return tuple(I.st.alloc('clist', list(ix), nd=True) for ix in idx)


def np_ravel(I, a, k):
    x = a[0]
    if Mo.is_list(x) and x.kind == 'clist':
        items = I.st.heap[x]
        if items and Mo.is_list(items[0]):
            flat = []
            for r in items:
                if r.kind != 'clist':
                    raise Unsupported('ravel of symbolic rows')
                flat.extend(I.st.heap[r])
            return I.st.alloc('clist', flat, nd=True)
        return Mo.snapshot_copy(I, x)
    if Mo.is_list(x):
        return x
    raise Unsupported('ravel')


def np_flatten(I, a, k):
    x = a[0]
    if Mo.is_list(x):
        items = Mo.seq_items(I, x)
        if items is not None and any(Mo.is_list(r) for r in items):
            raise Unsupported('flatten of a 2-d array')
        return Mo.snapshot_copy(I, x)       # ndarray.flatten of a 1-d array: a copy
    raise Unsupported('flatten')


def np_squeeze(I, a, k):
    x = a[0]
    if numkind(x) is not None:
        return x
    items = Mo.seq_items(I, x) if Mo.is_list(x) else None
    if items is not None and len(items) == 1 and numkind(items[0]) is not None:
        return items[0]
    if items is not None and all(numkind(v) is not None for v in items):
        return x                       # 1-d array with other than one entry: unchanged (a view of the same data)
    if Mo.is_list(x) and x.kind == 'slist':
        c = I.st.heap[x]
        if I.st.branch(c['len'] == 1):
            return SV(z3.Select(c['arr'], 0), c['ek'])
        return x
    raise Unsupported('squeeze of %r' % (x,))


def np_eye(I, a, k):
    n = a[0]
    if isinstance(n, int):
        rows = [I.st.alloc('clist', [1.0 if i == j else 0.0 for j in range(n)], nd=True) for i in range(n)]
        return I.st.alloc('clist', rows, nd=True)
    i_, j_ = z3.Int(I.st.fresh_name('eye_i')), z3.Int(I.st.fresh_name('eye_j'))
    rows = z3.Lambda([i_], z3.Lambda([j_], z3.If(i_ == j_, z3.RealVal(1), z3.RealVal(0))))
    I.st.trusted.add('numpy.eye(N): the N x N identity matrix')
    return I.st.alloc('rows', {'len': zint(n), 'rows': rows, 'ncols': zint(n)}, name='eye', nd=True)


def np_equal(I, a, k):
    x, y = a[0], a[1]
    if numkind(x) is not None and numkind(y) is not None:
        r = Mo.compare(I, ast.Eq(), x, y)
        return r
    for u, v in ((x, y), (y, x)):
        if Mo.is_list(v) and Mo.seq_items(I, v) == [] and numkind(u) is not None:
            return I.st.alloc('clist', [], nd=True)        # broadcasting a scalar against an empty array: empty
    if Mo.is_list(x) or Mo.is_list(y):
        return Mo.elementwise2(I, x, y, lambda p, q: Mo.compare(I, ast.Eq(), p, q))
    raise Unsupported('numpy.equal(%r, %r)' % (x, y))


def np_clip(I, a, k):
    x = a[0]
    if numkind(x) is not None:
        lo = a[1] if len(a) > 1 else k.get('a_min', k.get('min'))
        hi = a[2] if len(a) > 2 else k.get('a_max', k.get('max'))
        r = x
        if lo is not None:
            r = I.ite(zreal(r) >= zreal(lo), r, lo) if isinstance(r, SV) or isinstance(lo, SV) else max(r, lo)
        if hi is not None:
            r = I.ite(zreal(r) <= zreal(hi), r, hi) if isinstance(r, SV) or isinstance(hi, SV) else min(r, hi)
        return r
    if not Mo.is_list(x):
        raise Unsupported('numpy.clip of %r' % (x,))
    arr = np_asarray_(I, [x], {})
    m = Mo.container_method(I, arr, 'clip')
    return I.call(m, list(a[1:]), k)


def _np_filled(value):
    def f(I, a, k):
        shape = a[0]
        dims = list(shape) if isinstance(shape, tuple) else [shape]
        if not all(isinstance(d, int) and not isinstance(d, bool) and d >= 0 for d in dims) or not 1 <= len(dims) <= 2:
            raise Unsupported('numpy.zeros/ones with a symbolic or >2-d shape')
        dt = Mo.dtype_name(k.get('dtype', a[1] if len(a) > 1 else None))
        val = value
        if dt == 'int':
            val = int(value)
        elif dt == 'bool':
            val = bool(value)
        if len(dims) == 1:
            return I.st.alloc('clist', [val] * dims[0], nd=True)
        return I.st.alloc('clist', [I.st.alloc('clist', [val] * dims[1], nd=True) for _ in range(dims[0])], nd=True)
    return f


def np_add_reduce(I, a, k):
    x = a[0]
    if Mo.is_list(x) and x.kind == 'clist':
        items = I.st.heap[x]
        if items and Mo.is_list(items[0]):
            # reduce along axis 0: sum of rows
            acc = items[0]
            for r in items[1:]:
                acc = Mo.binop(I, ast.Add(), acc, r)
            return acc
        return b_sum(I, [x], {})
    raise Unsupported('add.reduce of symbolic length (use Sum spec)')


def _sel(vals, p):
    """vals[p] for a symbolic int p in [0, len(vals))"""
    allint = all(numkind(v) in ('int', 'bool') for v in vals)
    ts = [zint(v) if allint else zreal(v) for v in vals]
    t = ts[-1]
    for j in range(len(ts) - 2, -1, -1):
        t = z3.If(p == j, ts[j], t)
    return SV(z3.simplify(t), 'int' if allint else 'real')


def np_argsort(I, a, k):
    """model: some permutation that sorts ascending (no promise about the order of ties: numpy's default kind
    is not stable on every platform)"""
    items = Mo.seq_items(I, a[0])
    if items is None or any(numkind(v) is None for v in items):
        raise Unsupported('argsort of a sequence of symbolic length')
    n = len(items)
    st = I.st
    ps = [st.fresh('argsort', 'int') for _ in range(n)]
    for p in ps:
        st.assume(z3.And(p.t >= 0, p.t < n))
    if n > 1:
        st.assume(z3.Distinct(*[p.t for p in ps]))
    for i in range(n - 1):
        st.assume(zreal(_sel(items, ps[i].t)) <= zreal(_sel(items, ps[i + 1].t)))
    st.trusted.add('numpy.argsort: returns a permutation that sorts ascending')
    return st.alloc('clist', ps, nd=True)


def np_take(I, a, k):
    x, ind = a[0], a[1]
    axis = a[2] if len(a) > 2 else k.get('axis')
    items = Mo.seq_items(I, x)
    idx = Mo.seq_items(I, ind)
    if items is None or idx is None or axis not in (0, None):
        raise Unsupported('numpy.take on symbolic shapes')
    st = I.st
    out = []
    rows = [Mo.seq_items(I, r) if Mo.is_list(r) else None for r in items]
    for p in idx:
        if isinstance(p, int):
            v = items[p]
            out.append(Mo.snapshot_copy(I, v) if Mo.is_list(v) else v)
            continue
        if all(r is not None for r in rows) and rows:
            m = len(rows[0])
            out.append(st.alloc('clist', [_sel([r[c] for r in rows], zint(p)) for c in range(m)], nd=True))
        elif all(r is None for r in rows):
            out.append(_sel(items, zint(p)))
        else:
            raise Unsupported('numpy.take of mixed rows')
    st.trusted.add('numpy.take(a, ind, 0): [a[i] for i in ind]')
    return st.alloc('clist', out, nd=True)


def np_transpose(I, x):
    items = I.st.heap[x]
    if x.kind == 'clist' and items and Mo.is_list(items[0]):
        rows = [Mo.seq_items(I, r) for r in items]
        if any(r is None for r in rows):
            raise Unsupported('transpose with symbolic rows')
        return I.st.alloc('clist', [I.st.alloc('clist', list(col), nd=True) for col in zip(*rows)], nd=True)
    return x


def np_triu_indices(I, a, k):
    n = a[0]
    m = k.get('m', a[2] if len(a) > 2 else None)
    kk = k.get('k', a[1] if len(a) > 1 else 0)
    if not all(isinstance(v, int) and not isinstance(v, bool) for v in (n, kk)) or m is not None:
        raise Unsupported('triu_indices of a symbolic size')
    rows = [i for i in range(n) for j in range(n) if j - i >= kk]
    cols = [j for i in range(n) for j in range(n) if j - i >= kk]
    return (I.st.alloc('clist', rows, nd=True), I.st.alloc('clist', cols, nd=True))


def np_subtract_outer(I, a, k):
    x, y = Mo.seq_items(I, a[0]), Mo.seq_items(I, a[1])
    if x is None or y is None or any(Mo.is_list(v) for v in x + y):
        raise Unsupported('subtract.outer of symbolic-length / nested operands')
    return nd_build(I, [[Mo.binop(I, ast.Sub(), u, v) for v in y] for u in x])


def dill_getimport(I, a, k):
    x = a[0]
    if isinstance(x, tuple) or (Mo.is_list(x) and not x.nd and x.cls is None):
        I.st.trusted.add('dill.source.getimport(list / tuple instance): text without an import statement')
        return ''
    raise Unsupported('dill.source.getimport of %r' % (x,))


def np_seterr(I, a, k):
    return I.st.alloc('dict', {'invalid': 'warn', 'divide': 'warn', 'over': 'warn', 'under': 'ignore'})


def np_isinf(I, a, k):
    x = a[0]
    if Mo.is_list(x):
        return Mo.elementwise1(I, x, lambda y: np_isinf(I, [y], {}))
    t = zreal(x)
    return SV(z3.Or(t == INF, t == -INF), 'bool')


def np_isnan(I, a, k):
    x = a[0]
    if Mo.is_list(x):
        return Mo.elementwise1(I, x, lambda y: np_isnan(I, [y], {}))
    if x is NAN:
        return True
    if numkind(x) is None:
        raise Unsupported('numpy.isnan of %r' % (x,))
    if isinstance(x, float) and x != x:
        return True
    return False                         # the reals of the model have no NaN (assumption listed in every evidence file)


def math_log(I, a, k):
    """math.log(x): ValueError for x <= 0 (one path per case), else the same uninterpreted LOG as numpy.log"""
    if len(a) != 1 or k:
        raise Unsupported('math.log with a base')
    x = a[0]
    if numkind(x) is None:
        raise PyExc('TypeError', 'must be real number')
    t = zreal(x)
    if not I.st.branch(t > 0):
        raise PyExc('ValueError', 'math domain error')
    I.st.trusted.add('math.log: uninterpreted LOG (no axioms) on positive arguments, ValueError otherwise')
    return SV(LOGf(t), 'real')


def np_log(I, a, k):
    x = a[0]
    t = zreal(x)
    I.st.trusted.add('numpy.log: uninterpreted LOG (no axioms)')
    return SV(LOGf(t), 'real')


def LOGf(t):
    return Mo.LOG(t)


def _copy_value(I, v, deep, memo):
    """copy.copy / copy.deepcopy: structural copy with fresh references; internal sharing preserved (memo);
    numbers, strings, None, functions and classes are returned as they are (immutable / atomic for copy)"""
    if not isinstance(v, Ref):
        if isinstance(v, tuple) and deep:
            return tuple(_copy_value(I, x, deep, memo) for x in v)
        return v
    if v in memo:
        return memo[v]
    st = I.st
    if v.kind == 'obj' and v.cls is not None:
        hook = v.cls.lookup('__deepcopy__' if deep else '__copy__')
        if hook is not UNDEF:
            r = I.call(hook, [v] + ([st.alloc('dict', {})] if deep else []), {})
            memo[v] = r
            return r
    cell = st.heap[v]
    if v.kind == 'clist':
        r = st.alloc('clist', [], name=v.name, nd=v.nd)
        memo[v] = r
        st.heap[r] = [(_copy_value(I, x, deep, memo) if deep else x) for x in cell]
    elif v.kind in ('slist', 'rows'):
        r = st.alloc(v.kind, dict(cell), name=v.name, nd=v.nd)
        memo[v] = r
    elif v.kind == 'set':
        r = st.alloc('set', list(cell), name=v.name)
        memo[v] = r
    elif v.kind == 'dict':
        r = st.alloc('dict', {}, name=v.name)
        memo[v] = r
        st.heap[r] = {k: (_copy_value(I, x, deep, memo) if deep else x) for k, x in cell.items()}
    elif v.kind == 'obj':
        r = st.alloc('obj', {}, name=v.name)
        r.cls = v.cls
        memo[v] = r
        st.heap[r] = {k: (_copy_value(I, x, deep, memo) if deep else x) for k, x in cell.items()}
    else:
        raise Unsupported('copy of %r' % (v,))
    return r


def copy_copy(I, a, k):
    return _copy_value(I, a[0], False, {})


def copy_deepcopy(I, a, k):
    return _copy_value(I, a[0], True, {})


_LIB = {}


def lib_lookup(I, dotted):
    if dotted in _LIB:
        return _LIB[dotted]
    tbl = {
        'numpy.inf': SV(INF, 'real'), 'numpy.Inf': SV(INF, 'real'),
        'numpy.absolute': Builtin('numpy.absolute', b_abs), 'numpy.abs': Builtin('numpy.abs', b_abs),
        'numpy.array': Builtin('numpy.array', np_array), 'numpy.asarray': Builtin('numpy.asarray', np_asarray_),
        'numpy.asfarray': Builtin('numpy.asfarray', np_asarray_),
        'numpy.any': Builtin('numpy.any', lambda I_, a, k: np_any(I_, a, k, False)),
        'numpy.all': Builtin('numpy.all', lambda I_, a, k: np_any(I_, a, k, True)),
        'numpy.max': Builtin('numpy.max', lambda I_, a, k: np_max(I_, a, k, True)),
        'numpy.min': Builtin('numpy.min', lambda I_, a, k: np_max(I_, a, k, False)),
        'numpy.ravel': Builtin('numpy.ravel', np_ravel),
        'numpy.flatten': Builtin('numpy.flatten', np_flatten),
        'numpy.squeeze': Builtin('numpy.squeeze', np_squeeze),
        'numpy.zeros': Builtin('numpy.zeros', _np_filled(0.0)), 'numpy.ones': Builtin('numpy.ones', _np_filled(1.0)),
        'numpy.clip': Builtin('numpy.clip', np_clip),
        'numpy.round': Builtin('numpy.round', np_round), 'numpy.around': Builtin('numpy.round', np_round),
        'numpy.choose': Builtin('numpy.choose', np_choose),
        'numpy.maximum': ModRef('numpy.maximum'), 'numpy.minimum': ModRef('numpy.minimum'),
        'numpy.maximum.accumulate': Builtin('numpy.maximum.accumulate', _accumulate(True)),
        'numpy.minimum.accumulate': Builtin('numpy.minimum.accumulate', _accumulate(False)),
        'operator.itemgetter': Builtin('operator.itemgetter', op_itemgetter),
        'numpy.equal': Builtin('numpy.equal', np_equal),
        'numpy.eye': Builtin('numpy.eye', np_eye),
        'numpy.argsort': Builtin('numpy.argsort', np_argsort),
        'numpy.take': Builtin('numpy.take', np_take),
        'numpy.seterr': Builtin('numpy.seterr', np_seterr),
        'numpy.isinf': Builtin('numpy.isinf', np_isinf),
        'numpy.isnan': Builtin('numpy.isnan', np_isnan),
        'numpy.log': Builtin('numpy.log', np_log),
        'math.log': Builtin('math.log', math_log),
        'numpy.ndarray': Builtin('numpy.ndarray', lambda I_, a, k: _unsup('ndarray()')),
        'numpy.sum': Builtin('numpy.sum', np_sum),
        'numpy.ptp': Builtin('numpy.ptp', np_ptp),
        'numpy.sort': Builtin('numpy.sort', np_sort),
        'numpy.mean': Builtin('numpy.mean', np_mean),
        'numpy.vstack': Builtin('numpy.vstack', np_vstack),
        'numpy.shape': Builtin('numpy.shape', np_shape),
        'numpy.broadcast': Builtin('numpy.broadcast', np_broadcast),
        'numpy.atleast_1d': Builtin('numpy.atleast_1d', np_atleast_1d),
        'numpy.empty': Builtin('numpy.empty', np_empty),
        'numpy.intersect1d': Builtin('numpy.intersect1d', np_intersect1d),
        'numpy.argmin': Builtin('numpy.argmin', lambda I_, a, k: np_argext(I_, a, k, True)),
        'numpy.argmax': Builtin('numpy.argmax', lambda I_, a, k: np_argext(I_, a, k, False)),
        'numpy.cumsum': Builtin('numpy.cumsum', np_cumsum),
        'numpy.split': Builtin('numpy.split', np_split),
        'numpy.triu_indices': Builtin('numpy.triu_indices', np_triu_indices),
        'numpy.subtract': ModRef('numpy.subtract'),
        'numpy.subtract.outer': Builtin('numpy.subtract.outer', np_subtract_outer),
        'numpy.where': Builtin('numpy.where', np_where),
        'numpy.add': ModRef('numpy.add'),
        'numpy.add.reduce': Builtin('numpy.add.reduce', np_add_reduce),
        'numpy.float64': TypeTag('float'),
        'functools.reduce': Builtin('functools.reduce', f_reduce),
        'itertools.cycle': Builtin('itertools.cycle', it_cycle),
        'itertools.chain': Builtin('itertools.chain', it_chain),
        'numpy.allclose': Builtin('numpy.allclose', np_allclose),
        'numpy.prod': Builtin('numpy.prod', np_prod), 'numpy.product': Builtin('numpy.prod', np_prod),
        'time.time': Builtin('time.time', _clock('time.time')), 'time.perf_counter': Builtin('time.perf_counter', _clock('time.perf_counter')),
        'time.process_time': Builtin('time.process_time', _clock('time.process_time')),
        'random.random': Builtin('random.random', rnd_random),
        'numpy.random.rand': Builtin('numpy.random.rand', np_random_rand),
        'numpy.random.random': Builtin('numpy.random.random', lambda I_, a, k: np_random_rand(I_, list(a[0]) if a and isinstance(a[0], tuple) else list(a), {})),
        'random.sample': Builtin('random.sample', rnd_sample),
        'numpy.random.uniform': Builtin('numpy.random.uniform', np_random_uniform),
        'numpy.random.choice': Builtin('numpy.random.choice', np_random_choice),
        'random.randint': Builtin('random.randint', rnd_randint),
        'random.uniform': Builtin('random.uniform', rnd_uniform),
        'random.randrange': Builtin('random.randrange', rnd_randrange),
        'math.sqrt': Builtin('math.sqrt', lambda I_, a, k: Mo.power(I_, a[0], 0.5)),
        'numpy.sqrt': Builtin('numpy.sqrt', lambda I_, a, k: Mo.power(I_, a[0], 0.5) if not Mo.is_list(a[0]) else _unsup('numpy.sqrt of an array')),
        'numpy.nan': Mo.Unknown('numpy.nan'),
        'copy.copy': Builtin('copy.copy', copy_copy), 'copy.deepcopy': Builtin('copy.deepcopy', copy_deepcopy),
        'dill.copy': Builtin('dill.copy (assumed: structural copy with fresh references, as copy.deepcopy)', copy_deepcopy),
        'numbers.Integral': TypeTag('Integral'),
        'importlib.import_module': Builtin('importlib.import_module', imp_import_module),
        'dill.source': ModRef('dill.source'),
        'dill.source.getimport': Builtin('dill.source.getimport (assumed: no import statement is needed for an instance of a builtin sequence type)', dill_getimport),
        'collections.abc.Callable': TypeTag('Callable'),
        'collections.Callable': TypeTag('Callable'),
        'builtins.abs': Builtin('abs', b_abs),
    }
    if dotted in tbl:
        _LIB[dotted] = tbl[dotted]
        return tbl[dotted]
    if dotted.split('.')[0] in ('numpy', 'math', 'random', 'copy', 'itertools', 'collections', 'warnings', 'dill',
                                'os', 'sys', 'time', 'importlib', 'scipy', 'sympy', 'klepto', 'tempfile', 'signal',
                                'functools', 'operator', 'inspect', 'types', 'numbers'):
        return Mo.Unknown(dotted)
    raise Unsupported('no model for %s' % dotted)
