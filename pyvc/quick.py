"""developer entry: python -m pyvc.quick contracts.termination [id-substring]"""
import sys, importlib, time
sys.path.insert(0, '/verif')
from pyvc.contract import REGISTRY
from pyvc.harness import explore

if __name__ == '__main__':
    importlib.import_module(sys.argv[1])
    flt = sys.argv[2] if len(sys.argv) > 2 else ''
    for c in REGISTRY:
        if flt not in c.id:
            continue
        res = explore(c.id, c.harness, dict(c.loops), dict(c.summaries))
        print('== %s paths=%d secs=%.2f solver=%.2f queries=%d' % (c.id, res.paths, res.secs, res.solver_secs, res.queries))
        for l, d in res.obligations.items():
            print('   %-10s %-60s paths=%d %.2fs %s' % (d['status'], l, d['paths'], d['secs'], d['detail'][:200] if d['status'] != 'discharged' else ''))
        print('   covers', res.covers)
        for e in res.errors: print('   ERR', e)
        for r in res.refutations[:3]: print('   REFUTED', r[0], r[1])
