"""Symbolic value domain of pyvc.

Concrete Python objects (None, bool, int, float, str, tuple of values, dict with
concrete keys) are used as they are.  Everything else is one of the classes below.
"""
import z3

INF = z3.Real('INF')          # numpy.inf / float('inf'): an unconstrained real constant (see DESIGN 2.2)
NAN_TAG = 'nan'


class Unsupported(Exception):
    """construct outside the modelled subset -> obligation undecided, never a violation"""


class PathEnd(Exception):
    """the current path stops here (infeasible, or cut by a loop invariant)"""


class PyExc(Exception):
    """a Python exception raised inside the analysed code"""
    def __init__(self, tname, msg=None):
        Exception.__init__(self, tname, msg)
        self.tname = tname
        self.msg = msg


EXC_PARENTS = {
    'IndexError': 'LookupError', 'KeyError': 'LookupError', 'LookupError': 'Exception',
    'ZeroDivisionError': 'ArithmeticError', 'OverflowError': 'ArithmeticError',
    'FloatingPointError': 'ArithmeticError', 'ArithmeticError': 'Exception',
    'ValueError': 'Exception', 'TypeError': 'Exception', 'AttributeError': 'Exception',
    'NotImplementedError': 'RuntimeError', 'RuntimeError': 'Exception', 'AssertionError': 'Exception',
    'StopIteration': 'Exception', 'ImportError': 'Exception', 'NameError': 'Exception',
    'KeyboardInterrupt': 'BaseException', 'SystemExit': 'BaseException', 'Exception': 'BaseException',
    'Warning': 'Exception', 'UserWarning': 'Warning', 'RuntimeWarning': 'Warning',
    'OSError': 'Exception', 'IOError': 'Exception', 'EOFError': 'Exception',
}


def exc_isinstance(tname, handler):
    t = tname
    while t is not None:
        if t == handler:
            return True
        t = EXC_PARENTS.get(t)
    return False


class SV:
    """symbolic scalar: kind in int / real / bool"""
    __slots__ = ('t', 'kind')

    def __init__(self, t, kind):
        self.t = t
        self.kind = kind

    def __repr__(self):
        return 'SV<%s:%s>' % (self.kind, self.t)

    __hash__ = None


class SV0d(SV):
    """a scalar that came out of numpy.asarray(scalar): a 0-d array, which unlike a python number has shape ()"""
    __slots__ = ()


class F0d(float):
    """concrete 0-d float array (see SV0d); arithmetic gives plain floats"""
    __slots__ = ()


class I0d(int):
    __slots__ = ()


class SStr:
    """opaque string; only (non-)emptiness and identity are known"""
    def __init__(self, tag, nonempty=True, parts=None):
        self.tag = tag
        self.nonempty = nonempty
        self.parts = parts

    def __repr__(self):
        return 'SStr<%s>' % self.tag


class SOpaque:
    """opaque value returned by an abstract callable: only its truthiness (z3 Bool) and identity"""
    def __init__(self, tag, truthy):
        self.tag = tag
        self.truthy = truthy

    def __repr__(self):
        return 'SOpaque<%s>' % self.tag


class Ref:
    """reference to a heap cell; identity is concrete"""
    _n = 0

    def __init__(self, kind, name=None):
        self.kind = kind     # 'clist' | 'slist' | 'obj' | 'dict' | 'set' | 'cell'
        self.name = name
        self.cls = None      # for objects: ClassInfo
        self.nd = False      # numpy array flavour of a list
        self.meta = {}

    def __repr__(self):
        return 'Ref<%s:%s>' % (self.kind, self.name)


class Closure:
    def __init__(self, node, env, module, qualname, defaults=None, kwdefaults=None):
        self.node = node          # ast.FunctionDef | ast.Lambda
        self.env = env            # enclosing Env
        self.module = module      # ModuleInfo
        self.qualname = qualname
        self.defaults = defaults or []
        self.kwdefaults = kwdefaults or {}
        self.attrs = {}           # function attributes (func.iter = iter, __doc__ ...)
        self.bound_self = None

    def __repr__(self):
        return 'Closure<%s>' % self.qualname


class BoundMethod:
    def __init__(self, func, selfv):
        self.func = func
        self.selfv = selfv

    def __repr__(self):
        return 'Bound<%r of %r>' % (self.func, self.selfv)


class SuperV:
    """super(cls, obj): attribute lookup continues in obj's class hierarchy after `cls`"""
    def __init__(self, cls, obj):
        self.cls = cls
        self.obj = obj


class Builtin:
    """a modelled library function: impl(interp, args, kwargs) -> value"""
    def __init__(self, name, impl):
        self.name = name
        self.impl = impl
        self.attrs = {}

    def __repr__(self):
        return 'Builtin<%s>' % self.name


class AbsFun:
    """abstract (user supplied) callable described by a contract-like effect"""
    def __init__(self, name, impl):
        self.name = name
        self.impl = impl   # impl(interp, args, kwargs) -> value
        self.attrs = {}
        self.missing_attrs = set()

    def __repr__(self):
        return 'AbsFun<%s>' % self.name


class ModRef:
    """a library module (numpy, random, ...) known only through the model table"""
    def __init__(self, name):
        self.name = name

    def __repr__(self):
        return 'Mod<%s>' % self.name


class NaNV:
    """the float NaN that numpy makes of None when a sequence is cast to a float array: not a number of the model (every
    arithmetic / comparison on it is unsupported), only recognised by numpy.isnan and replaced by masked assignment"""
    def __repr__(self):
        return 'nan'


NAN = NaNV()


class ClassRef:
    def __init__(self, info):
        self.info = info

    def __repr__(self):
        return 'Class<%s>' % self.info.name


class PropertyV:
    def __init__(self, fget, fset=None):
        self.fget = fget
        self.fset = fset


class TypeTag:
    """a builtin type object used in isinstance / calls (int, float, list, ...)"""
    def __init__(self, name):
        self.name = name

    def __repr__(self):
        return 'Type<%s>' % self.name

    def __eq__(self, other):
        return isinstance(other, TypeTag) and other.name == self.name

    def __hash__(self):
        return hash(('TypeTag', self.name))


class RangeV:
    def __init__(self, lo, hi, step=1):
        self.lo, self.hi, self.step = lo, hi, step


class Undefined:
    pass


UNDEF = Undefined()


def is_sym(v):
    return isinstance(v, SV)


def zreal(v):
    """python number or SV -> z3 Real term"""
    if isinstance(v, SV):
        if v.kind == 'real':
            return v.t
        if v.kind == 'int':
            return z3.ToReal(v.t)
        if v.kind == 'bool':
            return z3.If(v.t, z3.RealVal(1), z3.RealVal(0))
    if isinstance(v, bool):
        return z3.RealVal(1 if v else 0)
    if isinstance(v, int):
        return z3.RealVal(v)
    if isinstance(v, float):
        if v == float('inf'):
            return INF
        if v == float('-inf'):
            return -INF
        if v != v:
            raise Unsupported('nan constant')
        return z3.RealVal(repr(v)) if 'e' not in repr(v) and 'E' not in repr(v) else z3.RealVal(_frac(v))
    raise Unsupported('not a number: %r' % (v,))


def _frac(v):
    from fractions import Fraction
    f = Fraction(v)
    return '%d/%d' % (f.numerator, f.denominator)


def zint(v):
    if isinstance(v, SV):
        if v.kind == 'int':
            return v.t
        if v.kind == 'bool':
            return z3.If(v.t, z3.IntVal(1), z3.IntVal(0))
        raise Unsupported('real used as int')
    if isinstance(v, bool):
        return z3.IntVal(1 if v else 0)
    if isinstance(v, int):
        return z3.IntVal(v)
    raise Unsupported('not an int: %r' % (v,))


def zbool(v):
    if isinstance(v, SV):
        if v.kind == 'bool':
            return v.t
        if v.kind == 'int':
            return v.t != 0
        return v.t != 0
    if isinstance(v, bool):
        return z3.BoolVal(v)
    raise Unsupported('not a bool: %r' % (v,))


def numkind(v):
    if isinstance(v, SV):
        return v.kind
    if isinstance(v, bool):
        return 'bool'
    if isinstance(v, int):
        return 'int'
    if isinstance(v, float):
        return 'real'
    return None
