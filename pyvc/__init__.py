"""pyvc: verification-condition generator for a Python subset, run on the real source of /repo."""
