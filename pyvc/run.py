"""Check driver:  python -m pyvc.run <PROPERTY> --tier quick|thorough   |   --replay <file>

Exit codes: 0 nothing violated; 1 at least one VIOLATION line; 3 the checker itself failed.
"""
import sys
import os
import json
import time
import glob
import random
import argparse
import importlib
import traceback
import zlib
import multiprocessing as mp

HERE = os.path.dirname(os.path.dirname(os.path.abspath(__file__)))
sys.path.insert(0, HERE)
# where evidence/ and out/ are written: /verif itself, except for trial runs against scratch trees (seeded changes,
# mutation self-test), which must not overwrite the evidence of the unchanged tree
OUTROOT = os.environ.get('VERIF_OUTROOT') or HERE

from pyvc.contract import REGISTRY            # noqa: E402
from pyvc import harness as Hn                # noqa: E402
from pyvc import modules as M                 # noqa: E402

LEVELS = {  # property -> level reported when everything generated was discharged (default: proof)
    'C06': 'exploration', 'C07': 'exploration', 'C09': 'exploration', 'C11': 'exploration', 'C13': 'exploration',
    'C14': 'exploration', 'C16': 'exploration', 'C18': 'exploration', 'C19': 'exploration', 'C20': 'exploration',
    'C12': 'translation_validation',
}


def load_contracts():
    for f in sorted(glob.glob(os.path.join(HERE, 'contracts', '*.py'))):
        name = os.path.basename(f)[:-3]
        if name.startswith('_'):
            continue
        importlib.import_module('contracts.' + name)
    return REGISTRY


def load_known():
    p = os.path.join(HERE, 'known_findings.json')
    if not os.path.exists(p):
        return []
    with open(p) as f:
        return json.load(f).get('findings', [])


# ----------------------------------------------------------------------------- one contract job
def job(args):
    cid, tier, seed = args
    try:
        c = [x for x in REGISTRY if x.id == cid][0]
        timeout = 10000 if tier == 'quick' else 60000
        t0 = time.time()
        res = Hn.explore(c.id, c.harness, dict(c.loops), dict(c.summaries), timeout_ms=timeout,
                         max_paths=3000 if tier == 'quick' else 20000,
                         deadline=time.time() + (240 if tier == 'quick' else 1500))
        out = {'id': c.id, 'anchor': c.anchor, 'props': c.props, 'paths': res.paths, 'secs': res.secs,
               'solver_secs': res.solver_secs, 'queries': res.queries,
               'obligations': list(res.obligations.values()), 'covers': res.covers, 'errors': res.errors,
               'functions': sorted('%s::%s' % f for f in res.functions if f[0]),
               'trusted': sorted(res.trusted), 'assumptions': sorted(res.assumptions),
               'replays': res.replays, 'native': None, 'note': c.note}
        # phase 2 (DESIGN 2.6): the same harness with its size parameters fixed to small constants.  Loops unroll,
        # quantifiers expand: quantifier-free queries, so the solver returns models.  A refutation there is a
        # counterexample of the general obligation; a refutation of something the general run discharged means
        # the encoding is unsound (reported as a checker error by run_property).
        out['small'] = []
        for asg in c.small:
            rs = Hn.explore(c.id, c.harness, dict(c.loops), dict(c.summaries), timeout_ms=timeout,
                            max_paths=600 if tier == 'quick' else 4000,
                            deadline=time.time() + (60 if tier == 'quick' else 600), concretize=dict(asg))
            tag = ','.join('%s=%s' % kv for kv in sorted(asg.items()))
            out['solver_secs'] += rs.solver_secs
            for lab, o in rs.obligations.items():
                if lab.endswith('/supported') or lab.endswith('/paths'):
                    continue
                out['small'].append({'label': lab, 'sizes': tag, 'status': o['status'], 'secs': o['secs'],
                                     'detail': o['detail'], 'replays': rs.replays.get(lab, [])[:2]})
        # undecided with smt2 text: second back end (cvc5)
        for o in out['obligations']:
            if o['status'] == 'undecided' and o.get('smt2'):
                ok = all(cvc5_unsat(q, timeout // 1000) for q in o['smt2'])
                if ok:
                    o['status'] = 'discharged'
                    o['backend'] = 'cvc5'
                    o['detail'] = 'z3 unknown; cvc5 unsat'
            o.pop('smt2', None)
            o.setdefault('backend', 'z3')
        # CPython cross-check of the same contract on random concrete inputs
        if c.native:
            n = c.samples if tier == 'quick' else c.samples * 10
            rng = random.Random(seed * 7919 + zlib.crc32(c.id.encode()) % 100003)      # (str hashes differ per process)
            st = {'held': 0, 'failed': 0, 'discarded': 0, 'raised': 0, 'failures': [], 'samples': []}
            tn = time.time()
            for k in range(n):
                if time.time() - tn > (30 if tier == 'quick' else 300):
                    break
                status, fails, rec = Hn.run_native(c.harness, rng=rng)
                st[status] = st.get(status, 0) + 1
                if status in ('failed', 'raised') and len(st['failures']) < 5:
                    st['failures'].append({'failures': [list(map(str, f)) for f in fails], 'record': Hn.jsonable(rec)})
                if status == 'held' and len(st['samples']) < 2:
                    st['samples'].append(Hn.jsonable(rec.get('values', {})))
            out['native'] = st
        out['total_secs'] = time.time() - t0
        return out
    except Exception:
        return {'id': cid, 'crash': traceback.format_exc()}


def cvc5_unsat(smt2, timeout_s):
    import subprocess
    import tempfile
    try:
        with tempfile.NamedTemporaryFile('w', suffix='.smt2', dir=os.path.join(OUTROOT, 'out'), delete=False) as f:
            f.write(smt2)
            p = f.name
        r = subprocess.run(['/usr/bin/cvc5', '--tlimit=%d' % (timeout_s * 1000), p], capture_output=True, text=True,
                           timeout=timeout_s + 5)
        os.unlink(p)
        return r.stdout.strip().startswith('unsat')
    except Exception:
        return False


# ----------------------------------------------------------------------------- property check
def _glob(pat, s):
    parts = pat.split('*')
    if len(parts) == 1:
        return pat == s
    if not s.startswith(parts[0]) or not s.endswith(parts[-1]):
        return False
    pos = len(parts[0])
    for p in parts[1:-1]:
        i = s.find(p, pos)
        if i < 0:
            return False
        pos = i + len(p)
    return len(s) - len(parts[-1]) >= pos


def match_known(known, prop, label, detail=''):
    for k in known:
        if k.get('property') != prop or k.get('status') != 'known':
            continue
        for m in k.get('match', []):
            if _glob(m, label):
                return k
    return None


def run_property(prop, tier, seed, only=None):
    t0 = time.time()
    os.makedirs(os.path.join(OUTROOT, 'out', 'replay', prop), exist_ok=True)
    os.makedirs(os.path.join(OUTROOT, 'evidence'), exist_ok=True)
    load_contracts()
    known = load_known()
    cs = [c for c in REGISTRY if prop in c.props and (only is None or only in c.id)]
    violations = []
    known_hits = {}
    crashed = []
    results = []
    if cs:
        with mp.Pool(min(16, len(cs)), maxtasksperchild=1) as pool:      # a fresh worker per contract: z3 state (hence timing) independent of scheduling
            results = pool.map(job, [(c.id, tier, seed) for c in cs], chunksize=1)
    obligations = []
    functions, trusted, assumptions = set(), set(), set()
    undecided = []
    native_total = {'held': 0, 'failed': 0, 'discarded': 0, 'raised': 0}
    native_samples = []
    disagreements = []
    uncovered = []
    solver_secs = 0.0
    for r in results:
        if 'crash' in r:
            crashed.append(r)
            continue
        functions |= set(r['functions'])
        functions.add(r['anchor'])
        trusted |= set(r['trusted'])
        assumptions |= set(r['assumptions'])
        solver_secs += r['solver_secs']
        for cv, ok in r['covers'].items():
            if not ok:
                uncovered.append(r['id'] + '/' + cv)
        labels_refuted = set()
        # a postcondition proved after a loop was proved *assuming* the loop invariant: it only counts when every
        # invariant obligation (establish / preserve / decreases) of this contract is discharged
        inv_open = [o['label'] for o in r['obligations']
                    if ('/inv-' in o['label'] or '/decreases' in o['label']) and o['status'] != 'discharged']
        if inv_open:
            for o in r['obligations']:
                if o['status'] == 'discharged' and o['label'] not in inv_open and '/inv-' not in o['label']:
                    o['status'] = 'undecided'
                    o['detail'] = 'proved only under a loop invariant that is not discharged: %s' % inv_open[0][:200]
        # likewise a label is discharged only if every path through the function was analysed
        partial = [o for o in r['obligations'] if o['status'] == 'undecided' and
                   (o['label'].endswith('/supported') or o['label'].endswith('/paths'))]
        if partial:
            for o in r['obligations']:
                if o['status'] == 'discharged':
                    o['status'] = 'undecided'
                    o['detail'] = 'discharged on the analysed paths only; some paths were not analysed: %s' % partial[0]['detail'][:200]
        for o in r['obligations']:
            lab = o['label'] if o['label'].startswith(r['id']) else r['id'] + '/' + o['label']
            rec = {'obligation': lab, 'status': o['status'], 'backend': o.get('backend', 'z3'),
                   'solver_s': round(o['secs'], 3), 'paths': o['paths']}
            kf = match_known(known, prop, lab)
            if o['status'] == 'refuted':
                labels_refuted.add(o['label'])
                reps = r['replays'].get(o['label'], [])
                rec['replays'] = reps[:2]
                if kf is not None:
                    known_hits.setdefault(kf['id'], (kf, []))[1].append(lab)
                    rec['known_finding'] = kf['id']
                else:
                    violations.append({'obligation': lab, 'anchor': r['anchor'], 'detail': o['detail'],
                                       'replays': reps, 'kind': 'refuted'})
            elif o['status'] == 'undecided':
                rec['reason'] = o['detail'][:300]
                undecided.append(rec)
            if kf is not None and o['status'] != 'refuted':
                rec['known_finding'] = kf['id'] + ' (not reproduced in this run)'
            obligations.append(rec)
        # small-instance phase
        gen_status = {o['label']: o['status'] for o in r['obligations']}
        small_by = {}
        for so in r.get('small', []):
            small_by.setdefault(so['label'], []).append(so)
        for lab0, sos in small_by.items():
            lab = lab0 if lab0.startswith(r['id']) else r['id'] + '/' + lab0
            bad = [so for so in sos if so['status'] == 'refuted']
            rec = {'obligation': lab + '@small', 'status': 'refuted' if bad else
                   ('discharged' if all(so['status'] == 'discharged' for so in sos) else 'undecided'),
                   'backend': 'z3 (quantifier-free re-instantiation: %s)' % '; '.join(sorted({so['sizes'] for so in sos})),
                   'solver_s': round(sum(so['secs'] for so in sos), 3), 'paths': len(sos)}
            kf = match_known(known, prop, lab)
            if bad:
                if kf is not None:
                    known_hits.setdefault(kf['id'], (kf, []))[1].append(lab + '@small')
                    rec['known_finding'] = kf['id']
                elif gen_status.get(lab0) == 'discharged':
                    disagreements.append({'obligation': lab, 'failure': 'refuted at sizes %s although discharged in general'
                                          % bad[0]['sizes'], 'record': bad[0]['replays'][:1]})
                elif lab0 not in labels_refuted:
                    labels_refuted.add(lab0)
                    violations.append({'obligation': lab, 'anchor': r['anchor'],
                                       'detail': '%s [counterexample at sizes %s]' % (bad[0]['detail'], bad[0]['sizes']),
                                       'replays': bad[0]['replays'], 'kind': 'refuted'})
            obligations.append(rec)
        nat = r.get('native')
        if nat:
            for k in native_total:
                native_total[k] += nat.get(k, 0)
            native_samples.extend(nat['samples'][:1])
            for f in nat['failures']:
                for fl in f['failures']:
                    lab = r['id'] + '/' + fl[0]
                    kf = match_known(known, prop, lab)
                    if kf is not None:
                        known_hits.setdefault(kf['id'], (kf, []))[1].append(lab + ' (native)')
                        continue
                    sym = [o for o in r['obligations'] if o['label'] == fl[0]]
                    if sym and sym[0]['status'] == 'discharged':
                        disagreements.append({'obligation': lab, 'failure': fl, 'record': f['record']})
                    elif fl[0] not in labels_refuted:
                        violations.append({'obligation': lab, 'anchor': r['anchor'], 'detail': fl[1],
                                           'replays': [{'native_status': 'failed', 'reproduced': True,
                                                        'record': f['record'], 'native_failures': [fl]}],
                                           'kind': 'native'})
    # bounded layer of this property (rtc)
    bounded = None
    try:
        rmod = importlib.import_module('rtc.%s' % prop.lower())
    except ImportError:
        rmod = None
    if rmod is not None and only is None:
        try:
            bounded = rmod.run(tier=tier, seed=seed)
        except Exception:
            crashed.append({'id': 'rtc.%s' % prop.lower(), 'crash': traceback.format_exc()})
            bounded = None
        if bounded:
            for v in bounded.get('violations', []):
                kf = match_known(known, prop, v['key'])
                if kf is not None:
                    known_hits.setdefault(kf['id'], (kf, []))[1].append(v['key'])
                else:
                    violations.append({'obligation': v['key'], 'anchor': v.get('anchor', ''), 'detail': v.get('detail', ''),
                                       'replays': [{'native_status': 'failed', 'reproduced': True, 'record': v.get('input')}],
                                       'kind': 'bounded'})
    # ---------------- report
    exit_code = 0
    lines = []
    for kid, (kf, labs) in sorted(known_hits.items()):
        lines.append('KNOWN-FINDING: property=%s %s: %s' % (prop, kid, kf['what']))
    seen = set()
    nrep = 0
    for v in violations:
        key = v['obligation']
        if key in seen:
            continue
        seen.add(key)
        nrep += 1
        path = os.path.join(OUTROOT, 'out', 'replay', prop, '%03d.json' % nrep)
        reproduced = any(rp.get('reproduced') for rp in v['replays'])
        with open(path, 'w') as f:
            json.dump({'property': prop, 'obligation': v['obligation'], 'anchor': v['anchor'], 'kind': v['kind'],
                       'detail': v['detail'], 'reproduced_on_real_code': reproduced, 'replays': v['replays'],
                       'repo': M.REPO}, f, indent=1, default=str)
        lines.append('VIOLATION property=%s replay=%s obligation=%s%s'
                     % (prop, path, v['obligation'].replace(' ', '_'), '' if reproduced else ' no-failing-input-found'))
        exit_code = 1
    n_obl = len([o for o in obligations if 'known_finding' not in o or 'not reproduced' in o.get('known_finding', '')])
    n_dis = len([o for o in obligations if o['status'] == 'discharged' and ('known_finding' not in o or 'not reproduced' in o.get('known_finding', ''))])
    if not obligations and not bounded:
        crashed.append({'id': prop, 'crash': 'zero obligations generated and no bounded layer: nothing was checked'})
    if disagreements:
        crashed.append({'id': prop, 'crash': 'CPython cross-check disagrees with a discharged obligation (unsound encoding?): %s'
                        % json.dumps(disagreements[:3], default=str)[:2000]})
    if uncovered:
        crashed.append({'id': prop, 'crash': 'vacuity guard: cover not reachable: %s' % uncovered})
    # lock file comparison
    lock_missing = []
    lp = os.path.join(HERE, 'obligations.lock.json')
    if os.path.exists(lp) and only is None:
        with open(lp) as f:
            lock = json.load(f).get(prop, [])
        have = {o['obligation']: o['status'] for o in obligations}
        lock_missing = [l for l in lock if have.get(l) != 'discharged']
    level = LEVELS.get(prop, 'proof')
    all_discharged = n_obl > 0 and n_dis == n_obl and not lock_missing
    if level == 'proof' and not all_discharged:
        level = 'other'
    if level != 'proof' and not bounded:
        level = 'other'
    cov = {
        'obligations': n_obl, 'discharged': n_dis,
        'checker_cmd': './check %s --tier %s' % (prop, tier),
        'trusted_base': sorted(trusted) + ['z3 5.1 / cvc5 1.0.3', 'pyvc interpreter semantics (DESIGN 2.2)'],
        'functions_under_contract': sorted(functions),
        'obligation_list': obligations,
        'undecided': undecided,
        'lock_missing_or_not_discharged': lock_missing,
        'solver_s': round(solver_secs, 2),
        'known_findings': {k: v[1] for k, v in known_hits.items()},
        'cpython_crosscheck': native_total,
        'samples': (native_samples[:2] or [o['obligation'] for o in obligations[:3]]),
        'explanation': ('proof part: %d/%d obligations discharged by SMT from the AST of the real source; '
                        'undecided ones fall to the bounded layer; bounded layer (rtc) results are in `bounded`, '
                        'never counted as discharged' % (n_dis, n_obl)),
    }
    if bounded:
        cov['bounded'] = {k: v for k, v in bounded.items() if k != 'violations'}
        cov['evaluations'] = bounded.get('evaluations', 0) + sum(native_total.values())
        cov['distinct_nontrivial'] = bounded.get('distinct_nontrivial', 0)
        cov['rule'] = bounded.get('rule', '')
        if bounded.get('samples'):
            cov['samples'] = bounded['samples'][:3] + cov['samples'][:1]
        if not cov['samples']:
            crashed.append({'id': 'rtc.%s' % prop.lower(), 'crash': 'bounded layer reported no sample case (evidence needs at least one)'})
        if 'exhaustive' in bounded:
            cov['exhaustive'] = bounded['exhaustive']
        if 'programs' in bounded:
            cov['programs'] = bounded['programs']
            cov['disagreements_checked'] = bounded.get('disagreements_checked', 0)
    else:
        cov['evaluations'] = max(1, sum(native_total.values()))
        cov['distinct_nontrivial'] = max(0, native_total['held'])
        cov['rule'] = 'random concrete instantiations of the contract harness (CPython cross-check); non-trivial = preconditions satisfied'
    ev = {'property_id': prop, 'tier': tier, 'seed': seed, 'level': level, 'coverage': cov,
          'assumptions': sorted(assumptions) + GLOBAL_ASSUMPTIONS, 'wall_s': round(time.time() - t0, 2),
          'violations': len(seen)}
    if crashed:
        ev['coverage']['checker_errors'] = [c.get('crash', '')[-1500:] for c in crashed]
    # a partial run (--only: developer aid) must not replace the evidence of the full check
    evpath = os.path.join(OUTROOT, 'evidence', '%s.json' % prop) if only is None else os.path.join(OUTROOT, 'out', '%s.partial.json' % prop)
    with open(evpath, 'w') as f:
        json.dump(ev, f, indent=1, default=str)
    for l in lines:
        print(l)
    print('%s tier=%s obligations=%d discharged=%d undecided=%d violations=%d known=%d bounded_evals=%s wall=%.1fs level=%s'
          % (prop, tier, n_obl, n_dis, len(undecided), len(seen), len(known_hits),
             bounded.get('evaluations') if bounded else '-', time.time() - t0, level))
    for u in undecided[:10]:
        print('  undecided: %s -- %s' % (u['obligation'], u.get('reason', '')[:160]))
    if crashed and exit_code == 0:
        for c in crashed:
            sys.stderr.write('CHECKER ERROR in %s:\n%s\n' % (c['id'], c.get('crash', '')))
        return 3
    return exit_code


GLOBAL_ASSUMPTIONS = [
    'float arithmetic treated as real arithmetic (no rounding); numpy.inf is an unconstrained real constant',
    'library models (numpy/random/builtins) are assumed contracts, cross-checked on random inputs only',
    'partial correctness unless a decreases clause is listed',
    'user callables are deterministic functions of their numeric arguments',
]


def replay(path):
    with open(path) as f:
        rec = json.load(f)
    load_contracts()
    lab = rec['obligation']
    cands = [c for c in REGISTRY if lab.startswith(c.id)]
    print(json.dumps({k: rec[k] for k in ('property', 'obligation', 'anchor', 'kind', 'detail')}, indent=1))
    if rec['kind'] == 'bounded':
        mod = importlib.import_module('rtc.%s' % rec['property'].lower())
        ok = mod.replay(rec['replays'][0]['record'])
        print('replay:', 'REPRODUCED' if not ok else 'held')
        return 1 if not ok else 0
    if not cands:
        print('no contract matches')
        return 3
    c = max(cands, key=lambda c: len(c.id))
    bad = 0
    for rp in rec['replays']:
        r = rp.get('record') or {}
        status, fails, _ = Hn.run_native(c.harness, values=r.get('values', {}),
                                         tables={k: dict((kk, vv) for kk, vv in v) for k, v in r.get('tables', {}).items()})
        print('native replay:', status, fails)
        bad += status in ('failed', 'raised')
    return 1 if bad else 0


def main():
    ap = argparse.ArgumentParser()
    ap.add_argument('prop', nargs='?')
    ap.add_argument('--tier', default=os.environ.get('VERIF_TIER', 'quick'))
    ap.add_argument('--replay')
    ap.add_argument('--only')
    a = ap.parse_args()
    seed = int(os.environ.get('VERIF_SEED', '0') or 0)
    if a.replay:
        sys.exit(replay(a.replay))
    os.environ['VERIF_TIER'] = a.tier        # contracts may enumerate larger shapes in the thorough tier
    try:
        rc = run_property(a.prop, a.tier, seed, a.only)
    except Exception:
        traceback.print_exc()
        sys.exit(3)
    sys.exit(rc)


if __name__ == '__main__':
    main()
