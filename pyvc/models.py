"""Semantics of operators, containers, builtins and the library models (the trusted base)."""
import ast
import z3
from .values import *

# spec / library uninterpreted functions (axioms are instantiated at use)
POW = z3.Function('POW', z3.RealSort(), z3.IntSort(), z3.RealSort())
SQRT = z3.Function('SQRT', z3.RealSort(), z3.RealSort())
LOG = z3.Function('LOG', z3.RealSort(), z3.RealSort())
ROUND = z3.Function('ROUND', z3.RealSort(), z3.IntSort())


class Unknown:
    """an imported name without model; any use is Unsupported"""
    def __init__(self, name):
        self.name = name

    def __repr__(self):
        return 'Unknown<%s>' % self.name


def hkey(v):
    if isinstance(v, (str, int, float, bool, type(None), tuple)):
        return v
    if isinstance(v, (Closure, AbsFun, Builtin, Ref, SStr, BoundMethod, ClassRef, SOpaque, TypeTag)):
        return v
    raise Unsupported('dict key %r' % (v,))


def dict_cell(I, d):
    if isinstance(d, dict):
        return d
    if isinstance(d, Ref) and d.kind == 'dict':
        return I.st.heap[d]
    raise Unsupported('not a dict: %r' % (d,))


def make_set(I, items):
    out = []
    for x in items:
        k = hkey(x)
        if isinstance(k, SV):
            raise Unsupported('symbolic set member')
        if not any(_same(k, y) for y in out):
            out.append(k)
    return I.st.alloc('set', out)


def _atoms(x):
    """SStr known to be sep.join(atoms) of atomic (non-empty, separator-free) opaque tokens: (sep, [names]) or None"""
    if isinstance(x, SStr) and isinstance(x.parts, tuple) and len(x.parts) == 3 and x.parts[0] == 'atoms':
        return x.parts[1], list(x.parts[2])
    return None


def _same(a, b):
    if isinstance(a, SStr) and isinstance(b, SStr) and _atoms(a) and _atoms(b) and \
            len(_atoms(a)[1]) == 1 and len(_atoms(b)[1]) == 1:
        return _atoms(a)[1] == _atoms(b)[1]          # two atomic tokens are equal strings iff they are the same token
    for x, y in ((a, b), (b, a)):      # numpy.ndarray is modelled as a builtin constructor, type(array) as a type tag
        if isinstance(x, TypeTag) and x.name == 'ndarray' and isinstance(y, Builtin) and y.name == 'numpy.ndarray':
            return True
    if isinstance(a, ClassRef) and isinstance(b, ClassRef):
        return a.info is b.info                      # a class is one object however many references were made to it
    if isinstance(a, (Closure, AbsFun, Builtin, Ref, SStr, ClassRef, SOpaque)) or \
       isinstance(b, (Closure, AbsFun, Builtin, Ref, SStr, ClassRef, SOpaque)):
        return a is b
    if isinstance(a, BoundMethod) and isinstance(b, BoundMethod):
        return a.func is b.func and a.selfv is b.selfv
    return type(a) == type(b) and a == b or (isinstance(a, (int, float)) and isinstance(b, (int, float)) and a == b)


# ===================================================================== sequences
def is_list(v):
    return isinstance(v, Ref) and v.kind in ('clist', 'slist')


def seq_items(I, v):
    """concrete python list of element values, or None"""
    if isinstance(v, tuple):
        return list(v)
    if isinstance(v, Ref):
        if v.kind == 'clist':
            return list(I.st.heap[v])
        if v.kind == 'set':
            return list(I.st.heap[v])
        if v.kind == 'dict':
            return list(I.st.heap[v].keys())
        if v.kind == 'obj' and '__items__' in I.st.heap[v]:
            return list(I.st.heap[v]['__items__'])
    return None


def concrete_iter(I, it):
    if isinstance(it, IterV):
        it = it.seq
    if isinstance(it, MaskedSel):
        r = resolve_masked(I, it)
        if r is None:
            return None
        it = r
    items = seq_items(I, it)
    if items is not None:
        return items
    if isinstance(it, RangeV):
        if all(isinstance(x, int) for x in (it.lo, it.hi, it.step)):
            return list(range(it.lo, it.hi, it.step))
        return None
    if isinstance(it, str):
        return list(it)
    if isinstance(it, _Enum):
        sub = concrete_iter(I, it.seq)
        if sub is None:
            return None
        return [(k + it.start, x) for k, x in enumerate(sub)]
    if isinstance(it, _Zip):
        subs = [concrete_iter(I, s) for s in it.seqs]
        if any(s is None for s in subs):
            return None
        return [tuple(t) for t in zip(*subs)]
    if isinstance(it, _DictItems):
        return [(k, v) for k, v in it.cell.items()]
    if isinstance(it, _DictValues):
        return list(it.cell.values())
    if isinstance(it, Ref) and it.kind == 'slist':
        ln = z3.simplify(I.st.heap[it]['len'])
        if z3.is_int_value(ln):
            cell = I.st.heap[it]
            return [SV(z3.simplify(z3.Select(cell['arr'], k)), cell['ek']) for k in range(ln.as_long())]
        return None
    return None


def symbolic_iter(I, it):
    """(length term, item_of(index SV) -> value) for sequences of symbolic length"""
    if isinstance(it, IterV):
        it = it.seq
    if isinstance(it, RangeV):
        if it.step != 1:
            raise Unsupported('symbolic range with step')
        lo, hi = zint(it.lo), zint(it.hi)
        n = z3.If(hi > lo, hi - lo, 0)
        return z3.simplify(n), lambda i: SV(z3.simplify(lo + i.t), 'int')
    if isinstance(it, Ref) and it.kind == 'slist':
        cell = I.st.heap[it]
        snap = dict(cell)
        return cell['len'], lambda i: SV(z3.Select(snap['arr'], i.t), snap['ek'])
    if isinstance(it, Ref) and it.kind == 'rows':
        return I.st.heap[it]['len'], lambda i: getitem(I, it, i)
    if isinstance(it, _Enum):
        n, f = symbolic_iter(I, it.seq)
        return n, lambda i: (SV(z3.simplify(i.t + it.start), 'int'), f(i))
    if isinstance(it, _Zip):
        parts = [symbolic_iter(I, s) if concrete_iter(I, s) is None else None for s in it.seqs]
        raise Unsupported('zip over symbolic sequences')
    raise Unsupported('iteration over %r' % (it,))


class IterV:
    """iter(seq): a fresh iterator object over a sequence (never identical to the sequence; consumed as a whole --
    next() on it is not modelled)"""
    def __init__(self, seq):
        self.seq = seq


class _Enum:
    def __init__(self, seq, start=0):
        self.seq, self.start = seq, start


class _Zip:
    def __init__(self, seqs):
        self.seqs = seqs


class _DictItems:
    def __init__(self, cell):
        self.cell = cell


class _DictValues:
    def __init__(self, cell):
        self.cell = cell


def snapshot(I, v):
    """value snapshot for old()/entry(): lists are copied into fresh cells"""
    if isinstance(v, Ref) and v.kind == 'rows':
        return I.st.alloc('rows', dict(I.st.heap[v]), name=(v.name or 'm') + '_old', nd=v.nd)
    if isinstance(v, Ref) and v.kind == 'clist':
        r = I.st.alloc('clist', [snapshot(I, x) for x in I.st.heap[v]], name=(v.name or 'l') + '_old', nd=v.nd)
        return r
    if isinstance(v, Ref) and v.kind == 'slist':
        return I.st.alloc('slist', dict(I.st.heap[v]), name=(v.name or 'l') + '_old', nd=v.nd)
    if isinstance(v, tuple):
        return tuple(snapshot(I, x) for x in v)
    return v


def to_slist(I, v):
    """(len term, array term, ek) view of any numeric list"""
    if isinstance(v, Ref) and v.kind == 'slist':
        c = I.st.heap[v]
        return c['len'], c['arr'], c['ek']
    items = seq_items(I, v)
    if items is None:
        raise Unsupported('not a sequence: %r' % (v,))
    ek = 'int' if all(numkind(x) in ('int', 'bool') for x in items) and items else 'real'
    for x in items:
        if numkind(x) is None:
            raise Unsupported('non-numeric element in symbolic list op')
    arr = z3.K(z3.IntSort(), z3.IntVal(0) if ek == 'int' else z3.RealVal(0))
    for k, x in enumerate(items):
        arr = z3.Store(arr, k, zint(x) if ek == 'int' else zreal(x))
    return z3.IntVal(len(items)), arr, ek


def _coerce_arr(arr, ek, to):
    if ek == to:
        return arr
    k = z3.Int('k!c')
    return z3.Lambda([k], z3.ToReal(z3.Select(arr, k)))


def list_len(I, v):
    if isinstance(v, Ref) and v.kind == 'rows':
        t = z3.simplify(I.st.heap[v]['len'])
        return t.as_long() if z3.is_int_value(t) else SV(t, 'int')
    if isinstance(v, Ref):
        if v.kind == 'clist' or v.kind == 'set' or v.kind == 'dict':
            return len(I.st.heap[v])
        if v.kind == 'slist':
            t = z3.simplify(I.st.heap[v]['len'])
            return t.as_long() if z3.is_int_value(t) else SV(t, 'int')
        if v.kind == 'obj':
            if '__items__' in I.st.heap[v]:
                return len(I.st.heap[v]['__items__'])
            m = v.cls.lookup('__len__') if v.cls else UNDEF
            if m is not UNDEF:
                return I.call(m, [v], {})
    if isinstance(v, (tuple, str)):
        return len(v)
    if isinstance(v, RangeV):
        n, _ = symbolic_iter(I, v) if not all(isinstance(x, int) for x in (v.lo, v.hi)) else (None, None)
        return len(range(v.lo, v.hi, v.step)) if n is None else SV(n, 'int')
    if isinstance(v, SStr):
        raise Unsupported('len of opaque string')
    if isinstance(v, (SV, int, float)) or v is None:
        raise PyExc('TypeError', 'object has no len()')
    raise Unsupported('len of %r' % (v,))


def norm_index(I, idx, ln):
    """python index normalisation; returns z3 Int term (not range checked)"""
    i = zint(idx)
    return z3.simplify(z3.If(i < 0, i + ln, i))


def getitem(I, obj, idx):
    st = I.st
    if isinstance(obj, MaskedSel):
        r = resolve_masked(I, obj)          # the selection itself is indexed: decide the mask
        if r is None:
            raise Unsupported('subscript of a boolean-mask selection of symbolic shape')
        return getitem(I, r, idx)
    if isinstance(obj, tuple) or isinstance(obj, str):
        if isinstance(idx, slice):
            if any(isinstance(x, SV) for x in (idx.start, idx.stop, idx.step)):
                raise Unsupported('symbolic slice of tuple')
            return obj[idx]
        if isinstance(idx, SV):
            return _sym_index_concrete(I, list(obj), idx)
        try:
            return obj[idx]
        except IndexError:
            raise PyExc('IndexError')
        except TypeError:
            raise PyExc('TypeError')
    if isinstance(obj, Ref):
        if obj.kind == 'clist':
            cell = st.heap[obj]
            if isinstance(idx, slice):
                if any(isinstance(x, SV) for x in (idx.start, idx.stop, idx.step)):
                    ln, arr, ek = to_slist(I, obj)
                    return _slist_slice(I, ln, arr, ek, idx, obj.nd)
                return st.alloc('clist', cell[idx], nd=obj.nd)
            if isinstance(idx, SV):
                return _sym_index_concrete(I, cell, idx)
            if isinstance(idx, tuple) and obj.nd:
                if len(idx) == 2 and all(isinstance(q, Ref) and q.kind == 'clist' for q in idx):
                    # a[rows, cols] with two index arrays of equal length: the entries a[rows[k]][cols[k]]
                    rs, cs = st.heap[idx[0]], st.heap[idx[1]]
                    if len(rs) != len(cs):
                        raise PyExc('IndexError', 'shape mismatch: indexing arrays could not be broadcast together')
                    return st.alloc('clist', [getitem(I, getitem(I, obj, r_), c_) for r_, c_ in zip(rs, cs)], nd=True)
                if isinstance(idx[0], slice) and not any(isinstance(x, SV) for x in (idx[0].start, idx[0].stop, idx[0].step)):
                    # a[lo:hi, rest]: `rest` applied to each selected row
                    rest = idx[1] if len(idx) == 2 else idx[1:]
                    return st.alloc('clist', [getitem(I, r_, rest) for r_ in cell[idx[0]]], nd=True)
                row = getitem(I, obj, idx[0])
                return getitem(I, row, idx[1] if len(idx) == 2 else idx[1:])
            if isinstance(idx, Ref):
                return fancy_index(I, obj, idx)
            if not isinstance(idx, int):
                raise PyExc('TypeError', 'list indices must be integers')
            try:
                return cell[idx]
            except IndexError:
                raise PyExc('IndexError')
        if obj.kind == 'slist':
            cell = st.heap[obj]
            if isinstance(idx, slice):
                return _slist_slice(I, cell['len'], cell['arr'], cell['ek'], idx, obj.nd)
            if isinstance(idx, Ref) and obj.nd:
                return fancy_index(I, obj, idx)
            if isinstance(idx, tuple) and not obj.nd:
                raise PyExc('TypeError', 'list indices must be integers or slices, not tuple')
            if numkind(idx) not in ('int', 'bool'):
                raise Unsupported('index %r into symbolic list' % (idx,))
            i = norm_index(I, idx, cell['len'])
            ok = z3.And(i >= 0, i < cell['len'])
            if not st.branch(ok):
                raise PyExc('IndexError')
            if cell.get('opaque_elems') or obj.meta.get('opaque_elems'):
                raise Unsupported('element of an unmodelled list')
            return SV(z3.simplify(z3.Select(cell['arr'], i)), cell['ek'])
        if obj.kind == 'rows':
            cell = st.heap[obj]
            if isinstance(idx, tuple) and len(idx) == 2:
                return getitem(I, getitem(I, obj, idx[0]), idx[1])
            if isinstance(idx, slice) or numkind(idx) not in ('int', 'bool'):
                raise Unsupported('index %r into symbolic 2-d array' % (idx,))
            i = norm_index(I, idx, cell['len'])
            if not st.branch(z3.And(i >= 0, i < cell['len'])):
                raise PyExc('IndexError')
            r = Ref('slist', (obj.name or 'm') + '_row')
            st.stamp += 1
            r.meta['birth'] = obj.meta.get('birth', 0)
            r.meta['parent'] = (obj, i)
            r.nd = obj.nd
            return r
        if obj.kind == 'dict':
            cell = st.heap[obj]
            k = hkey(idx)
            for kk, vv in cell.items():
                if _same(kk, k):
                    return vv
            raise PyExc('KeyError', idx)
        if obj.kind == 'obj':
            cell = st.heap[obj]
            m = obj.cls.lookup('__getitem__') if obj.cls else UNDEF
            if m is not UNDEF:
                return I.call(m, [obj, idx], {})
            if '__items__' in cell:
                return getitem(I, tuple(cell['__items__']), idx)
    if isinstance(obj, dict):
        if idx in obj:
            return obj[idx]
        raise PyExc('KeyError', idx)
    if isinstance(obj, (SV, int, float)):
        raise PyExc('TypeError', 'not subscriptable')
    if isinstance(obj, RangeV) and all(isinstance(v, int) and not isinstance(v, bool) for v in (obj.lo, obj.hi, obj.step)) \
            and isinstance(idx, int) and not isinstance(idx, bool):
        try:
            return range(obj.lo, obj.hi, obj.step)[idx]
        except IndexError:
            raise PyExc('IndexError', 'range object index out of range')
    raise Unsupported('subscript of %r' % (obj,))


def _sym_index_concrete(I, items, idx):
    n = len(items)
    if n == 0:
        raise PyExc('IndexError')
    i = norm_index(I, idx, z3.IntVal(n))
    if not I.st.branch(z3.And(i >= 0, i < n)):
        raise PyExc('IndexError')
    if all(numkind(x) is not None for x in items) and n:
        res = items[-1]
        for k in range(n - 2, -1, -1):
            res = I.ite(i == k, items[k], res)
        return res
    # non numeric: fork over the positions
    for k in range(n - 1):
        if I.st.branch(i == k):
            return items[k]
    return items[n - 1]


def _slice_bounds(I, idx, ln):
    if idx.step not in (None, 1):
        raise Unsupported('slice step')

    def nb(x, default):
        if x is None:
            return default
        t = zint(x)
        t = z3.If(t < 0, t + ln, t)
        return z3.If(t < 0, 0, z3.If(t > ln, ln, t))
    lo = nb(idx.start, z3.IntVal(0))
    hi = nb(idx.stop, ln)
    return z3.simplify(lo), z3.simplify(hi)


def _slist_slice(I, ln, arr, ek, idx, nd):
    lo, hi = _slice_bounds(I, idx, ln)
    n = z3.simplify(z3.If(hi > lo, hi - lo, 0))
    k = z3.Int(I.st.fresh_name('k!s'))
    narr = z3.Lambda([k], z3.Select(arr, k + lo)) if not (z3.is_int_value(lo) and lo.as_long() == 0) else arr
    return I.st.alloc('slist', {'len': n, 'arr': narr, 'ek': ek}, nd=nd)


# ===================================================================== numpy element types (dtype)
# An ndarray's dtype is the common kind of its elements (int / float / bool): the creating models keep float arrays
# filled with real-kind values (0.0, ToReal(..)) and integer arrays with int-kind values, and every STORE into an
# ndarray casts the stored value to the array's dtype the way numpy does (float -> int truncates toward zero).
def nd_dtype(I, obj):
    """'int' | 'float' | 'bool' of an ndarray-flavoured list (an empty array counts as float)"""
    if obj.kind == 'slist':
        return {'real': 'float', 'int': 'int', 'bool': 'bool'}.get(I.st.heap[obj]['ek'], 'float')
    if obj.kind != 'clist':
        return 'float'
    kinds = set()

    def walk(o):
        for x in I.st.heap[o]:
            if is_list(x):
                if x.kind == 'clist':
                    walk(x)
                else:
                    kinds.add({'real': 'real', 'int': 'int'}.get(I.st.heap[x].get('ek'), 'real'))
            else:
                kinds.add(numkind(x))
    walk(obj)
    if not kinds or 'real' in kinds or None in kinds:
        return 'float'
    if kinds == {'bool'}:
        return 'bool'
    return 'int'


def nd_has_none(I, obj):
    """an array built from data that holds a None somewhere: numpy makes it an OBJECT array (elements kept as they are)"""
    if not (is_list(obj) and obj.kind == 'clist'):
        return False
    return any(x is None or (is_list(x) and nd_has_none(I, x)) for x in I.st.heap[obj])


def cast_scalar(I, v, dt):
    if v is None and dt == 'float':
        return NAN                      # numpy: float(None) inside asarray(.., dtype=float) is nan
    k = numkind(v)
    if k is None or dt is None:
        return v
    if dt == 'float':
        if k == 'real':
            return v
        if isinstance(v, SV):
            return SV(zreal(v), 'real')
        return float(v)
    if dt == 'int':
        if k in ('int',):
            return v
        if k == 'bool':
            return SV(zint(v), 'int') if isinstance(v, SV) else int(v)
        if isinstance(v, SV):
            t = v.t
            return SV(z3.If(t >= 0, z3.ToInt(t), -z3.ToInt(-t)), 'int')     # C cast: truncation toward zero
        if v != v or v in (float('inf'), float('-inf')):
            raise Unsupported('cast of nan/inf to an integer array')
        return int(v)
    return v


def cast_value(I, v, dt):
    """the value numpy stores when `v` is assigned into an array of dtype dt (sequences: a cast copy)"""
    if dt not in ('int', 'float'):
        return v
    if is_list(v):
        if v.kind == 'slist':
            c = I.st.heap[v]
            want = 'real' if dt == 'float' else 'int'
            if c['ek'] == want:
                return v
            if want == 'real':
                nc = dict(c)
                nc['arr'] = _coerce_arr(c['arr'], 'int', 'real')
                nc['ek'] = 'real'
                return I.st.alloc('slist', nc, nd=v.nd)
            raise Unsupported('float sequence of symbolic length stored into an integer ndarray')
        items = I.st.heap[v]
        if all((not is_list(x)) and (numkind(x) == ('real' if dt == 'float' else 'int')) for x in items):
            return v
        return I.st.alloc('clist', [cast_value(I, x, dt) for x in items], nd=v.nd)
    if isinstance(v, tuple):
        return tuple(cast_value(I, x, dt) for x in v)
    return cast_scalar(I, v, dt)


def _store_cast(I, obj, v):
    if isinstance(obj, Ref) and obj.nd and obj.kind in ('clist', 'slist') and (numkind(v) is not None or is_list(v) or isinstance(v, tuple)):
        if obj.kind == 'clist' and not I.st.heap[obj]:
            return v
        return cast_value(I, v, nd_dtype(I, obj))
    return v



def setitem(I, obj, idx, v):
    st = I.st
    v = _store_cast(I, obj, v)
    if isinstance(obj, Ref) and obj.kind in ('clist', 'slist') and obj.nd and _is_bool_mask(I, idx):
        return mask_assign(I, obj, idx, v)
    if isinstance(obj, Ref) and obj.kind == 'clist' and obj.nd and not st.heap[obj] and isinstance(idx, Ref) and idx.kind == 'clist' \
            and idx.nd and not st.heap[idx]:
        return                              # empty array, empty selection: nothing to assign
    if isinstance(obj, Ref) and obj.kind in ('clist', 'slist') and obj.nd and isinstance(idx, Ref) and idx.kind == 'clist' \
            and all(isinstance(k, int) and not isinstance(k, bool) for k in st.heap[idx]):
        # a[[i0, i1, ...]] = scalar | sequence of the same length   (numpy integer-array assignment, concrete indices):
        # all indices are validated first (the assignment is atomic), then the elements are stored in order
        ks = list(st.heap[idx])
        vals = seq_items(I, v) if is_list(v) or isinstance(v, tuple) else None
        if vals is not None and len(vals) != len(ks) and len(vals) != 1:
            raise PyExc('ValueError', 'shape mismatch')
        ln = list_len(I, obj)
        for k in ks:
            i = norm_index(I, k, zint(ln))
            if not st.branch(z3.And(i >= 0, i < zint(ln))):
                raise PyExc('IndexError', 'index out of bounds')
        for n_, k in enumerate(ks):
            setitem(I, obj, k, v if vals is None else vals[n_ if len(vals) > 1 else 0])
        return
    if isinstance(obj, Ref):
        if obj.kind == 'clist':
            cell = st.heap[obj]
            if isinstance(idx, slice):
                if idx.start is None and idx.stop is None and idx.step is None:
                    list_assign_all(I, obj, v)
                    return
                if not obj.nd and all(b is None or (isinstance(b, int) and not isinstance(b, bool)) for b in (idx.start, idx.stop, idx.step)):
                    # python list, concrete bounds: exactly python's slice assignment (may change the length)
                    items = concrete_iter(I, v)
                    if items is None:
                        raise Unsupported('slice assignment from a sequence of symbolic length')
                    st.note_write(obj)
                    try:
                        cell[idx] = list(items)
                    except ValueError:
                        raise PyExc('ValueError', 'extended slice size mismatch')
                    return
                if obj.nd and all(b is None or (isinstance(b, int) and not isinstance(b, bool)) for b in (idx.start, idx.stop, idx.step)):
                    # ndarray, concrete bounds: the addressed entries are overwritten in place (a scalar is broadcast, a
                    # sequence must have their number); the length never changes
                    pos = list(range(len(cell)))[idx]
                    vals = concrete_iter(I, v) if (is_list(v) or isinstance(v, tuple)) else None
                    if vals is not None and len(vals) != len(pos) and len(vals) != 1:
                        raise PyExc('ValueError', 'could not broadcast input array')
                    if vals is None and numkind(v) is None:
                        raise Unsupported('slice assignment of %r' % (v,))
                    for n_, p_ in enumerate(pos):
                        setitem(I, obj, p_, v if vals is None else vals[n_ if len(vals) > 1 else 0])
                    return
                raise Unsupported('slice assignment')
            if isinstance(idx, SV):
                n = len(cell)
                i = norm_index(I, idx, z3.IntVal(n))
                if not st.branch(z3.And(i >= 0, i < n)):
                    raise PyExc('IndexError')
                st.note_write(obj)
                if numkind(v) is None or not all(numkind(x) is not None for x in cell):
                    raise Unsupported('symbolic index store of non-numeric')
                st.heap[obj] = [I.ite(i == k, v, x) for k, x in enumerate(cell)]
                return
            if not isinstance(idx, int):
                raise Unsupported('list index %r' % (idx,))
            st.note_write(obj)
            try:
                if obj.nd and is_list(cell[idx]) and is_list(v):
                    list_assign_all(I, cell[idx], v)     # numpy row assignment copies
                else:
                    cell[idx] = v
            except IndexError:
                raise PyExc('IndexError')
            return
        if obj.kind == 'slist':
            cell = st.heap[obj]
            if isinstance(idx, slice):
                if idx.start is None and idx.stop is None and idx.step is None:
                    list_assign_all(I, obj, v)
                    return
                raise Unsupported('slice assignment')
            i = norm_index(I, idx, cell['len'])
            if not st.branch(z3.And(i >= 0, i < cell['len'])):
                raise PyExc('IndexError')
            st.note_write(obj)
            ek = cell['ek']
            if ek == 'int' and numkind(v) == 'real':
                if obj.nd:
                    raise Unsupported('float store into int ndarray')
                arr = _coerce_arr(cell['arr'], 'int', 'real')
                ek = 'real'
            else:
                arr = cell['arr']
            nc = dict(cell)
            nc['arr'] = z3.Store(arr, i, zint(v) if ek == 'int' else zreal(v))
            nc['ek'] = ek
            st.heap[obj] = nc
            return
        if obj.kind == 'rows':
            row = getitem(I, obj, idx)
            if not is_list(v):
                raise Unsupported('assignment of a non-sequence to a row')
            ln, arr, ek = to_slist(I, v)
            c = st.heap[obj]
            if not st.branch(ln == c['ncols']):
                raise Unsupported('row assignment changes the row length')
            st.note_write(obj)
            st.heap[row] = {'len': ln, 'arr': arr, 'ek': ek}
            return
        if obj.kind == 'dict':
            st.note_write(obj)
            cell = st.heap[obj]
            k = hkey(idx)
            for kk in list(cell.keys()):
                if _same(kk, k):
                    cell[kk] = v
                    return
            cell[k] = v
            return
        if obj.kind == 'obj':
            m = obj.cls.lookup('__setitem__') if obj.cls else UNDEF
            if m is not UNDEF:
                return I.call(m, [obj, idx, v], {})
    raise Unsupported('item assignment on %r' % (obj,))


def delitem(I, obj, idx):
    if isinstance(obj, Ref) and obj.kind == 'dict':
        cell = I.st.heap[obj]
        k = hkey(idx)
        for kk in list(cell.keys()):
            if _same(kk, k):
                I.st.note_write(obj)
                del cell[kk]
                return
        raise PyExc('KeyError')
    if isinstance(obj, Ref) and obj.kind == 'clist' and isinstance(idx, int):
        I.st.note_write(obj)
        try:
            del I.st.heap[obj][idx]
        except IndexError:
            raise PyExc('IndexError')
        return
    if isinstance(obj, Ref) and obj.kind == 'clist' and isinstance(idx, slice) and \
            all(x is None or isinstance(x, int) for x in (idx.start, idx.stop, idx.step)):
        I.st.note_write(obj)
        del I.st.heap[obj][idx]
        return
    raise Unsupported('del item')


def list_assign_all(I, target, v):
    """target[:] = v"""
    st = I.st
    st.note_write(target)
    v = _store_cast(I, target, v)
    if target.kind == 'clist':
        items = concrete_iter(I, v)
        if items is not None:
            if target.nd and len(items) != len(st.heap[target]):
                if len(items) == 1:
                    items = items * len(st.heap[target])
                else:
                    raise PyExc('ValueError', 'could not broadcast')
            if target.nd and any(is_list(x) for x in st.heap[target]):
                for row, src in zip(st.heap[target], items):
                    list_assign_all(I, row, src)
                return
            st.heap[target] = list(items)
            return
        if target.nd and numkind(v) is not None:
            st.heap[target] = [v for _ in st.heap[target]]
            return
        if isinstance(v, Ref) and v.kind == 'slist':
            if target.nd:
                n = len(st.heap[target])
                c = st.heap[v]
                if not st.branch(c['len'] == n):
                    raise PyExc('ValueError', 'could not broadcast')
                st.heap[target] = [SV(z3.Select(c['arr'], k), c['ek']) for k in range(n)]
                return
            # a python list takes the new (symbolic) length: the cell changes representation
            target.kind = 'slist'
            st.heap[target] = dict(st.heap[v])
            return
        raise Unsupported('slice assignment from %r' % (v,))
    if target.kind == 'slist':
        ln, arr, ek = to_slist(I, v) if not (numkind(v) is not None and target.nd) else (None, None, None)
        cell = st.heap[target]
        if ln is None:
            k = z3.Int(st.fresh_name('k!f'))
            nc = dict(cell)
            nc['arr'] = z3.K(z3.IntSort(), zreal(v) if cell['ek'] == 'real' else zint(v))
            st.heap[target] = nc
            return
        if target.nd:
            if not st.branch(ln == cell['len']):
                raise PyExc('ValueError', 'could not broadcast')
        nc = dict(cell)
        nc['len'] = ln
        nc['arr'] = arr
        nc['ek'] = ek
        st.heap[target] = nc
        return
    raise Unsupported('slice assignment')


def list_extend(I, target, v):
    st = I.st
    st.note_write(target)
    if isinstance(v, IterV):
        v = v.seq
    if target.kind == 'clist':
        items = concrete_iter(I, v)
        if items is not None:
            st.heap[target].extend(items)
            return
    ln1, a1, e1 = to_slist(I, target)
    ln2, a2, e2 = to_slist(I, v)
    ek = 'real' if 'real' in (e1, e2) else 'int'
    a1, a2 = _coerce_arr(a1, e1, ek), _coerce_arr(a2, e2, ek)
    k = z3.Int(st.fresh_name('k!x'))
    arr = z3.Lambda([k], z3.If(k < ln1, z3.Select(a1, k), z3.Select(a2, k - ln1)))
    target.kind = 'slist'
    st.heap[target] = {'len': z3.simplify(ln1 + ln2), 'arr': arr, 'ek': ek}


def list_concat(I, a, b):
    items_a, items_b = seq_items(I, a), seq_items(I, b)
    if items_a is not None and items_b is not None and not (isinstance(a, tuple) != isinstance(b, tuple)):
        if isinstance(a, tuple):
            return tuple(items_a + items_b)
        return I.st.alloc('clist', items_a + items_b)
    ln1, a1, e1 = to_slist(I, a)
    ln2, a2, e2 = to_slist(I, b)
    ek = 'real' if 'real' in (e1, e2) else 'int'
    a1, a2 = _coerce_arr(a1, e1, ek), _coerce_arr(a2, e2, ek)
    k = z3.Int(I.st.fresh_name('k!c'))
    arr = z3.Lambda([k], z3.If(k < ln1, z3.Select(a1, k), z3.Select(a2, k - ln1)))
    return I.st.alloc('slist', {'len': z3.simplify(ln1 + ln2), 'arr': arr, 'ek': ek})


def list_repeat(I, a, n):
    items = seq_items(I, a)
    if isinstance(n, int) and items is not None:
        return tuple(items * n) if isinstance(a, tuple) else I.st.alloc('clist', items * n)
    if items is not None and len(items) == 1 and numkind(items[0]) is not None:
        ek = 'int' if numkind(items[0]) in ('int', 'bool') else 'real'
        nn = zint(n)
        return I.st.alloc('slist', {'len': z3.simplify(z3.If(nn > 0, nn, 0)),
                                    'arr': z3.K(z3.IntSort(), zint(items[0]) if ek == 'int' else zreal(items[0])),
                                    'ek': ek})
    raise Unsupported('list repetition')


def elementwise2(I, a, b, f):
    """numpy broadcasting of a scalar function over 1-d / 2-d (clist of rows) operands"""
    la, lb = is_list(a), is_list(b)
    if la and a.kind == 'clist' or lb and b.kind == 'clist':
        ia = seq_items(I, a) if la else None
        ib = seq_items(I, b) if lb else None
        if (la and ia is None) or (lb and ib is None):
            # mixed concrete/symbolic lengths
            other = a if ia is None else b
            conc = ib if ia is None else ia
            c = I.st.heap[other]
            if not I.st.branch(c['len'] == len(conc)):
                raise PyExc('ValueError', 'operands could not be broadcast')
            sy = [SV(z3.Select(c['arr'], k), c['ek']) for k in range(len(conc))]
            ia, ib = (sy, conc) if ia is None else (conc, sy)
        if la and lb:
            # numpy broadcasting aligns trailing axes: a 2-d operand against a 1-d one works row by row
            if ia and is_list(ia[0]) and ib and not is_list(ib[0]):
                return I.st.alloc('clist', [elementwise2(I, r, b, f) for r in ia], nd=True)
            if ib and is_list(ib[0]) and ia and not is_list(ia[0]):
                return I.st.alloc('clist', [elementwise2(I, a, r, f) for r in ib], nd=True)
            if len(ia) != len(ib):
                if len(ia) == 1:
                    ia = ia * len(ib)
                elif len(ib) == 1:
                    ib = ib * len(ia)
                else:
                    raise PyExc('ValueError', 'operands could not be broadcast')
            elif ia and is_list(ia[0]) and not is_list(ib[0]):
                return I.st.alloc('clist', [elementwise2(I, r, b, f) for r in ia], nd=True)
            elif ib and is_list(ib[0]) and not is_list(ia[0]):
                return I.st.alloc('clist', [elementwise2(I, a, r, f) for r in ib], nd=True)
            return I.st.alloc('clist', [elementwise2(I, x, y, f) if is_list(x) or is_list(y) else f(x, y)
                                        for x, y in zip(ia, ib)], nd=True)
        if la:
            return I.st.alloc('clist', [elementwise2(I, x, b, f) if is_list(x) else f(x, b) for x in ia], nd=True)
        return I.st.alloc('clist', [elementwise2(I, a, y, f) if is_list(y) else f(a, y) for y in ib], nd=True)
    # symbolic length operands
    k = z3.Int(I.st.fresh_name('k!e'))
    if la:
        ca = I.st.heap[a]
        xa = SV(z3.Select(ca['arr'], k), ca['ek'])
        ln = ca['len']
    else:
        xa = a
    if lb:
        cb = I.st.heap[b]
        xb = SV(z3.Select(cb['arr'], k), cb['ek'])
        if la:
            if not I.st.branch(ca['len'] == cb['len']):
                raise Unsupported('broadcast of symbolic lengths')
        ln = cb['len']
    else:
        xb = b
    r = f(xa, xb)
    ek = 'bool' if numkind(r) == 'bool' else ('int' if numkind(r) == 'int' else 'real')
    if ek == 'bool':
        arr = z3.Lambda([k], zbool(r))
        return I.st.alloc('slist', {'len': ln, 'arr': arr, 'ek': 'bool'}, nd=True)
    arr = z3.Lambda([k], zint(r) if ek == 'int' else zreal(r))
    return I.st.alloc('slist', {'len': ln, 'arr': arr, 'ek': ek}, nd=True)


def elementwise1(I, a, f):
    if a.kind == 'clist':
        return I.st.alloc('clist', [elementwise1(I, x, f) if is_list(x) else f(x) for x in I.st.heap[a]], nd=True)
    c = I.st.heap[a]
    k = z3.Int(I.st.fresh_name('k!u'))
    r = f(SV(z3.Select(c['arr'], k), c['ek']))
    ek = 'int' if numkind(r) in ('int',) else 'real'
    if numkind(r) == 'bool':
        return I.st.alloc('slist', {'len': c['len'], 'arr': z3.Lambda([k], zbool(r)), 'ek': 'bool'}, nd=True)
    return I.st.alloc('slist', {'len': c['len'], 'arr': z3.Lambda([k], zint(r) if ek == 'int' else zreal(r)), 'ek': ek}, nd=True)


class MaskedSel:
    """a[mask] for a boolean-mask ndarray: kept lazily, only usable as the right-hand side of  b[mask] = a[mask]"""
    def __init__(self, src, mask):
        self.src, self.mask = src, mask


def _is_bool_mask(I, idx):
    if not (isinstance(idx, Ref) and idx.kind in ('clist', 'slist') and idx.nd):
        return False
    if idx.kind == 'slist':
        return I.st.heap[idx]['ek'] == 'bool'
    items = I.st.heap[idx]
    return bool(items) and all(numkind(x) == 'bool' for x in items)


def resolve_masked(I, sel):
    """the array a[mask] itself, for a concrete-shaped `a` and a 1-d mask over its first axis: every symbolic mask entry
    is DECIDED (one path per truth value), so the selection has a concrete length on each path"""
    src, mask = sel.src, sel.mask
    if not (isinstance(src, Ref) and src.kind == 'clist' and isinstance(mask, Ref) and mask.kind == 'clist'):
        return None
    items, ms = I.st.heap[src], I.st.heap[mask]
    if any(is_list(m) for m in ms):
        return None
    if len(items) != len(ms):
        raise PyExc('IndexError', 'boolean index did not match indexed array')
    out = []
    for x, m in zip(items, ms):
        t = I.truth_term(m)
        if t if isinstance(t, bool) else I.st.branch(t):
            out.append(snapshot_copy(I, x) if is_list(x) else x)
    return I.st.alloc('clist', out, nd=True)


def fancy_index(I, obj, idx):
    if _is_bool_mask(I, idx):
        return MaskedSel(obj, idx)
    if isinstance(idx, Ref) and idx.kind == 'clist' and idx.nd and isinstance(obj, Ref) and obj.kind == 'clist' and obj.nd \
            and I.st.heap[idx] and all(_is_bool_mask(I, r_) and r_.kind == 'clist' for r_ in I.st.heap[idx]):
        # a[mask2d]: the entries (sub-arrays) a[i][j] with mask2d[i][j] true, in row-major order; every symbolic mask
        # entry is decided (one path per truth value)
        rows, mrows = I.st.heap[obj], I.st.heap[idx]
        if len(rows) != len(mrows) or any(not (is_list(r_) and r_.kind == 'clist' and len(I.st.heap[r_]) == len(I.st.heap[m_]))
                                          for r_, m_ in zip(rows, mrows)):
            raise PyExc('IndexError', 'boolean index did not match indexed array')
        out = []
        for r_, m_ in zip(rows, mrows):
            for x, b_ in zip(I.st.heap[r_], I.st.heap[m_]):
                t = I.truth_term(b_)
                if t if isinstance(t, bool) else I.st.branch(t):
                    out.append(snapshot_copy(I, x) if is_list(x) else x)
        return I.st.alloc('clist', out, nd=True)
    if isinstance(idx, Ref) and idx.kind == 'clist' and isinstance(obj, Ref) and obj.kind == 'clist' and obj.nd \
            and I.st.heap[idx] and all(isinstance(k, int) and not isinstance(k, bool) for k in I.st.heap[idx]):
        # integer-array indexing with concrete indices: a copy of the selected entries / rows, in the order given
        out = []
        for k in I.st.heap[idx]:
            x = getitem(I, obj, k)
            out.append(snapshot_copy(I, x) if is_list(x) else x)
        return I.st.alloc('clist', out, nd=True)
    if isinstance(idx, Ref) and idx.kind == 'clist' and idx.nd and not I.st.heap[idx] and \
            isinstance(obj, Ref) and obj.kind == 'clist' and not I.st.heap[obj]:
        return MaskedSel(obj, idx)          # empty array selected by the (empty) result of a comparison on it
    if isinstance(idx, Ref) and idx.kind == 'clist' and isinstance(obj, Ref) and obj.kind == 'clist' and obj.nd and I.st.heap[idx] \
            and all(numkind(k) == 'int' for k in I.st.heap[idx]) and all(numkind(v) is not None for v in I.st.heap[obj]):
        # integer-array indexing of a 1-d numeric array with (some) symbolic indices: entry by entry
        return I.st.alloc('clist', [getitem(I, obj, k) for k in I.st.heap[idx]], nd=True)
    if isinstance(idx, Ref) and idx.kind == 'clist' and isinstance(obj, Ref) and obj.kind == 'clist' and obj.nd and I.st.heap[idx] \
            and all(numkind(k) == 'int' for k in I.st.heap[idx]) and I.st.heap[obj] \
            and all(is_list(r_) and r_.kind == 'clist' and all(numkind(v) is not None for v in I.st.heap[r_]) for r_ in I.st.heap[obj]):
        # rows of a 2-d numeric array selected by (symbolic) integers: column by column
        rows = [I.st.heap[r_] for r_ in I.st.heap[obj]]
        ncol = len(rows[0])
        if any(len(r_) != ncol for r_ in rows):
            raise Unsupported('ragged array')
        out = []
        for k in I.st.heap[idx]:
            if isinstance(k, int):
                out.append(I.st.alloc('clist', list(rows[k]), nd=True))
                continue
            i = norm_index(I, k, z3.IntVal(len(rows)))
            if not I.st.branch(z3.And(i >= 0, i < len(rows))):
                raise PyExc('IndexError', 'index out of bounds')
            sel = []
            for c in range(ncol):
                res = rows[-1][c]
                for r_ in range(len(rows) - 2, -1, -1):
                    res = I.ite(i == r_, rows[r_][c], res)
                sel.append(res)
            out.append(I.st.alloc('clist', sel, nd=True))
        return I.st.alloc('clist', out, nd=True)
    raise Unsupported('fancy indexing')


def _same_mask(I, m1, m2):
    """two boolean masks with the same contents (e.g. `val < lo` written twice in one statement)"""
    if m1 is m2:
        return True
    c1, c2 = I.st.heap[m1], I.st.heap[m2]
    if m1.kind == 'slist' and m2.kind == 'slist':
        if not z3.simplify(c1['len']).eq(z3.simplify(c2['len'])):
            return False
        if z3.simplify(c1['arr']).eq(z3.simplify(c2['arr'])):
            return True
        k = z3.Int(I.st.fresh_name('k!mask'))       # same function written twice (bound-variable names differ): ask z3
        sv = z3.Solver()
        sv.set('timeout', 1000)
        sv.add(z3.Select(c1['arr'], k) != z3.Select(c2['arr'], k))
        return sv.check() == z3.unsat
    if m1.kind == 'clist' and m2.kind == 'clist' and len(c1) == len(c2):
        def tm(x):
            return z3.simplify(zbool(x)) if isinstance(x, SV) else z3.BoolVal(bool(x))
        return all(tm(a).eq(tm(b)) for a, b in zip(c1, c2))
    return False


def masked_binop(I, op, a, b):
    """a[m] op b[m]  ==  (a op b)[m]   for + - * and the same mask (scalars broadcast)"""
    if not isinstance(op, (ast.Add, ast.Sub, ast.Mult)):
        raise Unsupported('operator on a boolean-mask selection')
    masks = [x.mask for x in (a, b) if isinstance(x, MaskedSel)]
    if len(masks) == 2 and not _same_mask(I, masks[0], masks[1]):
        raise Unsupported('arithmetic on selections by different masks')
    sa = a.src if isinstance(a, MaskedSel) else a
    sb = b.src if isinstance(b, MaskedSel) else b
    if (not isinstance(a, MaskedSel) and numkind(a) is None) or (not isinstance(b, MaskedSel) and numkind(b) is None):
        raise Unsupported('arithmetic of a boolean-mask selection with a non-scalar')
    return MaskedSel(binop(I, op, sa, sb), masks[0])


def mask_assign(I, obj, mask, v):
    """obj[mask] = v   with mask a boolean ndarray; v a scalar or  src[mask]  for the same mask"""
    if isinstance(v, MaskedSel):
        if not _same_mask(I, v.mask, mask):
            raise Unsupported('masked assignment from a different mask')
        src = v.src
    elif numkind(v) is not None:
        src = v
    else:
        raise Unsupported('masked assignment of %r' % (v,))
    sel = _ewise3(I, mask, src, obj)
    list_assign_all(I, obj, sel)


def _ewise3(I, mask, a, b):
    """[a_k if mask_k else b_k]"""
    mi = seq_items(I, mask)
    ai = seq_items(I, a) if is_list(a) else None
    bi = seq_items(I, b)
    if mi is not None and bi is not None and (ai is not None or not is_list(a)):
        if len(mi) != len(bi) or (ai is not None and len(ai) != len(bi)):
            raise PyExc('IndexError', 'boolean index did not match')
        out = []
        for k in range(len(bi)):
            x = ai[k] if ai is not None else a
            if not isinstance(mi[k], SV):
                out.append(x if mi[k] else bi[k])
                continue
            out.append(I.ite(zbool(mi[k]), x, bi[k]))
        return I.st.alloc('clist', out, nd=True)
    lm, am, em = to_slist(I, mask) if mask.kind == 'slist' else (None, None, None)
    if lm is None:
        items = seq_items(I, mask)
        am = z3.K(z3.IntSort(), z3.BoolVal(False))
        for k, x in enumerate(items):
            am = z3.Store(am, k, zbool(x))
        lm = z3.IntVal(len(items))
    lb, ab, eb = to_slist(I, b)
    ab = _coerce_arr(ab, eb, 'real')
    if not I.st.branch(lm == lb):
        raise PyExc('IndexError', 'boolean index did not match')
    k = z3.Int(I.st.fresh_name('k!m'))
    if is_list(a):
        la, aa, ea = to_slist(I, a)
        aa = _coerce_arr(aa, ea, 'real')
        if not I.st.branch(la == lb):
            raise PyExc('IndexError', 'boolean index did not match')
        av = z3.Select(aa, k)
    else:
        av = zreal(a)
    arr = z3.Lambda([k], z3.If(z3.Select(am, k), av, z3.Select(ab, k)))
    return I.st.alloc('slist', {'len': lb, 'arr': arr, 'ek': 'real'}, nd=True)


# ===================================================================== arithmetic
def _arith(I, op, a, b):
    ka, kb = numkind(a), numkind(b)
    if isinstance(op, (ast.BitAnd, ast.BitOr)) and ka == 'bool' and kb == 'bool':
        return I.land(a, b) if isinstance(op, ast.BitAnd) else I.lor(a, b)
    if ka is None or kb is None:
        raise Unsupported('arithmetic on %r, %r' % (a, b))
    if not isinstance(a, SV) and not isinstance(b, SV):
        # concrete python arithmetic (exact for ints; floats as python computes them)
        try:
            if isinstance(op, ast.Add): return a + b
            if isinstance(op, ast.Sub): return a - b
            if isinstance(op, ast.Mult): return a * b
            if isinstance(op, ast.Div): return a / b
            if isinstance(op, ast.FloorDiv): return a // b
            if isinstance(op, ast.Mod): return a % b
            if isinstance(op, ast.Pow): return a ** b
        except ZeroDivisionError:
            raise PyExc('ZeroDivisionError')
        except OverflowError:
            raise PyExc('OverflowError')
        raise Unsupported('operator %s' % type(op).__name__)
    isint = ka in ('int', 'bool') and kb in ('int', 'bool')
    if isinstance(op, (ast.Add, ast.Sub, ast.Mult)):
        if isint:
            x, y = zint(a), zint(b)
            kind = 'int'
        else:
            x, y = zreal(a), zreal(b)
            kind = 'real'
        t = x + y if isinstance(op, ast.Add) else x - y if isinstance(op, ast.Sub) else x * y
        if isinstance(op, ast.Mult) and kind == 'real' and isinstance(a, SV) and isinstance(b, SV) \
                and not z3.is_rational_value(z3.simplify(x)) and not z3.is_rational_value(z3.simplify(y)):
            # nonlinear product: give the solver the sign rule of the reals (valid facts, not assumptions)
            I.st.assume(z3.And((t == 0) == z3.Or(x == 0, y == 0),
                               z3.Implies(z3.Or(z3.And(x > 0, y > 0), z3.And(x < 0, y < 0)), t > 0),
                               z3.Implies(z3.Or(z3.And(x > 0, y < 0), z3.And(x < 0, y > 0)), t < 0)))
        return SV(z3.simplify(t), kind)
    if isinstance(op, ast.Div):
        y = zreal(b)
        if I.st.branch(y == 0):
            raise PyExc('ZeroDivisionError')
        return SV(z3.simplify(zreal(a) / y), 'real')
    if isinstance(op, (ast.FloorDiv, ast.Mod)):
        if not isint:
            raise Unsupported('float floor-division / modulo')
        x, y = zint(a), zint(b)
        if I.st.branch(y == 0):
            raise PyExc('ZeroDivisionError')
        if isinstance(op, ast.Mod) and not z3.is_int_value(z3.simplify(y)):
            # symbolic modulus: linearise when 0 <= x < 2y is implied by the path condition
            if not I.st.feasible(z3.Not(z3.And(x >= 0, x < 2 * y, y > 0))):
                return SV(z3.simplify(z3.If(x < y, x, x - y)), 'int')
        # python floors toward -inf; z3 div/mod are euclidean (remainder >= 0)
        q = z3.If(y > 0, x / y, -((-x) / (-y)) if False else z3.If(x % y == 0, x / y, x / y - 0) )
        if isinstance(op, ast.FloorDiv):
            qq = z3.If(y > 0, x / y, z3.If((x % y) == 0, x / y, x / y - 1))
            # check: y<0, x=7,y=-2: z3 7 div -2 = -3 (7 = -2*-3 + 1); python -4.  -3-1 = -4 ok.
            return SV(z3.simplify(qq), 'int')
        mm = z3.If(y > 0, x % y, z3.If((x % y) == 0, 0, (x % y) + y))
        return SV(z3.simplify(mm), 'int')
    if isinstance(op, ast.Pow):
        return power(I, a, b)
    raise Unsupported('operator %s' % type(op).__name__)


def power(I, a, b):
    if isinstance(b, int) and not isinstance(b, bool) and 0 <= b <= 4:
        r = 1
        for _ in range(b):
            r = _arith(I, ast.Mult(), r, a)
        return r
    if isinstance(b, float) and b == int(b) and 0 <= b <= 4 and numkind(a) is not None:
        # x ** 2.0: the float result of the integer power (floats are reals here)
        r = 1.0
        for _ in range(int(b)):
            r = _arith(I, ast.Mult(), r, a)
        return cast_scalar(I, r, 'float')
    if isinstance(b, float) and b == 0.5:
        x = zreal(a)
        if not I.st.branch(x >= 0, exact=True):
            raise Unsupported('sqrt of negative (complex result)')
        t = SQRT(x)
        I.st.assume(z3.And(t >= 0, t * t == x))
        I.st.trusted.add('SQRT axioms: sqrt(x)>=0, sqrt(x)^2=x')
        return SV(t, 'real')
    if numkind(b) in ('int', 'bool'):
        base = zreal(a)
        n = zint(b)
        if not I.st.branch(n >= 0):
            raise Unsupported('negative symbolic exponent')
        t = POW(base, n)
        pow_axioms(I, base, n)
        k = 'int' if numkind(a) in ('int', 'bool') else 'real'
        if k == 'int':
            # integer power of an integer is an integer: keep as real-valued term, coerced where needed
            return SV(t, 'real')
        return SV(t, 'real')
    raise Unsupported('power %r ** %r' % (a, b))


def pow_axioms(I, base, n):
    """instantiate the defining equations of Pow at (base, n): the recursion is a spec function (DESIGN 2.3)"""
    st = I.st
    st.assume(POW(base, z3.IntVal(0)) == 1)
    st.assume(z3.Implies(n >= 1, POW(base, n) == base * POW(base, n - 1)))
    st.assume(POW(base, n + 1) == base * POW(base, n))
    st.assume(z3.Implies(z3.And(base > 0, n >= 0), POW(base, n) > 0))
    st.assume(z3.Implies(z3.And(base > 0, n >= 0), POW(base, n + 1) > 0))
    st.trusted.add('Pow spec function: Pow(h,0)=1, Pow(h,n+1)=h*Pow(h,n), h>0 => Pow(h,n)>0 (lemma by induction)')


def binop(I, op, a, b):
    if isinstance(a, MaskedSel) or isinstance(b, MaskedSel):
        return masked_binop(I, op, a, b)
    if isinstance(a, Ref) and a.kind == 'set' and isinstance(op, (ast.Sub, ast.BitOr, ast.BitAnd)):
        if not (isinstance(b, Ref) and b.kind == 'set'):
            raise PyExc('TypeError', 'unsupported operand type(s) for set operator')
        meth = {ast.Sub: 'difference', ast.BitOr: 'union', ast.BitAnd: 'intersection'}[type(op)]
        return I.call(getattr(I, a, meth), [b], {})
    # sequences
    if is_list(a) or is_list(b) or isinstance(a, tuple) or isinstance(b, tuple):
        nd = (is_list(a) and a.nd) or (is_list(b) and b.nd)
        if nd:
            return elementwise2(I, a, b, lambda x, y: _arith(I, op, x, y))
        if isinstance(op, ast.Add) and (is_list(a) or isinstance(a, tuple)) and (is_list(b) or isinstance(b, tuple)):
            return list_concat(I, a, b)
        if isinstance(op, ast.Mult):
            if numkind(b) in ('int', 'bool'):
                return list_repeat(I, a, b)
            if numkind(a) in ('int', 'bool'):
                return list_repeat(I, b, a)
        if isinstance(op, ast.Mod) and isinstance(a, (str, SStr)):
            return str_format(I, a, b)
        raise PyExc('TypeError', 'unsupported operand for list')
    if isinstance(a, (str, SStr)) or isinstance(b, (str, SStr)):
        if isinstance(op, ast.Mod) and isinstance(a, (str, SStr)):
            return str_format(I, a, b)
        if isinstance(op, ast.Add):
            if isinstance(a, str) and isinstance(b, str):
                return a + b
            if isinstance(a, (str, SStr)) and isinstance(b, (str, SStr)):
                ne = (a.nonempty if isinstance(a, SStr) else bool(a)) or (b.nonempty if isinstance(b, SStr) else bool(b))
                return SStr(I.st.fresh_name('cat'), nonempty=ne)
        if isinstance(op, ast.Mult) and isinstance(a, str) and isinstance(b, int):
            return a * b
        raise PyExc('TypeError', 'string operand')
    if a is None or b is None:
        raise PyExc('TypeError', 'unsupported operand None')
    if isinstance(op, (ast.BitAnd, ast.BitOr)):
        ka, kb = numkind(a), numkind(b)
        if ka == 'bool' and kb == 'bool':
            return I.land(a, b) if isinstance(op, ast.BitAnd) else I.lor(a, b)
        if not isinstance(a, SV) and not isinstance(b, SV):
            return (a & b) if isinstance(op, ast.BitAnd) else (a | b)
        raise Unsupported('bit operation on symbolic ints')
    if isinstance(a, Ref) and a.kind == 'dict' or isinstance(a, Ref) and a.kind == 'obj':
        if isinstance(a, Ref) and a.kind == 'obj':
            nm = {ast.Add: '__add__', ast.Sub: '__sub__', ast.Mult: '__mul__'}.get(type(op))
            m = a.cls.lookup(nm) if nm and a.cls else UNDEF
            if m is not UNDEF:
                return I.call(m, [a, b], {})
        raise Unsupported('operator on object')
    return _arith(I, op, a, b)


def _concrete_py(I, v, depth=0):
    """the python value of a fully concrete model value (numbers, strings, None, inf, containers of those), else UNDEF"""
    if isinstance(v, (str, int, float, bool, type(None))):
        return v
    if isinstance(v, SV):
        t = z3.simplify(v.t)
        if z3.is_int_value(t):
            return t.as_long()
        if t.eq(INF):
            return float('inf')
        if t.eq(z3.simplify(-INF)):
            return float('-inf')
        return UNDEF
    if depth > 4:
        return UNDEF
    if isinstance(v, tuple):
        items = [_concrete_py(I, x, depth + 1) for x in v]
        return UNDEF if any(x is UNDEF for x in items) else tuple(items)
    if isinstance(v, Ref) and v.kind in ('clist', 'set') and v.cls is None and not v.nd:
        items = [_concrete_py(I, x, depth + 1) for x in I.st.heap[v]]
        if any(x is UNDEF for x in items):
            return UNDEF
        try:
            return items if v.kind == 'clist' else set(items)
        except TypeError:
            return UNDEF
    if isinstance(v, Ref) and v.kind == 'dict':
        out = {}
        for k_, x in I.st.heap[v].items():
            kk, xx = _concrete_py(I, k_, depth + 1), _concrete_py(I, x, depth + 1)
            if kk is UNDEF or xx is UNDEF:
                return UNDEF
            out[kk] = xx
        return out
    return UNDEF


def str_format(I, a, b):
    args = b if isinstance(b, tuple) else (b,)
    if isinstance(a, str) and any(isinstance(x, (Ref, tuple)) for x in args):
        conc = [_concrete_py(I, x) for x in args]
        if all(x is not UNDEF for x in conc):
            try:
                return a % (tuple(conc) if isinstance(b, tuple) else (conc[0],))      # CPython's own str()/repr() of the value
            except (TypeError, ValueError):
                raise PyExc('TypeError', 'format')
    if isinstance(a, str) and all(isinstance(x, (str, int, float, bool, type(None))) for x in args):
        try:
            return a % b
        except (TypeError, ValueError):
            raise PyExc('TypeError', 'format')
    lit = a if isinstance(a, str) else ''
    import re
    const = re.sub(r'%[-#0 +]*\d*(?:\.\d+)?[sdrfge]', '', lit)
    ne = bool(const) or (isinstance(a, SStr) and a.nonempty)
    return SStr(I.st.fresh_name('fmt'), nonempty=True if ne else _maybe_nonempty(args), parts=(a, b))


def _maybe_nonempty(args):
    # "%s" % x is non-empty unless x formats to "": numbers, dicts, lists never do
    return all(not isinstance(x, (str, SStr)) or (isinstance(x, SStr) and x.nonempty) or (isinstance(x, str) and x) for x in args)


def compare(I, op, a, b):
    if isinstance(op, (ast.Is, ast.IsNot)):
        r = identical(I, a, b)
        if isinstance(r, bool):
            return r if isinstance(op, ast.Is) else (not r)
        return SV(r if isinstance(op, ast.Is) else z3.Not(r), 'bool')
    if isinstance(op, (ast.In, ast.NotIn)):
        r = contains(I, b, a)
        if isinstance(op, ast.NotIn):
            return I.lnot(r)
        return r
    if (is_list(a) and a.nd) or (is_list(b) and b.nd):
        return elementwise2(I, a, b, lambda x, y: compare(I, op, x, y))
    ka, kb = numkind(a), numkind(b)
    if ka is not None and kb is not None:
        if not isinstance(a, SV) and not isinstance(b, SV):
            return {ast.Eq: a == b, ast.NotEq: a != b, ast.Lt: a < b, ast.LtE: a <= b,
                    ast.Gt: a > b, ast.GtE: a >= b}[type(op)]
        if ka in ('int', 'bool') and kb in ('int', 'bool'):
            x, y = zint(a), zint(b)
        else:
            x, y = zreal(a), zreal(b)
        t = {ast.Eq: lambda: x == y, ast.NotEq: lambda: x != y, ast.Lt: lambda: x < y, ast.LtE: lambda: x <= y,
             ast.Gt: lambda: x > y, ast.GtE: lambda: x >= y}[type(op)]()
        t = z3.simplify(t)
        if z3.is_true(t):
            return True
        if z3.is_false(t):
            return False
        return SV(t, 'bool')
    if isinstance(op, (ast.Eq, ast.NotEq)):
        r = equal(I, a, b)
        if isinstance(op, ast.NotEq):
            return I.lnot(r)
        return r
    if a is None or b is None:
        raise PyExc('TypeError', 'ordering with None')
    if isinstance(a, str) and isinstance(b, str):
        return {ast.Lt: a < b, ast.LtE: a <= b, ast.Gt: a > b, ast.GtE: a >= b}[type(op)]
    if isinstance(a, (str, SStr)) != isinstance(b, (str, SStr)):
        raise PyExc('TypeError', 'ordering str with number')
    raise Unsupported('comparison of %r and %r' % (a, b))


def identical(I, a, b):
    if a is None or b is None:
        return a is b
    if isinstance(a, bool) and isinstance(b, bool):
        return a == b
    if isinstance(a, ClassRef) and isinstance(b, ClassRef):
        return a.info is b.info
    if isinstance(a, TypeTag) and isinstance(b, TypeTag):
        return a.name == b.name
    if isinstance(a, (Ref, Closure, AbsFun, Builtin, SStr, ClassRef, SOpaque, TypeTag)) or \
       isinstance(b, (Ref, Closure, AbsFun, Builtin, SStr, ClassRef, SOpaque, TypeTag)):
        return a is b
    if isinstance(a, BoundMethod) or isinstance(b, BoundMethod):
        return False
    if isinstance(a, str) and isinstance(b, str):
        return a == b           # interned literals (assumption)
    if isinstance(a, tuple) and isinstance(b, tuple):
        if a == () and b == ():
            return True
        return a is b
    if numkind(a) in ('int', 'bool') and numkind(b) in ('int', 'bool') and numkind(a) == numkind(b):
        # small-int cache identity (DESIGN 2.2): modelled as equality
        I.st.assumptions.add('`is` on ints modelled as == (CPython small-int cache, 0..256)')
        r = compare(I, ast.Eq(), a, b)
        return r if isinstance(r, bool) else r.t
    if numkind(a) is not None and numkind(b) is not None:
        if numkind(a) != numkind(b):
            return False
        # two float objects: whether they are the same object is not determined by their values -- an arbitrary
        # boolean (nothing proved may depend on it; a refutation that does is reported no-failing-input-found at worst)
        I.st.assumptions.add('`is` on two floats is an arbitrary boolean (object identity of floats is not modelled)')
        return z3.Bool(I.st.fresh_name('float!is'))
    return a is b


def _unsup(msg):
    raise Unsupported(msg)


def equal(I, a, b):
    if a is None or b is None:
        return a is None and b is None
    if isinstance(a, (str,)) and isinstance(b, (str,)):
        return a == b
    if isinstance(a, SStr) or isinstance(b, SStr):
        if a is b:
            return True
        for x, y in ((a, b), (b, a)):
            if isinstance(x, SStr) and isinstance(y, str):
                if x.nonempty and y == '':
                    return False
                if x.__dict__.get('prefix') and not y.startswith(x.prefix[0]):
                    return False
        raise Unsupported('equality of opaque strings')
    if isinstance(a, str) != isinstance(b, str):
        return False
    sa, sb = seq_items(I, a), seq_items(I, b)
    if sa is not None and sb is not None:
        if isinstance(a, tuple) != isinstance(b, tuple):
            return False
        if len(sa) != len(sb):
            return False
        r = True
        for x, y in zip(sa, sb):
            r = I.land(r, compare(I, ast.Eq(), x, y))
        return r
    if is_list(a) and is_list(b):
        l1, a1, e1 = to_slist(I, a)
        l2, a2, e2 = to_slist(I, b)
        ek = 'real' if 'real' in (e1, e2) else 'int'
        a1, a2 = _coerce_arr(a1, e1, ek), _coerce_arr(a2, e2, ek)
        k = z3.Int(I.st.fresh_name('k!q'))
        return SV(z3.And(l1 == l2, z3.ForAll([k], z3.Implies(z3.And(k >= 0, k < l1),
                                                             z3.Select(a1, k) == z3.Select(a2, k)))), 'bool')
    if isinstance(a, (Closure, AbsFun, Builtin, ClassRef, SOpaque, BoundMethod, TypeTag)) or \
       isinstance(b, (Closure, AbsFun, Builtin, ClassRef, SOpaque, BoundMethod, TypeTag)):
        return _same(a, b)
    if isinstance(a, Ref) and isinstance(b, Ref) and a.kind == 'obj' and b.kind == 'obj':
        if a is b:
            return True
        raise Unsupported('object equality')
    if (numkind(a) is None) != (numkind(b) is None):
        return False
    raise Unsupported('equality of %r and %r' % (a, b))


def contains(I, cont, x):
    if isinstance(cont, (dict,)):
        return any(_same(k, hkey(x)) for k in cont)
    if isinstance(cont, Ref) and cont.kind == 'dict':
        return any(_same(k, hkey(x)) for k in I.st.heap[cont])
    if isinstance(cont, str) and isinstance(x, str):
        return x in cont
    items = seq_items(I, cont)
    if items is None and isinstance(cont, (_Zip, _Enum, IterV)):
        items = concrete_iter(I, cont)         # (a one-shot iterator searched once)
    if items is not None:
        r = False
        for y in items:
            if numkind(x) is not None and numkind(y) is not None:
                r = I.lor(r, compare(I, ast.Eq(), x, y))
            else:
                e = _same(hkey(x), hkey(y)) if not (is_list(x) or is_list(y)) else equal(I, x, y)
                r = I.lor(r, e)
        return r
    if isinstance(cont, RangeV):
        return I.land(compare(I, ast.GtE(), x, cont.lo), compare(I, ast.Lt(), x, cont.hi))
    if isinstance(cont, Ref) and cont.kind == 'slist':
        c = I.st.heap[cont]
        k = z3.Int(I.st.fresh_name('k!m'))
        xx = zreal(x) if c['ek'] == 'real' else zint(x)
        return SV(z3.Exists([k], z3.And(k >= 0, k < c['len'], z3.Select(c['arr'], k) == xx)), 'bool')
    raise Unsupported('membership in %r' % (cont,))


# ===================================================================== attributes
def getattr(I, obj, name):
    st = I.st
    if isinstance(obj, MaskedSel):
        r = resolve_masked(I, obj)          # the selection itself is needed: decide the mask
        if r is None:
            raise Unsupported('attribute %s of a boolean-mask selection of symbolic shape' % name)
        return getattr(I, r, name)
    if isinstance(obj, SuperV):
        mro = obj.obj.cls.mro() if obj.obj.cls is not None else []
        if obj.cls not in mro:
            raise PyExc('TypeError', 'super(type, obj): obj must be an instance or subtype of type')
        for c in mro[mro.index(obj.cls) + 1:]:
            if name in c.attrs:
                v = c.attrs[name]
                if isinstance(v, PropertyV):
                    return I.call(v.fget, [obj.obj], {})
                if isinstance(v, Closure):
                    return BoundMethod(v, obj.obj)
                return v
        if isinstance(obj.obj, Ref) and obj.obj.kind == 'clist':
            if name == '__init__':
                def linit(I_, a, k, o=obj.obj):
                    items = concrete_iter(I_, a[0]) if a else []
                    if items is None:
                        raise Unsupported('list.__init__(symbolic sequence)')
                    I_.st.note_write(o)
                    I_.st.heap[o] = list(items)
                return Builtin('list.__init__', linit)
            return container_method(I, obj.obj, name)
        raise PyExc('AttributeError', name)
    if isinstance(obj, Ref):
        if obj.kind == 'clist' and obj.cls is not None:
            cv = obj.cls.lookup(name)
            if isinstance(cv, PropertyV):
                return I.call(cv.fget, [obj], {})
            attrs = obj.meta.setdefault('attrs', {})
            if name in attrs:
                return attrs[name]
            if name == '__class__':
                return ClassRef(obj.cls)
            if cv is not UNDEF:
                return BoundMethod(cv, obj) if isinstance(cv, Closure) else cv
        if obj.kind == 'obj':
            cell = st.heap[obj]
            if name == '__dict__':
                return ObjDict(obj)
            if name == '__class__':
                return ClassRef(obj.cls)
            if obj.cls is not None:
                cv = obj.cls.lookup(name)
                if isinstance(cv, PropertyV):
                    return I.call(cv.fget, [obj], {})
            if name in cell:
                v = cell[name]
                if v is UNDEF:
                    raise PyExc('AttributeError', name)
                return v
            if name == '__module__' and obj.cls is not None and obj.cls.lookup('__module__') is UNDEF:
                return obj.cls.module.name
            if name == '__class__' and obj.cls is not None:
                return ClassRef(obj.cls)
            if name == '__doc__' and obj.cls is not None:
                import ast as _ast
                for c in obj.cls.mro():
                    d = _ast.get_docstring(c.node, clean=False)
                    if d is not None:
                        return d
                    break                       # __doc__ is not inherited
                return None
            if obj.cls is not None:
                if cv is not UNDEF:
                    if isinstance(cv, Closure):
                        return BoundMethod(cv, obj)
                    return cv
                bb = obj.cls
                for c in obj.cls.mro():
                    if c.builtin_base == 'tuple':
                        return getattr(I, tuple(cell['__items__']), name)
            if cell.get('__open__'):
                raise Unsupported('attribute %s of an object with undeclared fields' % name)
            if obj.cls is not None and not (name.startswith('__') and name.endswith('__')):
                ga = obj.cls.lookup('__getattr__')          # the class's fallback for attributes not found normally
                if isinstance(ga, Closure):
                    return I.call(ga, [obj, name], {})
            raise PyExc('AttributeError', name)
        return container_method(I, obj, name)
    if isinstance(obj, Closure) or isinstance(obj, AbsFun) or isinstance(obj, Builtin):
        if name in obj.attrs:
            return obj.attrs[name]
        raise PyExc('AttributeError', name)    # abstract callables are plain functions: only declared attrs
    if isinstance(obj, BoundMethod):
        return getattr(I, obj.func, name)
    if isinstance(obj, ClassRef):
        v = obj.info.lookup(name)
        if v is UNDEF:
            if name == '__name__':
                return obj.info.name
            if name == '__module__':
                return obj.info.module.name
            if name == '__new__':
                return Builtin('object.__new__', lambda I_, a, k: _obj_new(I_, a))
            raise PyExc('AttributeError', name)
        return v
    if isinstance(obj, ModRef) or (isinstance(obj, tuple) and len(obj) == 2 and obj[0] == 'repo' and hasattr(obj[1], 'binders')):
        return I.mod_getattr(obj, name)
    if isinstance(obj, ObjDict):
        return objdict_method(I, obj, name)
    if isinstance(obj, tuple):
        if name == 'index':
            return Builtin('tuple.index', lambda I_, a, k: _index_of(I_, list(obj), a[0]))
        if name == 'count':
            return Builtin('tuple.count', lambda I_, a, k: sum(1 for y in obj if _same(hkey(y), hkey(a[0]))))
        if name == '__len__':
            return Builtin('tuple.__len__', lambda I_, a, k: len(obj))
        raise PyExc('AttributeError', name)
    if isinstance(obj, (str, SStr)):
        return str_method(I, obj, name)
    if isinstance(obj, (SV, int, float, bool)):
        if name == '__abs__':
            from .lib import b_abs as _b_abs
            return Builtin('abs', lambda I_, a, k: _b_abs(I_, [obj], {}))
        if name in ('real',):
            return obj
        if name == 'copy':
            return Builtin('scalar.copy', lambda I_, a, k: obj)
        from .values import SV0d, F0d, I0d
        if isinstance(obj, (SV0d, F0d, I0d)):
            if name == 'shape':
                return ()
            if name == 'ndim':
                return 0
            if name == 'size':
                return 1
            if name == 'tolist':
                return Builtin('scalar.tolist', lambda I_, a, k: obj)
        raise PyExc('AttributeError', name)
    if obj is None:
        raise PyExc('AttributeError', name)
    if isinstance(obj, TypeTag):
        if name == '__new__':
            return Builtin(obj.name + '.__new__', lambda I_, a, k: _builtin_new(I_, obj, a))
        if name == '__name__':
            return obj.name
        raise Unsupported('attribute %s of type %s' % (name, obj.name))
    if isinstance(obj, Unknown):
        raise Unsupported('use of unmodelled %s' % obj.name)
    if type(obj).__name__ == 'BroadcastV' and name == 'shape':
        return obj.shape
    raise Unsupported('attribute %s of %r' % (name, obj))


class ObjDict:
    def __init__(self, obj):
        self.obj = obj


def _obj_new(I, a):
    cls = a[0]
    r = I.st.alloc('obj', {}, name=cls.info.name)
    r.cls = cls.info
    return r


def _builtin_new(I, tt, a):
    cls = a[0]
    if tt.name == 'object':
        return _obj_new(I, a)
    if tt.name == 'tuple':
        r = I.st.alloc('obj', {'__items__': list(concrete_iter(I, a[1]) if len(a) > 1 else [])}, name=cls.info.name)
        r.cls = cls.info
        _ = cls.info.bases
        return r
    raise Unsupported('%s.__new__' % tt.name)


def objdict_method(I, od, name):
    cell = I.st.heap[od.obj]
    if name == 'update':
        def upd(I_, a, k):
            for src in a:
                d = I_.st.heap[src.obj] if isinstance(src, ObjDict) else dict_cell(I_, src)
                for kk, vv in d.items():
                    I_.st.note_write(od.obj, kk)
                    cell[kk] = vv
            for kk, vv in k.items():
                I_.st.note_write(od.obj, kk)
                cell[kk] = vv
            return None
        return Builtin('dict.update', upd)
    if name == 'items':
        return Builtin('dict.items', lambda I_, a, k: _DictItems({kk: vv for kk, vv in cell.items() if not kk.startswith('__') or not kk.endswith('__')}))
    if name == 'keys':
        return Builtin('dict.keys', lambda I_, a, k: tuple(cell.keys()))
    raise Unsupported('__dict__.%s' % name)


def setattr(I, obj, name, v):
    if isinstance(obj, Ref) and obj.kind == 'clist' and obj.cls is not None:
        cv = obj.cls.lookup(name)
        if isinstance(cv, PropertyV):
            if cv.fset is None:
                raise PyExc('AttributeError', 'can not set %s' % name)
            I.call(cv.fset, [obj, v], {})
            return
        obj.meta.setdefault('attrs', {})[name] = v
        return
    if isinstance(obj, Ref) and obj.kind == 'obj':
        if obj.cls is not None:
            cv = obj.cls.lookup(name)
            if isinstance(cv, PropertyV):
                if cv.fset is None:
                    raise PyExc('AttributeError', 'can not set %s' % name)
                I.call(cv.fset, [obj, v], {})
                return
        I.st.note_write(obj, name)
        I.st.heap[obj][name] = v
        return
    if isinstance(obj, (Closure, AbsFun)):
        obj.attrs[name] = v
        return
    if isinstance(obj, ClassRef):
        obj.info.attrs[name] = v      # class attribute (state of this path's interpreter only)
        return
    if name == 'shape' and isinstance(obj, Ref) and obj.kind == 'clist' and obj.nd:
        # in-place reshape of a concrete-shaped array: same object, same entries in row-major order
        from . import lib as _lib
        n = _lib.nd_nested(I, obj)
        if n is None or not isinstance(v, tuple):
            raise Unsupported('shape assignment on an array of symbolic shape')
        new = _lib.nd_reshape(_lib.nd_flat(n), v)
        if not isinstance(new, list):
            raise Unsupported('reshape to a 0-d array')
        I.st.note_write(obj)
        I.st.heap[obj] = [_lib.nd_build(I, y) for y in new]
        return
    if name == 'flat' and isinstance(obj, Ref) and obj.kind == 'clist' and obj.nd:
        # a.flat = values: the entries in row-major order are overwritten (values cycled / truncated to the array's size)
        from . import lib as _lib
        n = _lib.nd_nested(I, obj)
        vals = [v] if numkind(v) is not None else concrete_iter(I, v)
        if n is None or vals is None or any(is_list(y) for y in vals):
            raise Unsupported('flat assignment with a symbolic shape')
        size = len(_lib.nd_flat(n))
        if size and not vals:
            raise PyExc('ValueError', 'cannot assign an empty sequence to flat')
        flatv = [_store_cast(I, obj, vals[q % len(vals)]) for q in range(size)]
        new = _lib.nd_reshape(flatv, _lib.nd_shape(n)) if size else []
        I.st.note_write(obj)
        I.st.heap[obj] = [_lib.nd_build(I, y) for y in new] if isinstance(new, list) else [new]
        return
    raise Unsupported('attribute assignment on %r' % (obj,))


_LIST_ATTRS = frozenset(dir(list))
try:
    import numpy as _np
    _NDARRAY_ATTRS = frozenset(dir(_np.ndarray))
except Exception:       # noqa
    _NDARRAY_ATTRS = frozenset(['__len__', '__iter__', '__getitem__', '__setitem__', '__array__', 'shape', 'dtype', 'size', 'ndim', 'T',
                                'flat', 'copy', 'tolist', 'astype', 'sum', 'max', 'min', 'any', 'all', 'mean', 'ravel', 'flatten',
                                'reshape', 'transpose', 'clip', 'sort', 'argsort', 'fill', 'item', 'dot', 'prod', 'std', 'var',
                                'cumsum', 'round', 'squeeze', 'take', 'put', 'repeat', 'nonzero', 'argmax', 'argmin', 'ptp'])


def container_method(I, obj, name):
    st = I.st
    kind = obj.kind

    def B(f):
        return Builtin('%s.%s' % (kind, name), f)
    if kind in ('clist', 'slist'):
        if name == 'append':
            def app(I_, a, k):
                st.note_write(obj)
                if obj.kind == 'clist':
                    st.heap[obj].append(a[0])
                else:
                    c = st.heap[obj]
                    if numkind(a[0]) is None:
                        raise Unsupported('append of non-numeric to symbolic list')
                    ek = c['ek']
                    arr = c['arr']
                    if ek == 'int' and numkind(a[0]) == 'real':
                        arr = _coerce_arr(arr, 'int', 'real')
                        ek = 'real'
                    st.heap[obj] = {'len': z3.simplify(c['len'] + 1),
                                    'arr': z3.Store(arr, c['len'], zint(a[0]) if ek == 'int' else zreal(a[0])), 'ek': ek}
                return None
            return B(app)
        if name == 'extend':
            return B(lambda I_, a, k: list_extend(I_, obj, a[0]))
        if name == 'clip' and obj.nd:
            def clip(I_, a, k):
                lo = a[0] if len(a) > 0 else k.get('min', k.get('a_min'))
                hi = a[1] if len(a) > 1 else k.get('max', k.get('a_max'))
                r = obj
                # numpy: minimum(maximum(x, lo), hi)
                if lo is not None:
                    r = elementwise2(I_, r, lo, lambda x, y: I_.ite(zreal(x) >= zreal(y), x, y))
                if hi is not None:
                    r = elementwise2(I_, r, hi, lambda x, y: I_.ite(zreal(x) <= zreal(y), x, y))
                if r is obj:
                    r = snapshot_copy(I_, obj)
                st.trusted.add('ndarray.clip(lo, hi) = minimum(maximum(x, lo), hi) elementwise')
                return r
            return B(clip)
        if name == 'pop':
            def pop(I_, a, k):
                st.note_write(obj)
                if obj.kind == 'clist':
                    try:
                        return st.heap[obj].pop(*a)
                    except IndexError:
                        raise PyExc('IndexError')
                c = st.heap[obj]
                if a:
                    raise Unsupported('pop(i) on symbolic list')
                if not st.branch(c['len'] > 0):
                    raise PyExc('IndexError')
                v = SV(z3.Select(c['arr'], c['len'] - 1), c['ek'])
                nc = dict(c)
                nc['len'] = z3.simplify(c['len'] - 1)
                st.heap[obj] = nc
                return v
            return B(pop)
        if name == 'insert':
            def ins(I_, a, k):
                st.note_write(obj)
                if obj.kind == 'clist' and isinstance(a[0], int):
                    st.heap[obj].insert(a[0], a[1])
                    return None
                ln, arr, ek = to_slist(I_, obj)
                pos = zint(a[0])
                pos = z3.If(pos < 0, z3.If(pos + ln < 0, 0, pos + ln), z3.If(pos > ln, ln, pos))
                kk = z3.Int(st.fresh_name('k!i'))
                if ek == 'int' and numkind(a[1]) == 'real':
                    arr = _coerce_arr(arr, 'int', 'real')
                    ek = 'real'
                val = zint(a[1]) if ek == 'int' else zreal(a[1])
                narr = z3.Lambda([kk], z3.If(kk < pos, z3.Select(arr, kk), z3.If(kk == pos, val, z3.Select(arr, kk - 1))))
                obj.kind = 'slist'
                st.heap[obj] = {'len': z3.simplify(ln + 1), 'arr': narr, 'ek': ek}
                return None
            return B(ins)
        if name in ('tolist', 'T', 'shape', 'astype', 'sum', 'max', 'min', 'any', 'all', 'ravel', 'flatten', 'mean', 'ndim') and not obj.nd:
            raise PyExc('AttributeError', name)
        if name == 'copy':
            return B(lambda I_, a, k: snapshot_copy(I_, obj))
        if name == 'tolist':
            return B(lambda I_, a, k: tolist(I_, obj))
        if name == 'index':
            return B(lambda I_, a, k: _index_of(I_, seq_items(I_, obj) if obj.kind == 'clist' else None, a[0], obj))
        if name == 'T':
            if obj.kind == 'clist' and st.heap[obj] and is_list(st.heap[obj][0]):
                from . import lib as _lib
                return _lib.np_transpose(I, obj)
            return obj
        if name in ('shape',):
            if obj.kind == 'clist' and st.heap[obj] and any(is_list(x) for x in st.heap[obj]):
                from . import lib as _lib
                n = _lib.nd_nested(I, obj)
                if n is None:
                    raise Unsupported('shape of an array with rows of symbolic length')
                return _lib.nd_shape(n)
            if obj.kind == 'rows':
                c = st.heap[obj]
                return (SV(c['len'], 'int'), SV(c['ncols'], 'int'))
            return (list_len(I, obj),)
        if name == 'reshape' and obj.nd:
            def reshape(I_, a, k):
                from . import lib as _lib
                shp = a[0] if len(a) == 1 and isinstance(a[0], tuple) else tuple(a)
                n = _lib.nd_nested(I_, obj)
                if n is None or k:
                    raise Unsupported('reshape of an array of symbolic shape')
                return _lib.nd_build(I_, _lib.nd_reshape(_lib.nd_flat(n), shp))
            return B(reshape)
        if name == 'argsort' and obj.nd and obj.kind == 'clist' and not any(is_list(y) for y in st.heap[obj]):
            f = lib_lookup(I, 'numpy.argsort')
            return B(lambda I_, a, k: I_.call(f, [obj] + a, k))
        if name == 'round' and obj.nd:
            f = lib_lookup(I, 'numpy.round')
            return B(lambda I_, a, k: I_.call(f, [obj] + a, k))
        if name in ('ptp', 'argmin', 'argmax') and obj.nd:
            f = lib_lookup(I, 'numpy.' + name)
            return B(lambda I_, a, k: I_.call(f, [obj] + a, k))
        if name == 'ndim' and obj.nd:
            if obj.kind == 'clist' and st.heap[obj] and all(is_list(x) for x in st.heap[obj]):
                inner = st.heap[obj][0]
                if inner.kind == 'clist' and any(is_list(y) for y in st.heap[inner]):
                    raise Unsupported('ndim of an array with more than two dimensions')
                return 2
            if obj.kind == 'rows':
                return 2
            return 1
        if name == 'transpose' and obj.nd:
            def tr(I_, a, k):
                if a or k:
                    raise Unsupported('transpose with axes')
                return getattr(I_, obj, 'T')
            return B(tr)
        if name == 'size' and obj.nd:
            if obj.kind == 'clist' and any(is_list(x) for x in st.heap[obj]):
                from . import lib as _lib
                n = _lib.nd_nested(I, obj)
                if n is None:
                    raise Unsupported('size of an array with rows of symbolic length')
                _lib.nd_shape(n)
                return len(_lib.nd_flat(n))
            return list_len(I, obj)
        if name == 'dtype' and obj.nd:
            return TypeTag('object' if nd_has_none(I, obj) else nd_dtype(I, obj))
        if name == 'astype':
            return B(lambda I_, a, k: _astype(I_, obj, a[0]))
        if name == 'count' and obj.kind == 'clist':
            def count(I_, a, k):
                n = 0
                for y in st.heap[obj]:
                    e = equal(I_, y, a[0])
                    if not isinstance(e, bool):
                        raise Unsupported('list.count with a symbolic comparison')
                    n += 1 if e else 0
                return n
            return B(count)
        if name == 'sort' and obj.kind == 'clist' and not any(is_list(y) for y in st.heap[obj]):
            def sort_(I_, a, k):
                from . import lib as _lib
                if a or (set(k) - {'key', 'reverse'}) or (obj.nd and k):
                    raise Unsupported('sort with options')
                r = _lib.b_sorted(I_, [obj], k)
                st.note_write(obj)
                st.heap[obj] = list(st.heap[r])
                return None
            return B(sort_)
        if name in ('sort', 'reverse', 'remove', 'count'):
            raise Unsupported('list.%s' % name)
        if name in ('sum', 'max', 'min', 'any', 'all', 'ravel', 'flatten', 'mean') and obj.nd:
            f = lib_lookup(I, 'numpy.' + name)
            return B(lambda I_, a, k: I_.call(f, [obj] + a, k))
        if name == '__len__':
            return B(lambda I_, a, k: list_len(I_, obj))
        if name == '__getitem__':
            return B(lambda I_, a, k: getitem(I_, obj, a[0]))
        if name == '__setitem__':
            return B(lambda I_, a, k: setitem(I_, obj, a[0], a[1]))
        if name == '__iter__':
            return B(lambda I_, a, k: IterV(obj))
        if name == '__contains__':
            return B(lambda I_, a, k: contains(I_, obj, a[0]))
        # an attribute python lists / numpy arrays really have but this model does not cover is NOT an AttributeError
        # (hasattr / getattr-with-default in the analysed code must not take the wrong branch silently)
        if name in _LIST_ATTRS or (obj.nd and name in _NDARRAY_ATTRS):
            raise Unsupported('%s.%s' % ('ndarray' if obj.nd else 'list', name))
        raise PyExc('AttributeError', name)
    if kind == 'dict':
        cell = st.heap[obj]
        if name == 'update':
            def upd(I_, a, k):
                st.note_write(obj)
                for src in a:
                    for kk, vv in dict_cell(I_, src).items():
                        setitem(I_, obj, kk, vv)
                for kk, vv in k.items():
                    setitem(I_, obj, kk, vv)
                return None
            return B(upd)
        if name == 'items' or name == 'iteritems':
            return B(lambda I_, a, k: _DictItems(dict(cell)))
        if name == 'values':
            return B(lambda I_, a, k: _DictValues(dict(cell)))
        if name == 'keys':
            return B(lambda I_, a, k: tuple(cell.keys()))
        if name == 'get':
            def get(I_, a, k):
                for kk, vv in cell.items():
                    if _same(kk, hkey(a[0])):
                        return vv
                return a[1] if len(a) > 1 else None
            return B(get)
        if name == 'pop':
            def pop(I_, a, k):
                for kk in list(cell.keys()):
                    if _same(kk, hkey(a[0])):
                        st.note_write(obj)
                        return cell.pop(kk)
                if len(a) > 1:
                    return a[1]
                raise PyExc('KeyError')
            return B(pop)
        if name == 'copy':
            return B(lambda I_, a, k: st.alloc('dict', dict(cell)))
        if name == 'popitem':
            def popitem(I_, a, k):
                if not cell:
                    raise PyExc('KeyError', 'popitem(): dictionary is empty')
                st.note_write(obj)
                kk = list(cell.keys())[-1]          # LIFO, as dict.popitem since python 3.7
                return (kk, cell.pop(kk))
            return B(popitem)
        if name == 'setdefault':
            def sd(I_, a, k):
                for kk, vv in cell.items():
                    if _same(kk, hkey(a[0])):
                        return vv
                setitem(I_, obj, a[0], a[1] if len(a) > 1 else None)
                return a[1] if len(a) > 1 else None
            return B(sd)
        raise PyExc('AttributeError', name)
    if kind == 'set':
        cell = st.heap[obj]
        if name == 'add':
            def add(I_, a, k):
                st.note_write(obj)
                if not any(_same(hkey(a[0]), y) for y in cell):
                    cell.append(hkey(a[0]))
            return B(add)
        def _concrete_keys(vals):
            ks = [hkey(v) for v in vals]
            if any(isinstance(v, SV) for v in ks) or any(isinstance(v, SV) for v in cell):
                raise Unsupported('set operation on symbolic elements')
            return ks

        def _has(coll, y):
            return any(_same(y, z) for z in coll)
        if name == 'update':
            def upd(I_, a, k):
                st.note_write(obj)
                for src in a:
                    items = concrete_iter(I_, src)
                    if items is None:
                        raise Unsupported('set.update from a symbolic sequence')
                    for y in _concrete_keys(items):
                        if not _has(cell, y):
                            cell.append(y)
                return None
            return B(upd)
        if name in ('discard', 'remove'):
            def disc(I_, a, k):
                st.note_write(obj)
                y = _concrete_keys([a[0]])[0]
                hit = [z for z in cell if _same(y, z)]
                if not hit and name == 'remove':
                    raise PyExc('KeyError')
                for z in hit:
                    cell.remove(z)
                return None
            return B(disc)
        if name in ('union', 'difference', 'intersection'):
            def comb(I_, a, k):
                other = []
                for src in a:
                    items = concrete_iter(I_, src)
                    if items is None:
                        raise Unsupported('set.%s with a symbolic sequence' % name)
                    other.extend(_concrete_keys(items))
                _concrete_keys([])
                if name == 'union':
                    out = list(cell) + [y for n_, y in enumerate(other) if not _has(cell, y) and not _has(other[:n_], y)]
                elif name == 'difference':
                    out = [z for z in cell if not _has(other, z)]
                else:
                    out = [z for z in cell if _has(other, z)]
                return st.alloc('set', out)
            return B(comb)
        if name == 'copy':
            return B(lambda I_, a, k: st.alloc('set', list(cell)))
        raise PyExc('AttributeError', name)
    raise Unsupported('method %s of %r' % (name, obj))


def dtype_name(t):
    """a dtype argument -> 'int' | 'float' | 'bool' | None (not given)"""
    if t is None:
        return None
    if isinstance(t, TypeTag):
        n = {'float': 'float', 'int': 'int', 'Integral': 'int', 'bool': 'bool'}.get(t.name)
    elif isinstance(t, str):
        n = {'float64': 'float', 'float': 'float', 'float32': 'float', 'd': 'float', 'f': 'float', 'f8': 'float', 'double': 'float',
             'int': 'int', 'int64': 'int', 'int32': 'int', 'i': 'int', 'i8': 'int', 'bool': 'bool'}.get(t)
    else:
        n = None
    if n is None:
        raise Unsupported('dtype %r' % (t,))
    return n


def _astype(I, obj, t):
    dt = dtype_name(t)
    r = snapshot_copy(I, obj)
    if dt in ('int', 'float'):
        c = cast_value(I, r, dt)
        if c is not r:
            c.nd = True
            _deep_nd(I, c)
        return c
    if dt == 'bool' and r.kind == 'clist':
        def tobool(v):
            if is_list(v):
                return I.st.alloc('clist', [tobool(y) for y in I.st.heap[v]], nd=True)
            if numkind(v) == 'bool':
                return v
            if numkind(v) is None:
                raise Unsupported('astype(bool) of %r' % (v,))
            c = compare(I, ast.NotEq(), v, 0)
            return c
        return tobool(r)
    raise Unsupported('astype(%s)' % dt)


def _deep_nd(I, r):
    if r.kind == 'clist':
        for x in I.st.heap[r]:
            if is_list(x):
                x.nd = True
                _deep_nd(I, x)


def snapshot_copy(I, obj):
    if obj.kind == 'clist':
        return I.st.alloc('clist', [snapshot_copy(I, x) if (is_list(x) and obj.nd) else x for x in I.st.heap[obj]], nd=obj.nd)
    return I.st.alloc('slist', dict(I.st.heap[obj]), nd=obj.nd)


def tolist(I, obj):
    if obj.kind == 'clist':
        return I.st.alloc('clist', [tolist(I, x) if is_list(x) else x for x in I.st.heap[obj]], nd=False)
    return I.st.alloc('slist', dict(I.st.heap[obj]), nd=False)


def _index_of(I, items, x, obj=None):
    if items is None:
        raise Unsupported('index() on symbolic list')
    for k, y in enumerate(items):
        e = compare(I, ast.Eq(), y, x) if (numkind(x) is not None and numkind(y) is not None) else _same(hkey(y), hkey(x))
        if I.truth(e):
            return k
    raise PyExc('ValueError', 'not in list')


def str_method(I, s, name):
    def B(f):
        return Builtin('str.%s' % name, f)
    if isinstance(s, SStr):
        if name == 'split' and _atoms(s):
            def split(I_, a, k):
                sep, names = _atoms(s)
                if len(a) != 1 or a[0] != sep:
                    raise Unsupported('split of a token string by another separator')
                return I_.st.alloc('clist', [SStr(nm, nonempty=True, parts=('atoms', sep, [nm])) for nm in names])
            return B(split)
        if name in ('split', 'startswith', 'join', 'strip', 'replace', 'format', 'endswith', 'lower', 'upper'):
            raise Unsupported('string algebra on opaque string (.%s)' % name)
        raise PyExc('AttributeError', name)
    if name == 'join':
        def join(I_, a, k):
            items = concrete_iter(I_, a[0])
            if items is None:
                raise Unsupported('join of symbolic sequence')
            if all(isinstance(x, str) for x in items):
                return s.join(items)
            if items and all(_atoms(x) is not None and _atoms(x)[0] == s for x in items):
                names = []
                for x in items:
                    names.extend(_atoms(x)[1])
                return SStr(I_.st.fresh_name('join'), nonempty=True, parts=('atoms', s, names))
            if not all(isinstance(x, (str, SStr)) for x in items):
                raise PyExc('TypeError', 'join of non-strings')
            ne = any((x.nonempty if isinstance(x, SStr) else bool(x)) for x in items) or (len(items) > 1 and bool(s))
            return SStr(I_.st.fresh_name('join'), nonempty=ne, parts=('join', s, items))
        return B(join)
    if name in ('split', 'rsplit', 'partition', 'rpartition', 'startswith', 'endswith', 'strip', 'replace', 'lower', 'upper', 'lstrip', 'rstrip', 'find', 'rfind', 'count', 'format', 'splitlines'):
        def meth(I_, a, k):
            if all(isinstance(x, (str, int, type(None), tuple)) for x in a):
                r = __builtins__['getattr'](s, name)(*a) if isinstance(__builtins__, dict) else __import__('builtins').getattr(s, name)(*a)
                if isinstance(r, list):
                    return I_.st.alloc('clist', r)
                return r
            raise Unsupported('str.%s with symbolic argument' % name)
        return B(meth)
    raise Unsupported('str.%s' % name)


from .lib import *        # noqa: E402,F401  (builtins and library models)
