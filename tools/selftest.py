#!/usr/bin/env python3
"""Mutation self-test of the deductive layer (developer tool; results in selftest_results.json, table in DESIGN 11.2).

Each entry is a one-token / one-line change of a function under contract, applied to a SCRATCH COPY of /repo/mystic
(never to /repo), followed by `./check <property> --only <contract id part>` with PYVC_REPO / PYTHONPATH pointing at the
copy: the named obligation must turn from discharged into a reported violation.  Complements the seeded changes of
section 11 (which were written without knowledge of the contracts) with changes aimed at single contracts.

  tools/selftest.py [-j 4] [name-substring]
"""
import sys, os, json, shutil, subprocess, tempfile, argparse
from concurrent.futures import ThreadPoolExecutor

HERE = os.path.dirname(os.path.dirname(os.path.abspath(__file__)))

M = [  # (name, file, old, new, property, --only, substring expected in a VIOLATION line)
    ('setinitialpoints-guess-into-member-1', 'mystic/abstract_solver.py', 'self.population[0][:] = x0.tolist()', 'self.population[1][:] = x0.tolist()', 'C01', 'C01/SetInitialPoints', 'the-guess-is-member-0'),
    ('setinitialpoints-box-twice-as-wide-above', 'mystic/abstract_solver.py', 'max = x0*(1+radius)', 'max = x0*(1+2*radius)', 'C01', 'C01/SetInitialPoints', 'the-sampling-box-is-the-radius-box'),
    ('unpair-limits-swapped', 'mystic/tools.py', 'pairsT = asarray(pairs).transpose()', 'pairsT = asarray(pairs).transpose()[::-1]', 'C02', 'tools.unpair', 'every-parameter-keeps-its-own-limits'),
    ('monitor-record-by-reference', 'mystic/monitors.py', 'self._x.append(listify(x))', 'self._x.append(x)', 'C20', 'Monitor.__call__', 'stored-parameters-are-a-copy'),
    ('monitor-k-dropped', 'mystic/monitors.py', 'self._y.append(listify(self._k(y, _type)))', 'self._y.append(listify(y))', 'C20', 'Monitor.__call__', 'new-record-holds-k-times-y'),
    ('monitor-k-ratio-inverted', 'mystic/monitors.py', '_ik = _kdiv(monitor.k, self.k, float)', '_ik = _kdiv(self.k, monitor.k, float)', 'C20', 'Monitor.', 'visible-costs'),
    ('monitor-prepend-reversed', 'mystic/monitors.py', '[self._id.insert(*i) for i in enumerate(monitor._id)]', '[self._id.insert(0, i[1]) for i in enumerate(monitor._id)]', 'C20', 'Monitor.prepend', 'inv-preserve'),
    ('listify-drops-last', 'mystic/tools.py', '    return [listify(i) for i in x]', '    return [listify(i) for i in x][:-1]', 'C20', 'Monitor.__call__', 'new-record-holds-x'),
    ('pack-order', 'mystic/math/measures.py', '      recurse(next - 1)', '      recurse(next - 1) if next else _samples.append(tuple(currentx[::-1]))', 'C19', 'C19/_', 'cartesian-product'),
    ('unpack-stride', 'mystic/math/measures.py', '[:currentindex:lastindex])', '[:currentindex+1:lastindex])', 'C19', 'C19/_', 'unpack-of-pack'),
    ('variance-scale-not-rooted', 'mystic/math/measures.py', '  scale = sqrt(float(v) / sv)', '  scale = float(v) / sv', 'C18', 'C18/impose', 'requested-variance-reached'),
    ('weighted-mean-divides-by-count', 'mystic/math/measures.py', '    wts = float(sum(weights))', '    wts = float(len(weights))', 'C18', 'C18/', 'mean'),
    ('expectation-drops-negative-weights', 'mystic/math/measures.py', 'yw = [(f(x),w) for (x,w) in zip(samples, weights) if abs(w) > tol]\n  return mean(*zip(*yw))',
     'yw = [(f(x),w) for (x,w) in zip(samples, weights) if w > tol]\n  return mean(*zip(*yw))', 'C18', 'C18/expectation', 'textbook-weighted-expectation'),
    ('bootstrap-ignores-liveness', 'mystic/abstract_solver.py', '(ExtraArgs is None or ExtraArgs is _args) and self._live:', '(ExtraArgs is None or ExtraArgs is _args):', 'C02', 'bootstrap', 'stored-objective-reused-only-while-live'),
    ('powell-gen0-unconstrained', 'mystic/scipy_optimize.py', "            x = asarray(constraints(x), dtype='float64')\n            N = len(x)", '            N = len(x)', 'C01', 'Powell._Step/generation=0', 'constrained-guess'),
    ('powell-linesearch-without-cap', 'mystic/scipy_optimize.py', '                    fval, x, direc1 = _linesearch_powell(cost, x, direc1, tol=xtol*100, maxiter=imax)', '                    fval, x, direc1 = _linesearch_powell(cost, x, direc1, tol=xtol*100)', 'C08', 'generation>1', 'every-line-search'),
    ('powell-bookkeeping-keeps-old-fx', 'mystic/scipy_optimize.py', '            fx = fval', '            fx = fx', 'C08', 'generation=1', 'bookkeeping'),
    ('nm-initial-simplex-offset', 'mystic/scipy_optimize.py', '                y[k] = val[k]', '                y[k] = val[0]', 'C08', 'generation=1', 'each-new-vertex'),
    ('nm-simplex-outside-ranges', 'mystic/scipy_optimize.py', '        val[val>hi] = hi[val>hi]', '        val[val>hi] = hi[val>hi] + 1', 'C02', 'setSimplex', 'offsets-inside-the-ranges'),
    ('deepcopy-stays-live', 'mystic/abstract_solver.py', '        result._live = False\n        return result', '        return result', 'C06', 'deepcopy', 'rebuilds-its-objective'),
    ('deepcopy-shallow', 'mystic/abstract_solver.py', '                    setattr(result, k, copy.deepcopy(v, memo))', '                    setattr(result, k, copy.copy(v))', 'C06', 'deepcopy', 'no-mutable-state-shared'),
    ('setpenalty-does-not-invalidate', 'mystic/abstract_solver.py', '            self._penalty = penalty\n        return self._update_objective()', '            self._penalty = penalty\n        return', 'C07', 'C07/Set', 'objective-marked-stale'),
    ('setranges-resets-reducer', 'mystic/abstract_solver.py', '        self._useTightRange = tight', '        self._useTightRange = tight; self._reducer = None', 'C07', 'C07/Set', 'every-other-attribute-untouched'),
    ('ensemble-tie-break', 'mystic/abstract_ensemble_solver.py', '            if solver.bestEnergy <= energy:', '            if solver.bestEnergy < energy:', 'C07', 'independent', 'same-best-member'),
    ('ensemble-member-without-penalty', 'mystic/abstract_ensemble_solver.py', '        solver.SetPenalty(self._penalty)', '        pass', 'C09', 'get_solver_instance', 'termination-constraints-penalty'),
    ('lattice-first-cell-at-edge', 'mystic/ensemble.py', '(j+0.5)*step', '(j+0.5)*step if j else lower[i]', 'C09', 'Lattice', 'centre-of-its-own-cell'),
    ('gridpts-aliased-rows', 'mystic/math/grid.py', '      if j: w += [i[:] for i in w[:]*(len(q[j-1])-1)]', '      if j: w += [i for i in w[:]*(len(q[j-1])-1)]', 'C09', 'gridpts', 'full-cartesian-product'),
    ('diffev-warnflag-comparator', 'mystic/differential_evolution.py', '    if fcalls >= solver._maxfun:\n        warnflag = 1\n        if disp:', '    if fcalls > solver._maxfun:\n        warnflag = 1\n        if disp:', 'C05', 'C05/diffev', 'warnflag-names-a-limit'),
    ('impose_at-off-by-one', 'mystic/constraints.py', '            x[[i for i in index if i < len(x)]] = target', '            x[[i for i in index if i < len(x)-1]] = target', 'C16', 'C16/', 'pinned-entries'),
    ('partial-shifted-index', 'mystic/tools.py', '                try: x[i] = j\n                except IndexError: pass', '                try: x[i-1] = j\n                except IndexError: pass', 'C16', 'C16/tools', 'addressed-entries-fixed'),
    ('collapse-target-zero-is-falsy', 'mystic/abstract_solver.py', '                if t is None:\n                    t = cn.impose_at(*to.select_params(self,collapses[k]))', '                if not t:\n                    t = cn.impose_at(*to.select_params(self,collapses[k]))', 'C11', 'collapse-constraints', 'exactly-at-their-target'),
    ('product-weights-summed', 'mystic/math/discrete.py', '      _weights.append(product(wts))', '      _weights.append(sum(wts))', 'C19', 'weights-positions', 'point-weights-are-products'),
    ('flatten-positions-first', 'mystic/math/discrete.py', 'rv = [(i.weights,i.positions) for i in c]', 'rv = [(i.positions,i.weights) for i in c]', 'C19', 'flatten-unflatten', 'flatten-is-weights-then-positions'),
    ('pof-strict', 'mystic/math/discrete.py', '      if f(x[0]) <= 0.0:', '      if f(x[0]) < 0.0:', 'C19', 'expect-pof', 'pof-is-the-total-weight'),
    ('mask-replaced-not-extended', 'mystic/mask.py', "        kwds['mask'].update(mask)", "        kwds['mask'] = mask", 'C11', '_extend_mask', 'mask-is-the-union'),
    ('collapse-applied-despite-other-stop', 'mystic/abstract_solver.py', 'stop = not all(k.startswith("Collapse") for k in stop.split("; "))', 'stop = not any(k.startswith("Collapse") for k in stop.split("; "))', 'C11', 'get_collapses', 'nothing-applied-when-another-stop'),
    ('generate_penalty-type-from-doc', 'mystic/symbolic.py', "            if 'inequality' in condition.__name__: ", "            if 'inequality' in condition.__doc__: ", 'C14', 'generate_penalty', 'sum-of-one-quadratic-term'),
    ('rounded-choice-swapped', 'mystic/constraints.py', '            xp = choose(mask, (x,xp)).astype(float)\n            return f(xtype(xp), *args, **kwds)\n        func.index = _index\n        func.digits = _digits',
     '            xp = choose(mask, (xp,x)).astype(float)\n            return f(xtype(xp), *args, **kwds)\n        func.index = _index\n        func.digits = _digits', 'C16', 'constraints.rounded', 'selected-entries-rounded'),
    ('ensemble-terminated-any-member', 'mystic/abstract_ensemble_solver.py', '            if False in end: return no', '            if not any(end): return no', 'C05', 'ensemble.Terminated', 'not-terminated-while-a-member-runs'),
    ('ensemble-total-from-best', 'mystic/ensemble.py', '    all_fcalls = solver._total_evals', '    all_fcalls = solver.evaluations', 'C09', 'C09/lattice', 'total-evaluation-count'),
    ('buckshot-one-point-short', 'mystic/ensemble.py', '        return samplepts(lower,upper,npts, self._dist)', '        return samplepts(lower,upper,npts-1, self._dist)', 'C09', 'Buckshot', 'exactly-as-many-members'),
    ('timelimits-reset-noop', 'mystic/termination.py', '        start[0] = timer()\n    delta', '        pass\n    delta', 'C10', 'TimeLimits', 'one-clock-reading'),
    ('stop-without-finalize', 'mystic/abstract_solver.py', "            if self.Terminated(): # then cleanup/finalize\n                self.Finalize()\n", "", 'C05', 'C05/Step', 'stopped-solver-is-finalized'),
    ('monitor-slice-reversed', 'mystic/monitors.py', '            m._y = self._y[y]', '            m._y = self._x[y]', 'C20', 'Monitor.slice', 'holds-exactly-the-sliced-records'),
    ('collapse_at-strict-tolerance', 'mystic/collapse.py', 'params = np.ptp(params, axis=0) <= tolerance', 'params = np.ptp(params, axis=0) < tolerance', 'C11', 'C11/collapse_at', 'within-tolerance'),
    ('collapse_at-target-min', 'mystic/collapse.py', 'else: params = abs(params - target).max(axis=0) <= tolerance', 'else: params = abs(params - target).min(axis=0) <= tolerance', 'C11', 'C11/collapse_at', 'within-tolerance'),
    ('collapse_as-index-mask-needs-both', 'mystic/collapse.py', 'return lambda x: (int(x[0]) in mask or int(x[1]) in mask)', 'return lambda x: (int(x[0]) in mask and int(x[1]) in mask)', 'C11', 'C11/collapse_as', 'masked-pairs'),
    ('collapse_as-offset-uses-min', 'mystic/collapse.py', '        distances = np.ptp(distances, axis=0) <= tolerance', '        distances = distances.min(axis=0) <= tolerance', 'C11', 'C11/collapse_as', 'within-tolerance'),
    ('pairwise-includes-diagonal', 'mystic/tools.py', 'idx = np.triu_indices(x.shape[-1],k=1)', 'idx = np.triu_indices(x.shape[-1],k=0)', 'C11', 'C11/collapse_as', 'nothing-but-parameter-pairs'),
    ('collapse_weight-set-mask-ignored', 'mystic/collapse.py', '        selector = lambda x: x - mask\n    elif type(mask) is dict', '        selector = lambda x: x\n    elif type(mask) is dict', 'C11', 'C11/collapse_weight', 'masked-weights'),
    ('collapse_position-dict-mask-one-orientation', 'mystic/collapse.py', "j - _symmetric((mask[i] if i in mask else set()))", "j - (mask[i] if i in mask else set())", 'C11', 'C11/collapse_position', 'masked-position-pairs'),
    ('collapse-condition-drops-mask', 'mystic/termination.py', '        collapsed = ct.collapse_at(inst._stepmon, **kwds)', '        collapsed = ct.collapse_at(inst._stepmon, tolerance=tolerance, generations=generations, target=target)', 'C11', 'termination.CollapseAt', 'own-settings'),
    ('collapse-cost-constraint-dropped', 'mystic/abstract_solver.py', '        conditions.extend(conditions_)', '        pass', 'C11', 'routing', 'chained-around'),
    ('bounded-nearest-is-farthest', 'mystic/constraints.py', 'seq[at] = _clip(seq_at, *(b[abs(seq_at.reshape(-1,1)-b).argmin(axis=1)] for b in bounds))', 'seq[at] = _clip(seq_at, *(b[abs(seq_at.reshape(-1,1)-b).argmax(axis=1)] for b in bounds))', 'C16', 'clip-to-nearest', 'outer-end'),
    ('bounded-upper-end-exclusive', 'mystic/constraints.py', '(lo <= seq)&(seq <= hi) for (lo,hi) in bounds.T', '(lo <= seq)&(seq < hi) for (lo,hi) in bounds.T', 'C16', 'redraw-inside', 'entries-inside-an-interval-unchanged'),
    ('impose_bounds-not-chained', 'mystic/constraints.py', 'xp = bounded(xp, bounds[i], i, clip[0], nearest[0])', 'xp = bounded(x, bounds[i], i, clip[0], nearest[0])', 'C16', 'constraints.impose_bounds', 'chained'),
    ('boundsconstrain-min-twice', 'mystic/constraints.py', '        cons = dict((i,j) for (i,j) in enumerate(zip(min, max)))', '        cons = dict((i,j) for (i,j) in enumerate(zip(min, min)))', 'C02', 'boundsconstrain', 'interval-i'),
    ('boundsconstraints-and-for-or', 'mystic/abstract_solver.py', '        if not self._useStrictRange or ignore:', '        if not self._useStrictRange and ignore:', 'C02', '_boundsconstraints', 'identity-when'),
    ('discrete-tie-goes-up', 'mystic/constraints.py', '        if hi - xi < xi - lo: ', '        if hi - xi <= xi - lo: ', 'C16', 'constraints.discrete', 'lower-member-on-a-tie'),
    ('suppress-inclusive', 'mystic/tools.py', '    mask = abs(x) < tol', '    mask = abs(x) <= tol', 'C16', 'suppressed', 'tools.suppressed'),
    ('insert_missing-unsorted', 'mystic/tools.py', '    for (k,v) in sorted(_mask.items()):', '    for (k,v) in _mask.items():', 'C16', 'tools.masked', 'masked-values-inserted'),
    ('lagrange-clip-with-unscaled-k', 'mystic/penalty.py', '                beta += 2.*_k*max(-beta/(2.*_k), stored(i))', '                beta += 2.*_k*max(-beta/(2.*k), stored(i))', 'C15', 'multiplier-recurrence', 'documented-augmented-lagrangian'),
    ('nm-options-not-written-back', 'mystic/scipy_optimize.py', "        self.adaptive = settings['adaptive']", "        pass", 'C06', 'NelderMead._process_inputs', 'adaptive-as-given'),
    ('powell-direc-keeps-dtype', 'mystic/scipy_optimize.py', '                direc = asarray(direc, dtype=float)', '                direc = asarray(direc)', 'C08', 'direction-set', 'float-array'),
    ('load-replaces', 'mystic/math/discrete.py', '    self.extend( unflatten(params, pts) )', '    self[:] = unflatten(params, pts)', 'C19', 'load/appends', 'piecewise-load'),
    ('compound-single-member-unwrapped', 'mystic/termination.py', "    if isinstance(args, When) or not getattr(args, '__len__', None): args = [args]\n    #XXX: check if every arg in args has __module__ == self.__module__ ?\n    return tuple.__new__(self, args)\n\n  def __repr__(self):\n    return \"And%s\"",
     "    if not getattr(args, '__len__', None): args = [args]\n    #XXX: check if every arg in args has __module__ == self.__module__ ?\n    return tuple.__new__(self, args)\n\n  def __repr__(self):\n    return \"And%s\"", 'C10', 'compound-construction', 'members-are-exactly'),
    ('evaluations-from-monitor', 'mystic/abstract_solver.py', '        return self._fcalls[0] #len(self._evalmon) or self._fcalls[0]', '        return len(self._evalmon) or self._fcalls[0]', 'C07', 'C05/SetEvaluationLimits', 'own-call-counter'),
    ('genmon-null-drops-history', 'mystic/abstract_solver.py', "            self._stepmon = Monitor()  #XXX: don't allow Null\n            self._stepmon.prepend(current)", "            self._stepmon = Monitor()  #XXX: don't allow Null\n            self._stepmon.prepend(monitor)", 'C05', 'None-Null-or-the-same-monitor', 'every-record-collected-so-far'),
    ('ensemble-dump-before-reduce', 'mystic/abstract_ensemble_solver.py', "        self._AbstractEnsembleSolver__update_allSolvers(results)\n        del results\n        # update state from bestSolver\n        self._AbstractEnsembleSolver__update_state()\n\n        # log any termination messages",
     "        self._AbstractEnsembleSolver__update_allSolvers(results)\n        del results\n        self._AbstractSolver__save_state(force=True)\n        # update state from bestSolver\n        self._AbstractEnsembleSolver__update_state()\n\n        # log any termination messages", 'C06', '_Solve/member-hand-off', 'forced-restart-dump'),
    ('or_-aliased-fixed-point-test', 'mystic/constraints.py', '                ci = next(_constraints)(x[-n][:])', '                ci = next(_constraints)(x[-n])', 'C17', 'or_/in-place', 'fixed-point-of-some-member'),
]


def run_one(m):
    name, rel, old, new, prop, only, expect = m
    if new is None:
        return None
    d = tempfile.mkdtemp(prefix='selftest_', dir='/tmp')
    try:
        shutil.copytree('/repo/mystic', os.path.join(d, 'mystic'), ignore=shutil.ignore_patterns('*.pyc', '__pycache__'))
        p = os.path.join(d, rel)
        s = open(p).read()
        if s.count(old) < 1:
            return {'name': name, 'status': 'PATTERN-NOT-FOUND'}
        open(p, 'w').write(s.replace(old, new, 1))
        env = dict(os.environ, PYVC_REPO=d, PYTHONPATH=d, VERIF_OUTROOT=os.path.join(d, 'out'))
        try:
            r = subprocess.run(['./check', prop, '--tier', 'quick', '--only', only], cwd=HERE, env=env, capture_output=True, text=True, timeout=900)
        except subprocess.TimeoutExpired:
            return {'name': name, 'file': rel, 'property': prop, 'contracts': only, 'expected': expect, 'status': 'TIMEOUT', 'violations': []}
        vio = [l.split('obligation=')[1] for l in r.stdout.splitlines() if l.startswith('VIOLATION')]
        hit = [v for v in vio if expect in v]
        return {'name': name, 'file': rel, 'property': prop, 'contracts': only, 'expected': expect,
                'status': 'detected' if hit else ('other-violation' if vio else 'MISSED'), 'violations': vio[:4]}
    finally:
        shutil.rmtree(d, ignore_errors=True)


def main():
    ap = argparse.ArgumentParser()
    ap.add_argument('-j', type=int, default=4)
    ap.add_argument('filter', nargs='?', default='')
    a = ap.parse_args()
    ms = [m for m in M if a.filter in m[0]]
    with ThreadPoolExecutor(a.j) as ex:
        res = []
        for r in ex.map(run_one, ms):
            if r:
                res.append(r)
                print('%-38s %-16s %s' % (r['name'], r['status'], '; '.join(r.get('violations', []))[:150]), flush=True)
    if not a.filter:
        json.dump(res, open(os.path.join(HERE, 'selftest_results.json'), 'w'), indent=1)
    bad = [r for r in res if r['status'] != 'detected']
    print('%d mutations, %d detected by the expected obligation' % (len(res), len(res) - len(bad)))
    sys.exit(1 if bad else 0)


if __name__ == '__main__':
    main()
