#!/usr/bin/env python3
"""Developer tool: confirm a seeded change and run the registered checks against it.

  tools/seed_eval.py <PROP> <VARIANT> [--src /tmp/seed] [--skip-suite] [--checks C01,C03]

For /tmp/seed/<PROP>_<VARIANT>.patch.diff (+ _demo.py, _meta.json) it
  1. makes a scratch git worktree of /repo (outside /repo and /verif), applies the patch there,
  2. runs the demonstration on the unchanged library (must exit 0) and on the changed one (must fail),
  3. runs the pinned test suite on the changed tree (must have no pinned test missing),
  4. runs ./check <PROP> --tier quick (and any --checks) with PYVC_REPO/PYTHONPATH pointing at the scratch tree and
     VERIF_OUTROOT pointing at a scratch directory, so nothing of the unchanged tree's evidence is overwritten,
  5. writes /verif/seeded/<PROP>_<VARIANT>/{patch.diff, demo.py, meta.json} and removes the worktree.
Nothing is ever applied to /repo itself.
"""
import sys, os, json, subprocess, shutil, tempfile, argparse, time

HERE = os.path.dirname(os.path.dirname(os.path.abspath(__file__)))


def sh(cmd, env=None, cwd=None, timeout=3600):
    e = dict(os.environ)
    e.pop('PYTHONPATH', None)
    if env:
        e.update(env)
    t = time.time()
    p = subprocess.run(cmd, shell=True, cwd=cwd, env=e, capture_output=True, text=True, timeout=timeout)
    return p.returncode, (p.stdout + p.stderr), time.time() - t


def main():
    ap = argparse.ArgumentParser()
    ap.add_argument('prop')
    ap.add_argument('variant')
    ap.add_argument('--src', default='/tmp/seed')
    ap.add_argument('--skip-suite', action='store_true')
    ap.add_argument('--checks', default='')
    ap.add_argument('--tier', default='quick')
    a = ap.parse_args()
    tag = '%s_%s' % (a.prop, a.variant)
    patch = os.path.join(a.src, tag + '.patch.diff')
    demo = os.path.join(a.src, tag + '_demo.py')
    metaf = os.path.join(a.src, tag + '_meta.json')
    dest = os.path.join(HERE, 'seeded', tag)
    if not os.path.exists(patch) and os.path.exists(os.path.join(dest, 'patch.diff')):
        patch, demo, metaf = (os.path.join(dest, n) for n in ('patch.diff', 'demo.py', 'meta.json'))
    meta = {}
    if os.path.exists(metaf):
        try:
            meta = json.load(open(metaf))
        except Exception as e:      # noqa
            meta = {'meta_unreadable': str(e)}
    if 'author' in meta and 'confirmed' in meta:
        meta = meta['author']
    prev = {}
    if os.path.exists(os.path.join(dest, 'meta.json')):
        try:
            prev = json.load(open(os.path.join(dest, 'meta.json')))
        except Exception:      # noqa
            prev = {}
    wt = tempfile.mkdtemp(prefix='sv_%s_' % tag, dir='/tmp')
    os.rmdir(wt)
    out = {'property': a.prop, 'variant': a.variant, 'author': meta, 'confirmed': {}}
    try:
        rc, o, _ = sh('git -C /repo worktree add -q --detach %s HEAD' % wt)
        assert rc == 0, o
        if os.path.exists('/repo/mystic/__info__.py'):
            shutil.copy('/repo/mystic/__info__.py', os.path.join(wt, 'mystic', '__info__.py'))
        rc, o, _ = sh('git -C %s apply %s' % (wt, patch))
        out['confirmed']['patch_applies'] = (rc == 0)
        if rc != 0:
            out['confirmed']['patch_error'] = o[-500:]
            raise SystemExit('patch does not apply: ' + o)
        rc, o, _ = sh('git -C %s diff --stat' % wt)
        out['confirmed']['diffstat'] = o.strip().splitlines()[-1] if o.strip() else ''
        # 2. demonstration
        rc0, o0, t0 = sh('/venv/bin/python %s' % demo, cwd=os.path.dirname(demo), timeout=900)
        rc1, o1, t1 = sh('/venv/bin/python %s' % demo, env={'PYTHONPATH': wt}, cwd=os.path.dirname(demo), timeout=900)
        out['confirmed']['demo_on_unchanged'] = {'exit': rc0, 'secs': round(t0, 1)}
        out['confirmed']['demo_on_changed'] = {'exit': rc1, 'secs': round(t1, 1), 'tail': o1.strip()[-400:]}
        # 3. pinned suite
        if not a.skip_suite:
            jx = wt + '.junit.xml'
            rc, o, t = sh('/venv/bin/python -m pytest -q -p no:cacheprovider --timeout=900 --continue-on-collection-errors '
                          '--junitxml=%s > /dev/null 2>&1; %s/baseline_cmp.py %s' % (jx, HERE, jx),
                          env={'PYTHONPATH': wt}, cwd=wt, timeout=3600)
            out['confirmed']['pinned_suite'] = {'exit': rc, 'summary': o.strip().splitlines()[0] if o.strip() else '', 'secs': round(t)}
            if os.path.exists(jx):
                os.unlink(jx)
        # 4. checks
        outroot = wt + '.out'
        os.makedirs(outroot, exist_ok=True)
        res = {}
        for pid in [a.prop] + [c for c in a.checks.split(',') if c and c != a.prop]:
            rc, o, t = sh('./check %s --tier %s' % (pid, a.tier), env={'PYVC_REPO': wt, 'PYTHONPATH': wt, 'VERIF_OUTROOT': outroot},
                          cwd=HERE, timeout=3600)
            vio = [l for l in o.splitlines() if l.startswith('VIOLATION')]
            summ = [l for l in o.splitlines() if l.startswith(pid + ' tier=')]
            res[pid] = {'exit': rc, 'secs': round(t, 1), 'violations': [v[:400] for v in vio[:12]], 'n_violations': len(vio),
                        'summary': summ[0] if summ else o.strip()[-600:]}
        out['checks'] = res
        out['detected'] = any(r['exit'] == 1 and r['n_violations'] > 0 for r in res.values())
        shutil.rmtree(outroot, ignore_errors=True)
    finally:
        sh('git -C /repo worktree remove --force %s' % wt)
        shutil.rmtree(wt, ignore_errors=True)
        sh('git -C /repo worktree prune')
    if 'pinned_suite' not in out['confirmed'] and prev.get('confirmed', {}).get('pinned_suite'):
        out['confirmed']['pinned_suite'] = prev['confirmed']['pinned_suite']      # confirmed in an earlier run
    if not out.get('needs') and prev.get('needs'):
        out['needs'] = prev['needs']
    os.makedirs(dest, exist_ok=True)
    if os.path.abspath(patch) != os.path.abspath(os.path.join(dest, 'patch.diff')):
        shutil.copy(patch, os.path.join(dest, 'patch.diff'))
        shutil.copy(demo, os.path.join(dest, 'demo.py'))
    out['breaks'] = a.prop
    out['needs'] = meta.get('needs', '') or prev.get('needs', '')
    out['ran'] = ['tools/seed_eval.py %s %s' % (a.prop, a.variant)]
    json.dump(out, open(os.path.join(dest, 'meta.json'), 'w'), indent=1)
    c = out['confirmed']
    print('%s: demo unchanged=%s changed=%s suite=%s detected=%s  %s' % (
        tag, c.get('demo_on_unchanged', {}).get('exit'), c.get('demo_on_changed', {}).get('exit'),
        c.get('pinned_suite', {}).get('summary', 'skipped')[:60], out.get('detected'),
        {k: (v['exit'], v['n_violations']) for k, v in out.get('checks', {}).items()}))


if __name__ == '__main__':
    main()
