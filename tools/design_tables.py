#!/usr/bin/env python3
"""Regenerates the machine-written tables of DESIGN.md (between <!-- BEGIN:x --> / <!-- END:x --> markers) from
evidence/*.json, seeded/*/meta.json and known_findings.json, and writes obligations.lock.json (--lock).

  tools/design_tables.py            rewrite the tables in DESIGN.md
  tools/design_tables.py --lock     also rewrite obligations.lock.json from the current evidence files
"""
import sys, os, json, glob, re

HERE = os.path.dirname(os.path.dirname(os.path.abspath(__file__)))


def evidence():
    out = {}
    for p in sorted(glob.glob(os.path.join(HERE, 'evidence', 'C*.json'))):
        d = json.load(open(p))
        out[d['property_id']] = d
    return out


def table_status(ev):
    rows = ['| property | evidence level | obligations discharged / generated | by back end | functions under contract | bounded layer (cases / distinct non-trivial) | known findings reproduced | wall (quick) |',
            '|---|---|---|---|---|---|---|---|']
    for pid, d in ev.items():
        c = d['coverage']
        be = {}
        for o in c.get('obligation_list', []):
            if o['status'] == 'discharged':
                b = o.get('backend', 'z3').split(' (')[0]
                be[b] = be.get(b, 0) + 1
        b = c.get('bounded', {})
        rows.append('| %s | %s | %d / %d | %s | %d | %s | %s | %.0f s |' % (
            pid, d['level'], c.get('discharged', 0), c.get('obligations', 0),
            ', '.join('%s %d' % kv for kv in sorted(be.items())) or '-', len(c.get('functions_under_contract', [])),
            ('%s / %s' % (b.get('evaluations', '-'), b.get('distinct_nontrivial', '-'))) if b else '-',
            ', '.join(sorted(c.get('known_findings', {}))) or '-', d.get('wall_s', 0)))
    return '\n'.join(rows)


def table_functions(ev):
    rows = ['| property | functions of /repo executed symbolically under a contract |', '|---|---|']
    for pid, d in ev.items():
        fs = d['coverage'].get('functions_under_contract', [])
        if fs:
            rows.append('| %s | %s |' % (pid, ', '.join('`%s`' % f.replace('mystic/', '') for f in fs)))
    return '\n'.join(rows)


def table_seeded():
    rows = ['| change | breaks | what it changes | needs, in order to manifest | caught by (first obligations / clauses reported) |', '|---|---|---|---|---|']
    for p in sorted(glob.glob(os.path.join(HERE, 'seeded', '*', 'meta.json'))):
        m = json.load(open(p))
        tag = os.path.basename(os.path.dirname(p))
        a = m.get('author', {}) or {}
        vio = []
        for pid, c in (m.get('checks') or {}).items():
            for v in c.get('violations', [])[:3]:
                ob = v.split('obligation=')[-1].split(' ')[0]
                vio.append(ob)
        det = m.get('detected')
        how = ('; '.join('`%s`' % v[:110] for v in vio[:3]) + (' (+%d more)' % (sum(c.get('n_violations', 0) for c in m['checks'].values()) - 3)
               if sum(c.get('n_violations', 0) for c in m['checks'].values()) > 3 else '')) if det else \
            ('*rejected* -- ' + m['rejected'][:300] if m.get('rejected') else '**not detected**')
        summ = (a.get('summary') or '')[:260].replace('|', '\\|').replace('\n', ' ')
        needs = (m.get('needs') or a.get('needs') or '')[:260].replace('|', '\\|').replace('\n', ' ')
        rows.append('| %s | %s | %s | %s | %s |' % (tag, m.get('breaks', m.get('property')), summ, needs, how))
    return '\n'.join(rows)


def table_findings():
    d = json.load(open(os.path.join(HERE, 'known_findings.json')))
    rows = ['| id | property | status | what fails | matched obligation keys / repair commit |', '|---|---|---|---|---|']
    for f in d['findings']:
        rows.append('| %s | %s | %s | %s | %s |' % (f['id'], f['property'], f['status'], f['what'][:400].replace('|', '\\|'),
                                                   ('`' + '`, `'.join(f.get('match', [])) + '`') if f.get('match') else f.get('commit', '')))
    return '\n'.join(rows)


def main():
    ev = evidence()
    tables = {'status': table_status(ev), 'functions': table_functions(ev), 'seeded': table_seeded(), 'findings': table_findings()}
    p = os.path.join(HERE, 'DESIGN.md')
    s = open(p).read()
    for name, text in tables.items():
        pat = re.compile(r'(<!-- BEGIN:%s -->\n).*?(<!-- END:%s -->)' % (name, name), re.S)
        if pat.search(s):
            s = pat.sub(lambda m: m.group(1) + text + '\n' + m.group(2), s)
        else:
            print('marker %s not found in DESIGN.md' % name)
    open(p, 'w').write(s)
    if '--lock' in sys.argv:
        lock = {pid: sorted(o['obligation'] for o in d['coverage'].get('obligation_list', []) if o['status'] == 'discharged'
                            and 'known_finding' not in o)
                for pid, d in ev.items()}
        json.dump(lock, open(os.path.join(HERE, 'obligations.lock.json'), 'w'), indent=0)
        print('lock:', {k: len(v) for k, v in lock.items()})


if __name__ == '__main__':
    main()
