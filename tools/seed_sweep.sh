#!/bin/bash
# developer helper: run every check's quick tier for a range of VERIF_SEED values and list the alarms
#   tools/seed_sweep.sh <first> <last> [props...]        (writes sweep_<first>_<last>.txt in the current directory)
# at most $SWEEP_JOBS (default 3) checks at a time: each check already uses up to 16 processes
HERE="$(cd "$(dirname "$0")/.." && pwd)"
cd "$HERE"
A=$1; B=$2; shift 2
PROPS="${*:-C01 C02 C03 C04 C05 C06 C07 C08 C09 C10 C11 C12 C13 C14 C15 C16 C17 C18 C19 C20}"
[ -x .venv/bin/python ] || ./setup.sh
OUT="$HERE/sweep_${A}_${B}.txt"
: > "$OUT"
one() {
  s=$1; p=$2
  R=$(mktemp -d /tmp/sweep.XXXXXX)
  VERIF_SEED=$s VERIF_OUTROOT=$R ./check $p --tier quick > $R/log 2>&1
  rc=$?
  if [ $rc -ne 0 ]; then
    {
      echo "seed=$s $p exit=$rc"
      grep -E "^VIOLATION|CHECKER ERROR|Traceback|Error" $R/log | cut -c1-300 | sed "s/^/   seed=$s /"
      [ $rc -eq 3 ] && grep -A12 "CHECKER ERROR" $R/log | cut -c1-700 | head -40 | sed "s/^/      | /"
      grep -h -A3 '"detail"' $R/out/replay/$p/*.json 2>/dev/null | cut -c1-400 | head -12 | sed "s/^/      /"
    } >> "$OUT"
  fi
  rm -rf $R
}
export -f one
export OUT
for s in $(seq $A $B); do for p in $PROPS; do echo "$s $p"; done; done | xargs -P "${SWEEP_JOBS:-3}" -L 1 bash -c 'one $0 $1'
echo "done" >> "$OUT"
cat "$OUT"
