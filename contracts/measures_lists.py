"""C19: the list-level helpers behind flatten / load / unflatten of discrete measures
(mystic/math/measures.py: _nested, _nested_split, split_param, _pack, _unpack).

These functions only move items around, so each obligation is stated for ONE shape `npts` (enumerated: every shape
with 1-3 factors of 1-3 points, 39 shapes) and ALL parameter values of that shape (symbolic reals).  The recursion of
_pack / _unpack is bounded by the number of factors, so the interpreter simply follows it.  The classes
(measure, product_measure, scenario: subclasses of list holding point_mass objects) are outside the verifier's object
model and are decided by the bounded layer rtc/c19 (exhaustive over the same shapes)."""
import itertools
from pyvc.contract import contract

F = 'mystic/math/measures.py'
SHAPES = [s for d in (1, 2, 3) for s in itertools.product((1, 2, 3), repeat=d)]


def _shape(h):
    return h.choice('npts', SHAPES)


@contract('C19/_nested_split', ['C19'], F + '::_nested_split', samples=120)
def nested_split(h):
    """params = w_0 ++ x_0 ++ w_1 ++ x_1 ...  ->  ([w_0, w_1, ...], [x_0, x_1, ...])  and split_param = the flat versions"""
    npts = _shape(h)
    total = 2 * sum(npts)
    p = h.list_real('params', n=total)
    p0 = h.snapshot(p)
    w, x = h.call(h.get(F + '::_nested_split'), p, npts)
    off = 0
    ok_w, ok_x = [], []
    for i, n in enumerate(npts):
        ok_w.append('len(w[%d]) == %d and ' % (i, n) + ' and '.join('w[%d][%d] == p[%d]' % (i, j, off + j) for j in range(n)))
        ok_x.append('len(x[%d]) == %d and ' % (i, n) + ' and '.join('x[%d][%d] == p[%d]' % (i, j, off + n + j) for j in range(n)))
        off += 2 * n
    env = dict(w=w, x=x, p=p, p0=p0, nf=len(npts))
    h.check('one-weight-list-and-one-position-list-per-factor', 'len(w) == nf and len(x) == nf', **env)
    h.check('weights-are-the-first-half-of-each-factor-block', ' and '.join(ok_w), **env)
    h.check('positions-are-the-second-half-of-each-factor-block', ' and '.join(ok_x), **env)
    h.check('parameter-vector-unchanged', 'seq_eq(p, p0)', **env)


@contract('C19/_nested', ['C19'], F + '::_nested', samples=120)
def nested(h):
    npts = _shape(h)
    p = h.list_real('params', n=sum(npts))
    c = h.call(h.get(F + '::_nested'), p, npts)
    off, ok = 0, []
    for i, n in enumerate(npts):
        ok.append('len(c[%d]) == %d and ' % (i, n) + ' and '.join('c[%d][%d] == p[%d]' % (i, j, off + j) for j in range(n)))
        off += n
    h.check('consecutive-blocks-of-the-given-sizes', 'len(c) == nf and ' + ' and '.join(ok), c=c, p=p, nf=len(npts))


def _factors(h, npts):
    return [h.vec('s%d' % i, n) for i, n in enumerate(npts)]


def _product_order(npts):
    """documented order of _pack: the FIRST factor varies fastest"""
    return [tuple(reversed(t)) for t in itertools.product(*[range(n) for n in reversed(npts)])]


@contract('C19/_pack', ['C19'], F + '::_pack', samples=120)
def pack(h):
    """the product points are the full Cartesian product of the factors' points, each once, first factor fastest"""
    npts = _shape(h)
    fs = _factors(h, npts)
    samples = h.clist(fs)
    r = h.call(h.get(F + '::_pack'), samples)
    order = _product_order(npts)
    h.check('number-of-product-points', 'len(r) == n', r=r, n=len(order))
    conj = []
    for q, idx in enumerate(order):
        conj.append('len(r[%d]) == %d' % (q, len(npts)))
        for d, j in enumerate(idx):
            conj.append('r[%d][%d] == fs[%d][%d]' % (q, d, d, j))
    h.check('cartesian-product-in-the-documented-order', ' and '.join(conj), r=r, fs=samples)


@contract('C19/_unpack-inverts-_pack', ['C19'], F + '::_unpack', samples=120)
def unpack(h):
    npts = _shape(h)
    fs = _factors(h, npts)
    samples = h.clist(fs)
    packed = h.call(h.get(F + '::_pack'), samples)
    back = h.call(h.get(F + '::_unpack'), packed, npts)
    conj = ['len(back) == %d' % len(npts)]
    for d, n in enumerate(npts):
        conj.append('len(back[%d]) == %d' % (d, n))
        conj += ['back[%d][%d] == fs[%d][%d]' % (d, j, d, j) for j in range(n)]
    h.check('unpack-of-pack-gives-the-factors-back', ' and '.join(conj), back=back, fs=samples)
