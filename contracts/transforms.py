"""C16: the input-rewriting decorators of mystic/tools.py (partial, synchronized, clipped) and constraints.impose_at.

The mask / index argument is concrete per obligation (an enumerated family: single entry, several entries, negative
index, an index beyond the end), the vector x is symbolic (any length for partial / synchronized / clipped, lengths
0..4 for impose_at, whose fancy-index assignment is modelled per element) -- so each obligation is "this mask, every
vector".  The decorated function f is abstract and logs what it receives.  The numpy-based decorators are under
contract at fixed small sizes (three entries, all values) with the numpy pipeline executed by the interpreter: bounded /
impose_bounds (clip and re-draw modes, one or two intervals, open sides), discrete, integers / rounded / precision,
sorting / monotonic, with_mean / with_variance / with_spread / normalized, suppressed, masked.  `unique` (a set of symbolic
values) stays with the bounded layer rtc/c16."""
from pyvc.contract import contract

T = 'mystic/tools.py::'
K = 'mystic/constraints.py::'


def _norm(i, n):
    return i if i >= 0 else n + i


@contract('C16/tools.partial', ['C16'], T + 'partial.dec.func', samples=200)
def partial(h):
    """exactly the addressed entries are fixed at their values, everything else is untouched; an address beyond the end
    of the vector is skipped"""
    # (a mask is a dict: its keys come in insertion order, so the out-of-range one may well come first)
    keys = h.choice('mask_keys', [(0,), (1, 3), (-1,), (0, 2, 7), (7, 2, 0), (3, 1)])
    vals = [h.real('v%d' % j) for j in range(len(keys))]
    x = h.list_real('x')
    n = h.len(x)
    pos = [kk for kk in keys if kk >= 0]
    neg = [kk for kk in keys if kk < 0]
    # either every address is inside the vector, or the largest one is exactly one past its end (and is skipped)
    shorter = h.choice('vector', ['covers-every-address', 'one-address-past-the-end']) == 'one-address-past-the-end'
    if shorter and not pos:
        return
    if shorter:
        h.assume('n == top', n=n, top=max(pos))
    else:
        h.assume('n > top and n >= low', n=n, top=max(pos + [-1]), low=-min(neg + [0]))
    x0 = h.snapshot(x)
    f = h.fn('F', ret='real', log='calls')
    m = h.st.alloc('dict', dict(zip(keys, vals))) if h.is_sym() else dict(zip(keys, vals))
    func = h.call(h.call(h.get(T + 'partial'), m), f)
    h.call(func, x)
    calls = h.log('calls')
    h.check('decorated-function-called-once-with-a-vector-of-the-same-length', 'len(calls) == 1 and len(calls[0][0]) == n', calls=calls, n=n)
    y = calls[0][0]
    live = [(j, kk) for j, kk in enumerate(keys) if not (shorter and kk == max(pos))]
    for j, kk in live:
        h.check('addressed-entries-fixed', 'y[k] == v' if kk >= 0 else 'y[n + k] == v', y=y, n=n, k=kk, v=vals[j])
    other = ' and '.join(['q != %d' % kk for j, kk in live if kk >= 0] + ['q != n + (%d)' % kk for j, kk in live if kk < 0]) or 'True'
    h.check('other-entries-unchanged', 'forall(0, n, lambda q: implies(%s, y[q] == x0[q]))' % other, y=y, x0=x0, n=n)


@contract('C16/tools.synchronized', ['C16'], T + 'synchronized.dec.func', samples=200)
def synchronized(h):
    """x[i] tracks x[j] (one pair per obligation; plain index, constant scale, or a scaling function)"""
    i, j = h.choice('pair', [(0, 1), (2, 0), (1, 4)])
    kind = h.choice('tracked_as', ['index', 'scale', 'function'])
    x = h.list_real('x')
    n = h.len(x)
    h.assume('n > i and n > j', n=n, i=i, j=j)
    x0 = h.snapshot(x)
    f = h.fn('F', ret='real', log='calls')
    c = h.real('scale')
    g = h.fn('G', ret='real')
    tracked = j if kind == 'index' else (j, c) if kind == 'scale' else (j, g)
    if h.is_sym():
        m = h.st.alloc('dict', {i: tracked})
    else:
        m = {i: tracked}
    func = h.call(h.call(h.get(T + 'synchronized'), m), f)
    h.call(func, x)
    calls = h.log('calls')
    h.check('decorated-function-called-once', 'len(calls) == 1 and len(calls[0][0]) == n', calls=calls, n=n)
    y = calls[0][0]
    want = h.ev('x0[j]', x0=x0, j=j) if kind == 'index' else h.ev('c * x0[j]', c=c, x0=x0, j=j) if kind == 'scale' \
        else h.call(g, h.ev('x0[j]', x0=x0, j=j))
    h.check('tied-entry-equals-its-tracked-value', 'y[i] == want', y=y, i=i, want=want)
    h.check('other-entries-unchanged', 'forall(0, n, lambda q: implies(q != i, y[q] == x0[q]))', y=y, x0=x0, n=n, i=i)


@contract('C16/tools.clipped', ['C16'], T + 'clipped.dec.func', samples=200)
def clipped(h):
    """scalar bounds min <= max: every entry is clipped into [min, max], entries already inside are unchanged; applied to
    the input (exit=False) or to the result of the decorated function (exit=True)"""
    exit_ = h.choice('exit', [False, True])
    lo, hi = h.real('min'), h.real('max')
    h.assume('lo <= hi', lo=lo, hi=hi)
    x = h.list_real('x')
    n = h.len(x)
    x0 = h.snapshot(x)
    if exit_:
        f = h.fn('F', ret='same', log='calls')
    else:
        f = h.fn('F', ret='real', log='calls')
    func = h.call(h.call(h.get(T + 'clipped'), lo, hi, exit_), f)
    r = h.call(func, x)
    calls = h.log('calls')
    h.check('decorated-function-called-once', 'len(calls) == 1', calls=calls)
    if exit_:
        src = h.call(h.fn('F', ret='same'), x0)
        y = r
    else:
        src = x0
        y = calls[0][0]
    h.check('clipped-into-the-interval-and-unchanged-inside',
            'len(y) == n and forall(0, n, lambda q: y[q] == (lo if src[q] < lo else (hi if src[q] > hi else src[q])))',
            y=y, src=src, lo=lo, hi=hi, n=n)
    h.check('input-vector-not-modified', 'seq_eq(x, x0)', x=x, x0=x0)


@contract('C16/constraints.impose_at', ['C16', 'C11'], K + 'impose_at.dec.func', samples=200)
def impose_at(h):
    """the pinned entries equal the target exactly (a single value, or one value per index), an index beyond the end is
    skipped, every other entry is unchanged; list in -> list out"""
    index = h.choice('index', [(0,), (1, 3), (2, 0), (0, 5)])
    per_index = h.choice('target_per_index', [False, True])
    n = h.choice('n', [1, 2, 4, 6])
    if per_index and any(i >= n for i in index):
        return      # documented example aside, a target list longer than the surviving indices raises: finding F34
    x = h.vec('x', n)
    x0 = h.snapshot(x)
    t = h.real('target')
    ts = [h.real('target_%d' % j) for j in range(len(index))]
    target = h.clist(ts) if per_index else t
    f = h.fn('F', ret='real', log='calls')
    func = h.call(h.call(h.get(K + 'impose_at'), h.clist(list(index)), target), f)
    h.call(func, x)
    calls = h.log('calls')
    h.check('decorated-function-called-once', 'len(calls) == 1 and len(calls[0][0]) == n', calls=calls, n=n)
    y = calls[0][0]
    for j, i in enumerate(index):
        if i < n:
            h.check('pinned-entries-equal-the-target', 'y[i] == t', y=y, i=i, t=ts[j] if per_index else t)
    rest = [q for q in range(n) if q not in index]
    h.check('other-entries-unchanged', ' and '.join('y[%d] == x0[%d]' % (q, q) for q in rest) or 'True', y=y, x0=x0)
    h.check('input-vector-not-modified', 'seq_eq(x, x0)', x=x, x0=x0)


MASKS = [((0, 1),), ((0, 1), (0, 2)), ((0, 1), (3, 1)), ((0, 1), (2, 3)), ((0, 1), (3, 1), (2, 4)), ((1, 2), (2, 3)),
         ((0, 1), (2, 3), (1, 3)), ((0, 1), (2, 3), (1, 2)), ((0, 1), (2, 3), (0, 2))]     # two groups joined by a later pair


OFFSET_MASKS = MASKS[:6]


@contract('C16/constraints.impose_as', ['C16', 'C11'], K + 'impose_as.dec.func', samples=200)
def impose_as(h):
    """no offset; masks in the documented form (each pair (i, j) ties entry j to entry i; groups given root first):
    every tied entry equals its tracked partner (the group shares one of its own values), entries in no pair are unchanged, the caller's vector is not
    modified.  Masks outside that form and offsets are findings F35 / bounded."""
    mask = h.choice('mask', MASKS)
    n = 5
    x = h.vec('x', n)
    x0 = h.snapshot(x)
    f = h.fn('F', ret='real', log='calls')
    m = h.clist([h.tup(a, b) for a, b in mask]) if h.is_sym() else list(mask)
    with_offset = h.choice('offset', [False, True]) if mask in OFFSET_MASKS else False
    if with_offset:
        # "the tracked partner (+offset)": for every pair (i, j) entry j ends at entry i + offset (masks whose pairs ask for
        # nothing contradictory; the accumulation sub-cases on other masks are finding F35)
        off = h.real('offset_value')
        func = h.call(h.call(h.get(K + 'impose_as'), m, off), f)
        h.call(func, x)
        calls = h.log('calls')
        h.check('decorated-function-called-once', 'len(calls) == 1 and len(calls[0][0]) == n', calls=calls, n=n)
        y = calls[0][0]
        h.check('every-tracked-entry-is-its-partner-plus-the-offset', ' and '.join('y[%d] == y[%d] + off' % (b, a) for a, b in mask), y=y, off=off)
        rest = [q for q in range(n) if not any(q in pr for pr in mask)]
        h.check('entries-in-no-pair-unchanged', ' and '.join('y[%d] == x0[%d]' % (q, q) for q in rest) or 'True', y=y, x0=x0)
        h.check('input-vector-not-modified', 'seq_eq(x, x0)', x=x, x0=x0)
        return
    func = h.call(h.call(h.get(K + 'impose_as'), m), f)
    h.call(func, x)
    calls = h.log('calls')
    h.check('decorated-function-called-once', 'len(calls) == 1 and len(calls[0][0]) == n', calls=calls, n=n)
    y = calls[0][0]
    # groups: connected components of the pairs; the root is the first index mentioned for the component
    comp = {}
    order = []
    for a, b in mask:
        ra, rb = comp.get(a), comp.get(b)
        r = ra if ra is not None else rb if rb is not None else a
        for v in (a, b):
            if comp.get(v) is None:
                comp[v] = r
                order.append(v)
        if ra is not None and rb is not None and ra != rb:
            for v in list(comp):
                if comp[v] == rb:
                    comp[v] = ra
    tied = [(v, r) for v, r in comp.items() if v != r]
    # (the statement asks for equality with the tracked partner; WHICH member's value the group takes is not demanded)
    h.check('tied-entries-equal-their-tracked-partner', ' and '.join('y[%d] == y[%d]' % (v, r) for v, r in tied), y=y)
    h.check('the-common-value-is-one-of-the-groups-own-values',
            ' and '.join('(%s)' % ' or '.join('y[%d] == x0[%d]' % (r, u) for u in comp if comp[u] == r) for r in set(comp.values())), y=y, x0=x0)
    rest = [q for q in range(n) if q not in comp]
    h.check('entries-in-no-pair-unchanged', ' and '.join('y[%d] == x0[%d]' % (q, q) for q in rest) or 'True', y=y, x0=x0)
    h.check('input-vector-not-modified', 'seq_eq(x, x0)', x=x, x0=x0)


def _components(pairs):
    parent = {}

    def find(a):
        while parent.setdefault(a, a) != a:
            a = parent[a]
        return a
    for a, b in pairs:
        ra, rb = find(a), find(b)
        if ra != rb:
            parent[rb] = ra
    comps = {}
    for v in parent:
        comps.setdefault(find(v), set()).add(v)
    return list(comps.values())


def _pair_lists():
    import itertools
    import os
    idx = range(5)
    und = [(i, j) for i in idx for j in idx if i < j]
    out = [(p,) for p in und] + list(itertools.product(und, repeat=2))
    if os.environ.get('VERIF_TIER') == 'thorough':
        allp = [(i, j) for i in idx for j in idx if i != j]
        out += list(itertools.product(und, repeat=3)) + [a + b for a in itertools.product(allp[:12], repeat=2) for b in itertools.product(und[:5], repeat=2)][:3000]
    else:
        # every list of three pairs over four indices, both orientations of the last pair, plus merges of two groups by a fourth pair
        u4 = [(i, j) for i in range(4) for j in range(4) if i < j]
        out += [(a, b, c) for a in u4 for b in u4 for c in u4 + [(j, i) for i, j in u4]]
        out += [((0, 1), (2, 3), (4, 0), c) for c in und] + [((0, 1), (2, 3), c, (4, 1)) for c in und]
    return out


@contract('C16/tools.connected', ['C16', 'C11'], T + 'connected', native=False)
def connected(h):
    """connected(pairs) groups the indices by the connected components of the pair graph: one key per component, the
    key's set holds exactly the OTHER members of its component (impose_as / CollapseAs tie every member to the key)"""
    if not h.is_sym():
        h.unsupported('symbolic only (inputs are enumerated concrete pair lists)')
    pairs = h.choice('pairs', _pair_lists())
    r = h.call(h.get(T + 'connected'), h.clist([h.tup(a, b) for a, b in pairs]))
    cell = h.st.heap[r] if not isinstance(r, dict) else r
    got = []
    for k, v in cell.items():
        members = set(h.st.heap[v]) if not isinstance(v, (set, frozenset)) else set(v)
        got.append((k, members))
    comps = _components(pairs)
    ok_keys = all(sum(1 for k, _ in got if k in c) == 1 for c in comps) and len(got) == len(comps)
    ok_members = all(any(k in c and m == c - {k} for c in comps) for k, m in got)
    h.check('one-key-per-connected-component', 'ok', ok=ok_keys)
    h.check('each-keys-set-is-the-rest-of-its-component', 'ok', ok=ok_members)


# ---------------------------------------------------------------------------- with_mean / with_variance / with_spread / normalized
def _moment_decorator(h, which):
    """x' = impose_<moment>(target, c(x)) unless c(x) already conforms (|moment - target| <= 1e-18 + 1e-7 |target|, the
    library's almostEqual): the result has EXACTLY the target moment, or is c(x) itself when that already conforms; the
    decorated constraints function is applied once to the caller's vector.  n = 3, the moment transforms executed (their
    own contracts are in C18)"""
    from contracts.measures_moments import _mean, _var
    n = 3
    t = h.real('target')
    x = h.vec('x', n)
    returned = []
    if h.is_sym():
        pure = h.fn('CONSTRAINTS', ret='same', log='inner')

        def wrapped(H, I, a, k):
            returned.append(I.call(pure, list(a), dict(k)))       # remember the very object the inner function hands back
            return returned[-1]
        inner = h.fn('CONSTRAINTS_CALL', sym=wrapped)
    else:
        inner = h.fn('CONSTRAINTS', ret='same', log='inner')
    dec = h.call(h.get(K + which), t)
    f = h.call(dec, inner)
    c = h.call(h.fn('CONSTRAINTS', ret='same'), x)          # the value the inner constraints function returns for x
    stat = {'with_mean': _mean('c', n), 'with_variance': _var('c', n), 'with_spread': None, 'normalized': 'c[0] + c[1] + c[2]'}[which]
    env = dict(c=c, t=t)
    if which == 'with_variance':
        # non-degenerate samples, as for impose_variance; stated through the library's own variance (proved equal to
        # the textbook formula in C18/variance) so that the guard `if not sv` in impose_variance is decided syntactically
        v0 = h.call(h.get('mystic/math/measures.py::variance'), c)
        h.assume('t >= 0 and v0 > 0 and %s > 0' % stat, v0=v0, **env)
    if which == 'with_spread':
        h.assume('t >= 0 and c[0] <= c[1] and c[1] <= c[2] and c[0] < c[2]', **env)
        stat = 'c[2] - c[0]'
    if which == 'normalized':
        h.assume('t != 0 and c[0] + c[1] + c[2] != 0', **env)
        sgn = h.choice('negative_entries', [(a, b, d) for a in (False, True) for b in (False, True) for d in (False, True)])
        h.assume(' and '.join('c[%d] %s 0' % (i, '<' if neg else '>=') for i, neg in enumerate(sgn)), **env)
    y = h.call(f, x)
    calls = h.log('inner')
    h.check('decorated-constraints-applied-once-to-the-callers-vector', 'len(calls) == 1 and seq_eq(calls[0][0], x)', calls=calls, x=x)
    ystat = {'with_mean': _mean('y', n), 'with_variance': _var('y', n), 'with_spread': 'max(y[0], y[1], y[2]) - min(y[0], y[1], y[2])',
             'normalized': 'y[0] + y[1] + y[2]'}[which]
    conforms = 'abs(%s - t) <= 1e-18 + 1e-7 * abs(t)' % stat
    # the code either hands the inner result on as it is (then it must already conform) or imposes the target (then the
    # statistic of the result is the target): which of the two happened is visible on each path, so the obligation is one
    # plain statement per path (an equality the normal-form back end decides) instead of a disjunction
    unchanged = (len(returned) == 1 and y is returned[0]) if h.is_sym() else None
    if unchanged is True:
        h.check('target-reached-exactly-or-input-already-conforming-and-returned-unchanged', 'len(y) == 3 and (%s)' % conforms, y=y, **env)
    elif unchanged is False:
        h.check('target-reached-exactly-or-input-already-conforming-and-returned-unchanged', 'len(y) == 3 and %s == t' % ystat, y=y, **env)
    else:
        h.check('target-reached-exactly-or-input-already-conforming-and-returned-unchanged',
                'len(y) == 3 and ((%s == t) or ((%s) and seq_eq(y, c)))' % (ystat, conforms), y=y, **env)
    h.check('conforming-input-left-alone', 'implies(%s, seq_eq(y, c))' % conforms, y=y, **env)


for _w in ('with_mean', 'with_variance', 'with_spread', 'normalized'):
    contract('C16/constraints.%s' % _w, ['C16', 'C18'], K + _w + '.decorate.factory', samples=150)(lambda h, w=_w: _moment_decorator(h, w))


# ---------------------------------------------------------------------------- integers / rounded / precision
INDEX_CASES = [None, (0,), (1, 2), (2, 0), (-1,)]


def _selected(index, n):
    if index is None:
        return list(range(n))
    return sorted({i % n for i in index})


def _rounding(h, which):
    """selected entries go to the nearest integer (integers) / the nearest multiple of 10**-digits (rounded: of the
    input, precision: of the decorated function's output) -- distance at most half a unit, result a whole number of
    units -- and entries not selected are handed on unchanged; list in -> list out.  Indices within range
    (out-of-range members: finding F12); integers(ints=True) with an index is finding F11 (here: ints=False)."""
    n = 3
    index = h.choice('index', INDEX_CASES)
    digits = 0 if which == 'integers' else h.choice('digits', [0, 1, 2])
    x = h.vec('x', n)
    x0 = h.snapshot(x)
    idx = None if index is None else (h.clist(list(index)) if h.is_sym() else list(index))
    if which == 'precision':
        inner = h.fn('F', ret='same', log='calls')
        func = h.call(h.call(h.get(K + 'precision'), digits, idx), inner)
        y = h.call(func, x)
        src = h.call(h.fn('F', ret='same'), x0)
    else:
        inner = h.fn('F', ret='real', log='calls')
        if which == 'integers':
            func = h.call(h.call(h.get(K + 'integers'), False, idx), inner)
        else:
            func = h.call(h.call(h.get(K + 'rounded'), digits, idx), inner)
        h.call(func, x)
        calls = h.log('calls')
        h.check('decorated-function-called-once-with-a-vector-of-the-same-length', 'len(calls) == 1 and len(calls[0][0]) == n', calls=calls, n=n)
        y = calls[0][0]
        src = x0
    unit = 10 ** digits
    sel = _selected(index, n)
    for i in range(n):
        if i in sel:
            h.check('selected-entries-rounded-to-the-nearest-unit',
                    'abs(y[i] * u - s[i] * u) <= 0.5 and isint(y[i] * u)', y=y, s=src, i=i, u=unit)
        else:
            h.check('entries-not-selected-unchanged', 'y[i] == s[i]', y=y, s=src, i=i)
    h.check('conforming-input-left-alone',
            ' and '.join('implies(isint(s[%d] * u), y[%d] == s[%d])' % (i, i, i) for i in range(n)), y=y, s=src, u=unit)
    h.check('input-vector-not-modified', 'seq_eq(x, x0)', x=x, x0=x0)


for _w in ('integers', 'rounded', 'precision'):
    contract('C16/constraints.%s' % _w, ['C16'], K + _w + '.dec.func', samples=150)(lambda h, w=_w: _rounding(h, w))


# ---------------------------------------------------------------------------- sorting / monotonic
ORDER_INDEX = [None, (0, 2), (1, 2), (2, 0, 1)]


def _ordering(h, which):
    """sorting: the selected entries are rearranged into ascending / descending order IN their own positions (the result is
    a permutation of the input on those positions); monotonic: each selected entry is raised (lowered) to the running
    maximum (minimum) of the selected entries before it, so the selected entries are non-decreasing (non-increasing) and
    an entry already in order is unchanged.  Entries not selected are unchanged, the caller's vector is not modified,
    already-ordered input is left alone.  Inner mode (the transform is applied to the input of f)."""
    import itertools
    n = 3
    index = h.choice('index', ORDER_INDEX)
    asc = h.choice('ascending', [True, False])
    x = h.vec('x', n)
    x0 = h.snapshot(x)
    inner = h.fn('F', ret='real', log='calls')
    idx = None if index is None else (h.tup(*index) if h.is_sym() else tuple(index))
    func = h.call(h.call(h.get(K + which), asc, False, idx), inner)
    h.call(func, x)
    calls = h.log('calls')
    h.check('decorated-function-called-once-with-a-vector-of-the-same-length', 'len(calls) == 1 and len(calls[0][0]) == n', calls=calls, n=n)
    y = calls[0][0]
    sel = sorted(range(n) if index is None else set(index))
    rest = [i for i in range(n) if i not in sel]
    cmp = '<=' if asc else '>='
    h.check('selected-entries-in-order', ' and '.join('y[%d] %s y[%d]' % (a, cmp, b) for a, b in zip(sel, sel[1:])) or 'True', y=y)
    h.check('entries-not-selected-unchanged', ' and '.join('y[%d] == x0[%d]' % (i, i) for i in rest) or 'True', y=y, x0=x0)
    if which == 'sorting':
        perms = ['(%s)' % ' and '.join('y[%d] == x0[%d]' % (a, b) for a, b in zip(sel, p)) for p in itertools.permutations(sel)]
        h.check('selected-entries-are-a-rearrangement-of-the-input', ' or '.join(perms), y=y, x0=x0)
    else:
        ext = 'max' if asc else 'min'
        conj = ['y[%d] == x0[%d]' % (sel[0], sel[0])]
        for k in range(1, len(sel)):
            conj.append('y[%d] == %s(%s)' % (sel[k], ext, ', '.join('x0[%d]' % j for j in sel[:k + 1])))
        h.check('each-selected-entry-is-the-running-extreme-of-those-before-it', ' and '.join(conj), y=y, x0=x0)
    inorder = ' and '.join('x0[%d] %s x0[%d]' % (a, cmp, b) for a, b in zip(sel, sel[1:])) or 'True'
    h.check('conforming-input-left-alone', 'implies(%s, seq_eq(y, x0))' % inorder, y=y, x0=x0)
    h.check('input-vector-not-modified', 'seq_eq(x, x0)', x=x, x0=x0)


for _w in ('sorting', 'monotonic'):
    contract('C16/constraints.%s' % _w, ['C16'], K + _w + '.dec.func', samples=150)(lambda h, w=_w: _ordering(h, w))


@contract('C16/tools.suppressed', ['C16'], T + 'suppressed.dec.func', samples=200)
def suppressed(h):
    """clip=True: exactly the entries with |x| < tol are zeroed, every other entry is unchanged -- on the input (exit=False)
    or on the result of the decorated function (exit=True); any length.  clip=False (three entries, not all suppressed):
    the suppressed entries are zeroed and their sum is spread evenly over the others, so the total is preserved"""
    exit_ = h.choice('exit', [False, True])
    clip = h.choice('clip', [True, False])
    tol = h.real('tol')
    h.assume('tol > 0', tol=tol)
    if clip:
        x = h.list_real('x')
        n = h.len(x)
    else:
        x = h.vec('x', 3)
        n = 3
    x0 = h.snapshot(x)
    f = h.fn('F', ret='same' if exit_ else 'real', log='calls')
    func = h.call(h.call(h.get(T + 'suppressed'), tol, exit_, clip), f)
    src = h.call(h.fn('F', ret='same'), x0) if exit_ else x0
    if not clip:
        # (all entries suppressed: nothing to spread the mass over, numpy divides by zero -- outside the clause)
        h.assume('not (abs(s[0]) < tol and abs(s[1]) < tol and abs(s[2]) < tol)', s=src, tol=tol)
    r = h.call(func, x)
    calls = h.log('calls')
    h.check('decorated-function-called-once', 'len(calls) == 1', calls=calls)
    y = r if exit_ else calls[0][0]
    if clip:
        h.check('small-entries-zeroed-others-unchanged',
                'len(y) == n and forall(0, n, lambda q: y[q] == (0 if abs(src[q]) < tol else src[q]))', y=y, src=src, tol=tol, n=n)
    else:
        e = dict(y=y, tol=tol, a=h.ev('s[0]', s=src), b=h.ev('s[1]', s=src), c=h.ev('s[2]', s=src))
        small = ['abs(%s) < tol' % v for v in 'abc']
        h.check('small-entries-zeroed', ' and '.join('implies(%s, y[%d] == 0)' % (sm, i) for i, sm in enumerate(small)), **e)
        h.check('total-preserved', 'y[0] + y[1] + y[2] == a + b + c', **e)
        h.check('the-others-share-the-suppressed-mass-equally',
                ' and '.join('implies(not (%s) and not (%s), y[%d] - %s == y[%d] - %s)' % (small[i], small[j], i, 'abc'[i], j, 'abc'[j])
                             for i in range(3) for j in range(i + 1, 3)), **e)
    h.check('input-vector-not-modified', 'seq_eq(x, x0)', x=x, x0=x0)


@contract('C16/tools.masked', ['C16'], T + 'masked.dec.func', native=False)
def masked(h):
    """masked({k: v}): the decorated function receives the vector with each v INSERTED at position k of the result (keys in
    ascending order), every given entry kept in order -- the result is len(x) + len(mask) long; an address beyond
    len(x) + len(mask) - 1 or below 0 raises KeyError.  (List input; dill.source.getimport, which mystic uses to
    preserve the input's type, is assumed to need no import for a builtin list.)"""
    if not h.is_sym():
        h.unsupported('symbolic only')
    keys = h.choice('mask_keys', [(0,), (1, 3), (3, 1), (0, 1, 2), (2,), (5,)])
    vals = [h.real('v%d' % j) for j in range(len(keys))]
    nx = h.choice('len_x', [0, 1, 2, 3])
    x = h.clist([h.real('x%d' % i) for i in range(nx)])
    xs = list(h.st.heap[x])
    f = h.fn('F', ret='real', log='calls')
    func = h.call(h.call(h.get(T + 'masked'), h.st.alloc('dict', dict(zip(keys, vals)))), f)
    r, exc = h.call_raises(func, x)
    total = nx + len(keys)
    if max(keys) > total - 1:
        h.check('address-beyond-the-result-raises-KeyError', 'ok', ok=(exc == 'KeyError'))
        return
    h.check('no-exception', 'ok', ok=(exc is None))
    if exc is not None:
        return
    calls = h.log('calls')
    want = list(xs)
    for k_, v_ in sorted(zip(keys, vals), key=lambda kv: kv[0]):
        want.insert(k_, v_)
    y = calls[0][0]
    got = list(h.st.heap[y]) if hasattr(y, 'kind') and y.kind == 'clist' else None
    h.check('decorated-function-gets-the-vector-with-the-masked-values-inserted', 'ok',
            ok=(len(calls) == 1 and got is not None and len(got) == total and all(g is w for g, w in zip(got, want))))
    h.check('input-vector-not-modified', 'ok', ok=(list(h.st.heap[x]) == xs or all(a is b for a, b in zip(h.st.heap[x], xs))))


BOUNDS_FORMS = ['one-interval', 'two-intervals', 'open-below', 'open-above']


@contract('C16/constraints.bounded/clip-to-nearest', ['C16', 'C02', 'C03', 'C13'], K + 'bounded', samples=200)
def bounded_clip(h):
    """bounded(seq, bounds, index, clip=True, nearest=True) at three entries, all values, one interval [lo, hi] (a side
    may be None = open) or two disjoint intervals [lo, hi] < [lo2, hi2]: every SELECTED entry that lies in no interval is
    moved onto the interval end nearest to it (ends of the interval whose lower / upper end is nearest, as the code picks
    them: the clipped value lies in the target set), every entry that lies in an interval -- ON an end included -- and
    every unselected entry is unchanged"""
    form = h.choice('bounds_form', BOUNDS_FORMS)
    idx = h.choice('index', [None, (0, 2), 1])
    lo, hi = h.real('lo'), h.real('hi')
    h.assume('lo <= hi', lo=lo, hi=hi)
    if form == 'two-intervals':
        lo2, hi2 = h.real('lo2'), h.real('hi2')
        h.assume('hi < lo2 and lo2 <= hi2', hi=hi, lo2=lo2, hi2=hi2)
        bounds = h.clist([h.tup(lo, hi), h.tup(lo2, hi2)])
        inside = '(lo <= v and v <= hi) or (lo2 <= v and v <= hi2)'
    elif form == 'open-below':
        bounds = h.tup(None, hi)
        inside = 'v <= hi'
    elif form == 'open-above':
        bounds = h.tup(lo, None)
        inside = 'lo <= v'
    else:
        bounds = h.tup(lo, hi)
        inside = 'lo <= v and v <= hi'
    x = h.vec('x', 3)
    x0 = h.snapshot(x)
    r = h.call(h.get(K + 'bounded'), x, bounds, idx, True, True)
    sel = range(3) if idx is None else ((idx,) if isinstance(idx, int) else idx)
    for i in range(3):
        e = dict(v=h.ev('x0[%d]' % i, x0=x0), y=h.ev('r[%d]' % i, r=r), lo=lo, hi=hi)
        if form == 'two-intervals':
            e.update(lo2=lo2, hi2=hi2)
        if i not in sel:
            h.check('unselected-entries-unchanged', 'y == v', **e)
            continue
        h.check('entries-inside-an-interval-unchanged', 'implies(%s, y == v)' % inside, **e)
        h.check('entries-outside-land-in-the-target-set', inside.replace('v', 'y'), **e)
        if form == 'one-interval':
            h.check('clipped-at-the-nearest-end', 'y == (lo if v < lo else (hi if v > hi else v))', **e)
        elif form == 'two-intervals':
            h.check('below-all-or-above-all-clipped-at-the-outer-end', 'implies(v < lo, y == lo) and implies(v > hi2, y == hi2)', **e)
            h.check('in-the-gap-clipped-at-an-end-of-the-gap', 'implies(hi < v and v < lo2, y == hi or y == lo2)', **e)
    h.check('result-has-three-entries', 'len(r) == 3', r=r)
    h.check('callers-sequence-not-modified', 'seq_eq(x, x0)', x=x, x0=x0)


@contract('C16/constraints.bounded/redraw-inside', ['C16', 'C02', 'C03', 'C13'], K + 'bounded', native=False)
def bounded_redraw(h):
    """bounded(..., clip=False): a selected entry that lies in no interval is REPLACED by a drawn value inside an interval
    (nearest=True: the interval nearest to it; False: any of them); an entry that lies in an interval -- ON an end
    included -- and every unselected entry is unchanged, so a point that satisfies the bounds is a fixed point whatever is
    drawn (the idempotence the solvers' and_(constraints, bounds) coupling relies on)"""
    if not h.is_sym():
        h.unsupported('symbolic only')
    form = h.choice('bounds_form', ['one-interval', 'two-intervals'])
    nearest = h.choice('nearest', [True, False])
    idx = h.choice('index', [None, (0, 2)])
    lo, hi = h.real('lo'), h.real('hi')
    h.assume('lo <= hi and -1000000 <= lo and hi <= 1000000', lo=lo, hi=hi)
    if form == 'two-intervals':
        lo2, hi2 = h.real('lo2'), h.real('hi2')
        h.assume('hi < lo2 and lo2 <= hi2 and hi2 <= 1000000', hi=hi, lo2=lo2, hi2=hi2)
        bounds = h.clist([h.tup(lo, hi), h.tup(lo2, hi2)])
        inside = '(lo <= v and v <= hi) or (lo2 <= v and v <= hi2)'
    else:
        bounds = h.tup(lo, hi)
        inside = 'lo <= v and v <= hi'
    x = h.vec('x', 3)
    x0 = h.snapshot(x)
    r = h.call(h.get(K + 'bounded'), x, bounds, idx, False, nearest)
    sel = range(3) if idx is None else idx
    for i in range(3):
        e = dict(v=h.ev('x0[%d]' % i, x0=x0), y=h.ev('r[%d]' % i, r=r), lo=lo, hi=hi)
        if form == 'two-intervals':
            e.update(lo2=lo2, hi2=hi2)
        if i not in sel:
            h.check('unselected-entries-unchanged', 'y == v', **e)
            continue
        h.check('entries-inside-an-interval-unchanged', 'implies(%s, y == v)' % inside, **e)
        h.check('entries-outside-are-redrawn-inside-the-target-set', inside.replace('v', 'y'), **e)
        if form == 'two-intervals' and nearest:
            h.check('redrawn-in-the-nearest-interval', 'implies(v < lo, y <= hi) and implies(v > hi2, y >= lo2)', **e)
    h.check('callers-sequence-not-modified', 'seq_eq(x, x0)', x=x, x0=x0)


@contract('C16/constraints.impose_bounds', ['C16', 'C02', 'C03', 'C13'], K + 'impose_bounds.dec.func', native=False)
def impose_bounds(h):
    """the decorator routes every (selected index, its bounds) to bounded() -- whose own contract is above -- in the
    clip / nearest mode currently set (func.clip(..) / func.nearest(..) switch it), chains the calls, and hands the
    decorated function the result in the type of the input: bounds as a list apply to all entries (index None) or to each
    selected index; bounds as a dict {index: bounds} apply per key, filtered by `index` when given"""
    if not h.is_sym():
        h.unsupported('symbolic only')
    form = h.choice('bounds_given_as', ['pair-all', 'pair-index', 'dict', 'dict-filtered', 'dict-None-key-with-index'])
    mode = h.choice('mode', ['default', 'clip=False', 'nearest=False-set-later'])
    b0, b1 = h.tup(h.real('lo0'), h.real('hi0')), h.tup(h.real('lo1'), h.real('hi1'))
    if form == 'pair-all':
        bounds, index, want = b0, None, [(None, b0)]
    elif form == 'pair-index':
        bounds, index, want = b0, (0, 2), [(0, b0), (2, b0)]
    elif form == 'dict':
        bounds, index, want = h.st.alloc('dict', {0: b0, 2: b1}), None, [(0, b0), (2, b1)]
    elif form == 'dict-filtered':
        bounds, index, want = h.st.alloc('dict', {0: b0, 2: b1}), (2,), [(2, b1)]
    else:
        bounds, index, want = h.st.alloc('dict', {None: b0}), (1, 2), [(1, b0), (2, b0)]
    calls = []
    B = h.fn('BOUNDED', ret='same_nd')

    results = []

    def bounded_(I, c, args, kwargs):
        calls.append(list(args))
        results.append(I.call(B, [args[0], len(calls)], {}))
        return results[-1]
    h.set_summaries({('mystic/constraints.py', 'bounded'): bounded_})
    f = h.fn('F', ret='real', log='fcalls')
    kw = {'clip': False} if mode == 'clip=False' else {}
    func = h.call(h.call(h.get(K + 'impose_bounds'), bounds, index, **kw), f)
    if mode == 'nearest=False-set-later':
        h.call(h.getattr(func, 'nearest'), False)
    x = h.list_real('x')
    h.call(func, x)
    clip_w, near_w = (mode != 'clip=False'), (mode != 'nearest=False-set-later')
    ok = len(calls) == len(want)
    if ok:
        for n_, (c_, (i_, b_)) in enumerate(zip(calls, want)):
            ok = ok and c_[1] is b_ and c_[2] == i_ and c_[3] is clip_w and c_[4] is near_w
    h.check('one-bounded-call-per-selected-index-with-its-bounds-in-the-current-mode', 'ok', ok=ok)
    if not ok:
        return
    h.check('the-calls-are-chained-from-the-input', 'ok',
            ok=(calls[0][0] is x and all(calls[n_][0] is results[n_ - 1] for n_ in range(1, len(calls)))))
    fc = h.log('fcalls')
    last = results[-1]
    h.check('decorated-function-gets-the-bounded-vector-as-a-list', 'len(fc) == 1 and seq_eq(fc[0][0], last) and not isarr', fc=fc, last=last,
            isarr=bool(getattr(fc[0][0], 'nd', False)) if len(fc) == 1 else False)


SAMPLE_SETS = [(1.0, 2.0), (-1.5, 0.0, 4.0), (3.0,), (2.0, -2.0, 0.5, 7.0)]


@contract('C16/constraints.discrete', ['C16'], K + 'discrete.dec.func', samples=200)
def discrete(h):
    """each selected entry is mapped onto the member of the sample set nearest to it (the lower one on a tie; below / above
    all members: the smallest / largest), members of the set and unselected entries are unchanged -- three entries, all
    values, enumerated sample sets (given unsorted as well)"""
    samples = h.choice('samples', SAMPLE_SETS)
    idx = h.choice('index', [None, (0, 2), 1, (-1,), (5, 0)])
    x = h.vec('x', 3)
    x0 = h.snapshot(x)
    f = h.fn('F', ret='real', log='calls')
    func = h.call(h.call(h.get(K + 'discrete'), h.clist(list(samples)), idx), f)
    h.call(func, x)
    calls = h.log('calls')
    h.check('decorated-function-called-once-with-three-entries', 'len(calls) == 1 and len(calls[0][0]) == 3', calls=calls)
    y = calls[0][0]
    sel = range(3) if idx is None else [i % 3 for i in ((idx,) if isinstance(idx, int) else idx) if -3 <= i < 3]
    if idx == (5, 0):
        sel = []            # an index beyond the end: numpy's integer-array assignment is atomic, nothing is selected
    S = sorted(samples)
    for i in range(3):
        e = dict(v=h.ev('x0[%d]' % i, x0=x0), w=h.ev('y[%d]' % i, y=y))
        if i not in sel:
            h.check('unselected-entries-unchanged', 'w == v', **e)
            continue
        h.check('lands-on-a-member', ' or '.join('w == %r' % s_ for s_ in S), **e)
        h.check('members-unchanged', ' and '.join('implies(v == %r, w == %r)' % (s_, s_) for s_ in S), **e)
        h.check('no-member-is-nearer', ' and '.join('abs(w - v) <= abs(%r - v)' % s_ for s_ in S), **e)
        h.check('the-lower-member-on-a-tie', ' and '.join('implies(abs(%r - v) == abs(w - v), w <= %r)' % (s_, s_) for s_ in S), **e)
    h.check('input-vector-not-modified', 'seq_eq(x, x0)', x=x, x0=x0)
