"""C07 (configuration order), C02 / C03 (settings installed between iterations take effect): the Set* configuration
methods of AbstractSolver.

Each method is run on a solver whose every attribute holds a distinct sentinel.  Proved per method:
  * effect    -- the attributes it is responsible for end up as a function of ITS OWN ARGUMENTS only;
  * frame     -- every other attribute still holds its sentinel (nothing else is written, in particular no other setting
                 is reset and the population / energies / counters are untouched);
  * stale     -- the methods that change what the objective is (penalty, constraints, reducer, ranges) leave
                 `_live == False`, so the next Step re-decorates and the new setting is in force at its first evaluation;
  * no draw   -- no value is drawn from the random generators (ghost log of the random models).
Two such methods therefore commute: each writes its own attributes from its own arguments, and the only shared write
is `_live := False`.  (SetStrictRanges(tight=True) builds its bounds constraint through symbolic.simplify, which draws
random test points inside sympy-driven code: that call is replaced by its assumed contract -- the constraint built
depends on (min, max, options) only.)"""
from pyvc.contract import contract

AS = 'mystic/abstract_solver.py'
A = AS + '::AbstractSolver'
DE = 'mystic/differential_evolution.py'

FIELDS = ['_penalty', '_constraints', '_reducer', '_termination', '_collapse', '_maxiter', '_maxfun', '_saveiter', '_state',
          '_useStrictRange', '_strictMin', '_strictMax', '_strictbounds', '_useTightRange', '_useClipRange',
          'population', 'popEnergy', '_bestEnergy', '_bestSolution', '_fcalls', '_stepmon', '_evalmon', '_cost',
          '_energy_history', '_solution_history', 'nDim', 'nPop', '_defaultMin', '_defaultMax', '_map', '_mapconfig', 'id']


def _sentinel_solver(h, cls=A):
    vals = {}
    for f in FIELDS:
        vals[f] = h.obj(None, sentinel=f)
    vals['nDim'] = 2
    vals['nPop'] = 3
    vals['_defaultMin'] = h.clist([-1e3])
    vals['_defaultMax'] = h.clist([1e3])
    vals['_cost'] = h.tup(h.fn('WRAPPED', ret='real'), h.fn('RAW', ret='real'), None)
    vals['_stepmon'] = h.obj('mystic/monitors.py::Monitor', _x=h.clist([0.0, 0.0, 0.0]), _y=h.clist([3.0, 2.0, 1.0]), _id=h.clist([]), _info=h.clist([]), k=None, _npts=None, label='s')
    vals['_fcalls'] = h.clist([h.int('fcalls')])
    live = h.bool('live_before')
    s = h.obj(cls, _live=live, **vals)
    return s, vals


def _frame(h, s, vals, written):
    keep = [f for f in FIELDS if f not in written]
    h.check('every-other-attribute-untouched', ' and '.join('same(s.%s, v_%s)' % (f, f) for f in keep), s=s,
            **{'v_' + f: vals[f] for f in keep})
    h.check('no-random-draw', 'n == 0', n=len(h.st.ghost.get('rand_draws', [])) if h.is_sym() else 0)


def _setter(h, method, arg_kinds, written, field, cls=A, stale=True):
    if not h.is_sym():
        h.unsupported('symbolic only')
    kind = h.choice('argument', arg_kinds)
    s, vals = _sentinel_solver(h, cls)
    f = h.fn('GIVEN', ret='real')
    arg = {'callable': f, 'None': None}[kind]
    if method == 'SetReducer':
        h.call(h.getattr(s, method), arg, arraylike=True)      # (arraylike=False wraps the reducer: tools.wrap_reducer)
    else:
        h.call(h.getattr(s, method), arg)
    cur = h.field(s, field)
    if kind == 'callable':
        h.check('the-given-callable-is-installed', 'same(cur, f)', cur=cur, f=f)
    else:
        h.check('None-installs-the-neutral-default', 'not same(cur, old) and cur is not None' if field != '_reducer' else 'cur is None',
                cur=cur, old=vals[field])
    if stale:
        h.check('objective-marked-stale-so-the-setting-is-in-force-at-the-next-evaluation', 's._live is False', s=s)
    _frame(h, s, vals, written)


contract('C07/SetPenalty', ['C07', 'C02', 'C03'], A + '.SetPenalty', native=False)(
    lambda h: _setter(h, 'SetPenalty', ['callable', 'None'], ['_penalty'], '_penalty'))
contract('C07/SetConstraints', ['C07', 'C03'], A + '.SetConstraints', native=False)(
    lambda h: _setter(h, 'SetConstraints', ['callable', 'None'], ['_constraints'], '_constraints'))
contract('C07/SetReducer', ['C07', 'C01'], A + '.SetReducer', native=False)(
    lambda h: _setter(h, 'SetReducer', ['callable', 'None'], ['_reducer'], '_reducer'))
# the DE solvers apply the constraints inside _Step and read self._constraints afresh there (contracts/de_step.py), so
# their SetConstraints need not (and does not) mark the objective stale
contract('C07/DE.SetConstraints', ['C07', 'C03'], DE + '::DifferentialEvolutionSolver.SetConstraints', native=False)(
    lambda h: _setter(h, 'SetConstraints', ['callable', 'None'], ['_constraints'], '_constraints',
                      cls=DE + '::DifferentialEvolutionSolver', stale=False))


@contract('C07/SetSaveFrequency', ['C07', 'C06'], A + '.SetSaveFrequency', native=False)
def save_frequency(h):
    if not h.is_sym():
        h.unsupported('symbolic only')
    s, vals = _sentinel_solver(h)
    g = h.int('generations')
    if h.choice('call', ['frequency-and-file', 'switched-off']) == 'switched-off':
        # SetSaveFrequency(None): the documented switch-off -- no frequency AND no registered file (the forced dump at STOP
        # depends on the file alone, so a file left registered would still be overwritten)
        h.set_field(s, '_state', 'old-checkpoint.pkl')
        h.set_field(s, '_saveiter', g)
        h.call(h.getattr(s, 'SetSaveFrequency'), None)
        h.check('switched-off-means-no-frequency-and-no-registered-file', 's._saveiter is None and s._state is None', s=s)
        h.check('liveness-of-the-objective-unchanged', 's._live == live', s=s, live=h.st.heap[s]['_live'])
        _frame(h, s, vals, ['_saveiter', '_state'])
        return
    h.call(h.getattr(s, 'SetSaveFrequency'), g, 'restart.pkl')
    h.check('frequency-and-file-recorded', "s._saveiter == g and s._state == 'restart.pkl'", s=s, g=g)
    h.check('liveness-of-the-objective-unchanged', 's._live == live', s=s, live=h.st.heap[s]['_live'])
    _frame(h, s, vals, ['_saveiter', '_state'])


@contract('C07/SetStrictRanges', ['C07', 'C02'], A + '.SetStrictRanges', native=False)
def strict_ranges(h):
    """min / max given as lists of length nDim with min <= max; options tight / clip in every legal combination"""
    if not h.is_sym():
        h.unsupported('symbolic only')
    tight = h.choice('tight', ['omitted', None, True, False])
    clip = h.choice('clip', ['omitted', None, True, False])
    if tight is False and clip in (True, False):
        return          # documented: raises ValueError
    s, vals = _sentinel_solver(h)
    mn, mx = h.vec('min', 2), h.vec('max', 2)
    h.assume('mn[0] <= mx[0] and mn[1] <= mx[1]', mn=mn, mx=mx)
    built = h.fn('BOUNDS_CONSTRAINT', ret='same')
    seen = {}

    def boundsconstraints(I, c, args, kwargs):
        cell = I.st.heap[args[0]]
        seen['strict'] = cell['_useStrictRange']
        seen['min'], seen['max'] = cell['_strictMin'], cell['_strictMax']
        seen['kw'] = dict(kwargs)
        return built
    h.set_summaries({(AS, 'AbstractSolver._boundsconstraints'): boundsconstraints})
    kw = {}
    if tight != 'omitted':
        kw['tight'] = tight
    if clip != 'omitted':
        kw['clip'] = clip
    h.call(h.getattr(s, 'SetStrictRanges'), mn, mx, **kw)
    e = dict(s=s, mn=mn, mx=mx, built=built)
    h.check('ranges-recorded', 's._useStrictRange is True and seq_eq(s._strictMin, mn) and seq_eq(s._strictMax, mx)', **e)
    h.check('bounds-constraint-built-after-the-ranges-are-recorded',
            'same(s._strictbounds, built) and strict is True and same(smin, s._strictMin) and same(smax, s._strictMax)',
            strict=seen.get('strict'), smin=seen.get('min'), smax=seen.get('max'), **e)
    tg = None if tight == 'omitted' else tight
    cl = None if clip == 'omitted' else clip
    want = {} if cl is None and not tg else {'symbolic': True} if cl is None else {'symbolic': False, 'clip': cl}
    h.check('bounds-constraint-options-follow-tight-and-clip', 'ok', ok=(seen.get('kw') == want))
    h.check('objective-marked-stale-so-the-ranges-are-in-force-at-the-next-evaluation', 's._live is False', **e)
    h.check('caller-lists-not-modified', 'len(mn) == 2 and len(mx) == 2', **e)
    _frame(h, s, vals, ['_useStrictRange', '_strictMin', '_strictMax', '_strictbounds', '_useTightRange', '_useClipRange'])


@contract('C02/SetStrictRanges/argument-forms', ['C02', 'C07', 'C09'], A + '.SetStrictRanges', native=False)
def strict_ranges_forms(h):
    """the other documented argument forms: a whole side None (the solver's default limit on that side), single entries
    None (completed by the default of THEIR side), min or max False (ranges switched off)"""
    if not h.is_sym():
        h.unsupported('symbolic only')
    form = h.choice('form', ['min-None', 'max-None', 'entries-None', 'min-False', 'max-False'])
    s, vals = _sentinel_solver(h)
    m0, m1, M0, M1 = h.real('min0'), h.real('min1'), h.real('max0'), h.real('max1')
    h.assume('-1000 <= m0 and m0 <= M0 and M0 <= 1000 and -1000 <= m1 and m1 <= M1 and M1 <= 1000', m0=m0, m1=m1, M0=M0, M1=M1)
    built = h.fn('BOUNDS_CONSTRAINT', ret='same')
    seen = {}

    def boundsconstraints(I, c, args, kwargs):
        seen['strict'] = I.st.heap[args[0]]['_useStrictRange']
        return built
    h.set_summaries({(AS, 'AbstractSolver._boundsconstraints'): boundsconstraints})
    lo, hi = [m0, m1], [M0, M1]
    if form == 'min-None':
        a, b, wl, wh = None, h.clist(hi), [-1000, -1000], hi
        # the default limit list has one entry: a whole side None means that single default on every coordinate is NOT
        # what the code stores -- it stores the default list itself; only its first entry is compared here
    elif form == 'max-None':
        a, b, wl, wh = h.clist(lo), None, lo, [1000, 1000]
    elif form == 'entries-None':
        a, b, wl, wh = h.clist([m0, None]), h.clist([None, M1]), [m0, -1000], [1000, M1]
    else:
        a, b = (False, h.clist(hi)) if form == 'min-False' else (h.clist(lo), False)
    if form in ('min-None', 'max-None'):
        # a whole side None needs a default list of the problem's length: as the solver's constructor makes it
        h.set_field(s, '_defaultMin', h.clist([-1e3, -1e3]))
        h.set_field(s, '_defaultMax', h.clist([1e3, 1e3]))
    h.call(h.getattr(s, 'SetStrictRanges'), a, b)
    if form.endswith('False'):
        h.check('ranges-switched-off-and-the-bounds-constraint-rebuilt-without-them',
                's._useStrictRange is False and same(s._strictbounds, built) and strict is False and s._live is False', s=s, built=built, strict=seen.get('strict'))
        return
    h.check('missing-limits-completed-by-the-default-of-their-own-side',
            's._useStrictRange is True and s._strictMin[0] == wl0 and s._strictMin[1] == wl1 and s._strictMax[0] == wh0 and s._strictMax[1] == wh1',
            s=s, wl0=wl[0], wl1=wl[1], wh0=wh[0], wh1=wh[1])
    h.check('objective-marked-stale', 's._live is False', s=s)


@contract('C02/SetStrictRanges/whatever-was-stored-before', ['C02', 'C07'], A + '.SetStrictRanges', native=False)
def strict_ranges_prestate(h):
    """the effect of SetStrictRanges(min, max) does not depend on what an earlier call left behind: ranges switched off in
    between (the stored limits stay), the same box or another one stored, the same or other tight / clip options
    remembered -- afterwards the ranges are ON with the given limits, the bounds constraint is rebuilt from them and the
    objective is marked stale"""
    if not h.is_sym():
        h.unsupported('symbolic only')
    was_on = h.choice('ranges_were_on', [False, True])
    same_box = h.choice('stored_limits_equal_the_new_ones', [True, False])
    opts = h.choice('remembered_options', ['same', 'other'])
    s, vals = _sentinel_solver(h)
    mn, mx = h.vec('min', 2), h.vec('max', 2)
    h.assume('mn[0] <= mx[0] and mn[1] <= mx[1]', mn=mn, mx=mx)
    if same_box:
        old_mn, old_mx = h.clist(list(h.st.heap[mn]), nd=True), h.clist(list(h.st.heap[mx]), nd=True)
    else:
        old_mn, old_mx = h.vec('old_min', 2, nd=True), h.vec('old_max', 2, nd=True)
    oldb = h.fn('OLD_BOUNDS_CONSTRAINT', ret='same')
    for f, v in (('_useStrictRange', was_on), ('_strictMin', old_mn), ('_strictMax', old_mx), ('_strictbounds', oldb),
                 ('_useTightRange', None if opts == 'same' else True), ('_useClipRange', None)):
        h.set_field(s, f, v)
    built = h.fn('BOUNDS_CONSTRAINT', ret='same')
    seen = {}

    def boundsconstraints(I, c, args, kwargs):
        cell = I.st.heap[args[0]]
        seen['strict'], seen['min'], seen['max'] = cell['_useStrictRange'], cell['_strictMin'], cell['_strictMax']
        return built
    h.set_summaries({(AS, 'AbstractSolver._boundsconstraints'): boundsconstraints})
    h.call(h.getattr(s, 'SetStrictRanges'), mn, mx)
    e = dict(s=s, mn=mn, mx=mx, built=built)
    h.check('ranges-on-with-the-given-limits', 's._useStrictRange is True and seq_eq(s._strictMin, mn) and seq_eq(s._strictMax, mx)', **e)
    h.check('bounds-constraint-rebuilt-from-the-recorded-ranges',
            'same(s._strictbounds, built) and strict is True and same(smin, s._strictMin) and same(smax, s._strictMax)',
            strict=seen.get('strict'), smin=seen.get('min'), smax=seen.get('max'), **e)
    h.check('objective-marked-stale-so-the-ranges-are-in-force-at-the-next-evaluation', 's._live is False', **e)


@contract('C02/_boundsconstraints', ['C02', 'C03'], A + '._boundsconstraints', native=False)
def boundsconstraints(h):
    """which bounds constraint a solver couples to the user's constraints: none (the identity) when strict ranges are off
    or no option is given (the default mode relies on the wrapped objective and the clipped guesses instead); otherwise the
    constraint built by constraints.boundsconstrain from EXACTLY the recorded limits, symbolic unless clip is given
    (then symbolic = clip), clipping unless clip=False; symbolic without clipping is refused"""
    if not h.is_sym():
        h.unsupported('symbolic only')
    strict = h.choice('useStrictRange', [True, False])
    sym = h.choice('symbolic', ['omitted', None, True, False])
    clip = h.choice('clip', ['omitted', None, True, False])
    mn, mx = h.vec('strictMin', 2, nd=True), h.vec('strictMax', 2, nd=True)
    s = h.obj(A, _useStrictRange=strict, _strictMin=mn, _strictMax=mx)
    built = h.fn('BUILT_BOUNDS_CONSTRAINT', ret='same')
    calls = []

    def bcon(I, c, args, kwargs):
        calls.append((list(args), dict(kwargs)))
        return built
    h.set_summaries({('mystic/constraints.py', 'boundsconstrain'): bcon})
    kw = {}
    if sym != 'omitted':
        kw['symbolic'] = sym
    if clip != 'omitted':
        kw['clip'] = clip
    r, exc = h.call_raises(h.getattr(s, '_boundsconstraints'), **kw)
    sy = None if sym == 'omitted' else sym
    cl = None if clip == 'omitted' else clip
    if sy is None and cl is not None:
        sy = bool(cl)
    elif cl is None:
        cl = True
    if not strict or sy is None:
        h.check('identity-when-ranges-are-off-or-no-option-is-given', 'ok', ok=(exc is None and not calls))
        if exc is None:
            x = h.vec('x', 2)
            h.check('identity-when-ranges-are-off-or-no-option-is-given', 'same(y, x)', y=h.call(r, x), x=x)
    elif sy and not cl:
        h.check('symbolic-without-clipping-is-refused', 'ok', ok=(exc == 'NotImplementedError' and not calls))
    else:
        h.check('built-from-exactly-the-recorded-limits-in-the-resolved-mode', 'ok',
                ok=(exc is None and r is built and len(calls) == 1 and calls[0][0][0] is mn and calls[0][0][1] is mx
                    and bool(calls[0][1].get('symbolic')) == bool(sy) and bool(calls[0][1].get('clip')) == bool(cl)))


@contract('C02/constraints.boundsconstrain/impose_bounds-mode', ['C02', 'C03', 'C16', 'C13'], 'mystic/constraints.py::boundsconstrain', native=False)
def boundsconstrain(h):
    """symbolic=False: the constraint is impose_bounds({i: (min[i], max[i])}, clip=clip) around the identity -- every
    coordinate gets its own interval, in order, in the clip mode asked for"""
    if not h.is_sym():
        h.unsupported('symbolic only')
    clip = h.choice('clip', [True, False])
    mn, mx = h.vec('min', 3, nd=True), h.vec('max', 3, nd=True)
    seen = []
    inner = h.fn('IMPOSED', ret='same')

    def imp(I, c, args, kwargs):
        seen.append((list(args), dict(kwargs)))
        return Builtin_('decorator', lambda I_, a, k: (seen.append(('decorated', a[0])), inner)[1])
    from pyvc.values import Builtin as Builtin_
    h.set_summaries({('mystic/constraints.py', 'impose_bounds'): imp})
    r = h.call(h.get('mystic/constraints.py::boundsconstrain'), mn, mx, symbolic=False, clip=clip)
    ok = len(seen) == 2 and seen[1][0] == 'decorated' and r is inner
    h.check('impose_bounds-applied-once-around-a-function', 'ok', ok=ok)
    if not ok:
        return
    args, kw = seen[0]
    cell = h.st.heap[args[0]] if hasattr(args[0], 'kind') and args[0].kind == 'dict' else None
    h.check('one-interval-per-coordinate-in-the-asked-clip-mode', 'ok',
            ok=(cell is not None and sorted(cell) == [0, 1, 2] and kw.get('clip') is clip and 'index' not in kw and len(args) == 1))
    if cell is not None and sorted(cell) == [0, 1, 2]:
        for i in range(3):
            h.check('interval-i-is-min-i-max-i', 'b[0] == lo and b[1] == hi and len(b) == 2', b=cell[i], lo=h.ev('m[%d]' % i, m=mn), hi=h.ev('m[%d]' % i, m=mx))
    x = h.vec('x', 3)
    h.check('the-decorated-function-is-the-identity', 'same(y, x)', y=h.call(seen[1][1], x), x=x)
