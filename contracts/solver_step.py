"""C05 (and the C04 counter clause it depends on): AbstractSolver.Terminated / Step / SetEvaluationLimits /
_SetEvaluationLimits, Appendix A.3.  `_Step` and the termination condition are abstract:
  _Step       -- begins one iteration: appends one record to the step monitor, may raise the evaluation count
  termination -- arbitrary predicate of the solver state (one Boolean per epoch = number of iterations begun)
"""
import z3
from pyvc.contract import contract
from pyvc.values import SV, SStr

A = 'mystic/abstract_solver.py::'
MON = 'mystic/monitors.py::Monitor'


def _solver(h, live=None, with_limits=True, cls=None):
    """a solver object in an arbitrary reachable state (fields by kind)"""
    n0 = h.int('nsteps')            # records in the step monitor
    h.assume('n0 >= 0', n0=n0)
    xs = h.list_real('stepmon_x')
    ys = h.list_real('stepmon_y', inf=True)
    h.assume('len(xs) == n0 and len(ys) == n0', xs=xs, ys=ys, n0=n0)
    stepmon = h.obj(MON, _x=xs, _y=ys, _id=h.clist([]), _info=h.clist([]), k=None, _npts=None, label='ChiSquare')
    fc = h.int('fcalls')
    h.assume('fc >= 0', fc=fc)
    fields = dict(_stepmon=stepmon, _fcalls=h.clist([fc]), nDim=2, nPop=1,
                  population=h.clist([h.vec('p0', 2)]), popEnergy=h.clist([h.real('e0', inf=True)]),
                  _energy_history=None, _solution_history=None, _bestEnergy=None, _bestSolution=None,
                  _EARLYEXIT=h.bool('EARLYEXIT'), _collapse=False, _state=None, _saveiter=None,
                  _useStrictRange=False, _reducer=None, id=None,
                  _evalmon=h.fn('EVALMON', ret='none'), _penalty=h.fn('PEN', ret='real'),
                  _constraints=h.fn('CONS', ret='same'))
    mi = h.choice('maxiter_kind', ['int', 'None', '*'])
    mf = h.choice('maxfun_kind', ['int', 'None', '*'])
    if mi == 'int':
        v = h.int('maxiter')
        h.assume('v >= 0', v=v)
        fields['_maxiter'] = v
    else:
        fields['_maxiter'] = None if mi == 'None' else '*'
    if mf == 'int':
        v = h.int('maxfun')
        h.assume('v >= 0', v=v)
        fields['_maxfun'] = v
    else:
        fields['_maxfun'] = None if mf == 'None' else '*'
    raw = h.fn('RAW', ret='real')
    wrapped = h.fn('WRAPPED', ret='real')
    fields['_cost'] = h.tup(wrapped, raw, None)
    fields['_live'] = h.bool('live') if live is None else live
    s = h.obj(cls or (A + 'AbstractSolver'), **fields)
    return s, stepmon, fc


def _termination(h, epoch):
    """abstract termination: truthiness is an arbitrary function of the epoch; info=True gives a message"""
    if h.is_sym():
        def sym(H, I, args, kwargs):
            b = z3.Bool('TERM_%d' % epoch['n'])
            H.st.symbols['TERM_%d' % epoch['n']] = lambda m, b=b: bool(z3.is_true(m.eval(b, model_completion=True)))
            t = I.st.branch(b)
            epoch.setdefault('seen', {})[epoch['n']] = t
            if kwargs.get('info', args[1] if len(args) > 1 else False):
                return SStr('termination-message') if t else ''
            return t
        return h.fn('TERM', sym=sym)

    def native(H, solver, info=False):
        key = 'TERM_%d' % epoch['n']
        t = bool(H._val(key, lambda: (H.rng or __import__('random')).random() < 0.3))
        epoch.setdefault('seen', {})[epoch['n']] = t
        return ('termination-message' if t else '') if info else t
    return h.fn('TERM', native=native)


def _step_impl(h, holder, epoch):
    """abstract _Step: one more step-monitor record, evaluation count grows by an arbitrary amount >= 0"""
    if h.is_sym():
        def sym(H, I, args, kwargs):
            st = I.st
            s = holder['s']
            epoch['begun'] = epoch.get('begun', 0) + 1
            epoch['n'] += 1
            mon = st.heap[s]['_stepmon']
            for f in ('_x', '_y'):
                lst = st.heap[mon][f]
                c = dict(st.heap[lst])
                c['len'] = c['len'] + 1
                st.heap[lst] = c
            d = H.int('evals_in_step_%d' % epoch['n'])
            H.assume('d >= 0', d=d)
            fcl = st.heap[s]['_fcalls']
            st.heap[fcl][0] = I.binop(__import__('ast').Add(), st.heap[fcl][0], d)
            return None
        return h.fn('STEP', sym=sym)

    def native(H, *args, **kwargs):
        s = holder['s']
        epoch['begun'] = epoch.get('begun', 0) + 1
        epoch['n'] += 1
        s._stepmon._x.append(0.0)
        s._stepmon._y.append(0.0)
        d = H.int('evals_in_step_%d' % epoch['n'])
        H.assume('d >= 0', d=d)
        s._fcalls[0] += d
    return h.fn('STEP', native=native)


def _mk(h, live=None, cls=None):
    epoch = {'n': 0}
    holder = {}
    s, stepmon, fc = _solver(h, live, cls=cls)
    holder['s'] = s
    h.set_field(s, '_termination', _termination(h, epoch))
    h.set_field(s, '_Step', _step_impl(h, holder, epoch))
    return s, stepmon, fc, epoch


# limits as the solver will see them after _SetEvaluationLimits (A.3); N*nPop = 2
LIMS = dict(
    maxiter="(N*10 if mi is None else (N*10 + gens if mi == '*' else mi))",
    maxfun="(N*1000 if mf is None else (N*1000 + evals if mf == '*' else mf))")


@contract('C05/_SetEvaluationLimits', ['C05'], A + 'AbstractSolver._SetEvaluationLimits')
def set_limits_default(h):
    s, stepmon, fc, epoch = _mk(h)
    mi, mf = h.field(s, '_maxiter'), h.field(s, '_maxfun')
    gens = h.ev('max(0, n - 1)', n=h.len(h.field(stepmon, '_x')))
    h.call(h.getattr(s, '_SetEvaluationLimits'))
    env = dict(mi=mi, mf=mf, gens=gens, evals=fc, N=2, a=h.field(s, '_maxiter'), b=h.field(s, '_maxfun'))
    h.check('limits-are-ints-afterwards', 'isinstance(a, int) and isinstance(b, int)', **env)
    h.check('none-gives-default-star-counts-from-now', 'a == %(maxiter)s and b == %(maxfun)s' % LIMS, **env)


def _limits_variant(h, cls, iterscale, evalscale):
    """the solver-specific defaults: limit = nDim * nPop * scale (+ the current count for '*')"""
    s, stepmon, fc, epoch = _mk(h, cls=cls)
    if cls.endswith('NelderMeadSimplexSolver'):
        # the simplex has nDim + 1 vertices although nPop is 1: the default budget is nDim * nPop * scale = N * 200, scipy's
        h.set_field(s, 'population', h.clist([h.vec('v0', 2), h.vec('v1', 2), h.vec('v2', 2)]))
    mi, mf = h.field(s, '_maxiter'), h.field(s, '_maxfun')
    gens = h.ev('max(0, n - 1)', n=h.len(h.field(stepmon, '_x')))
    h.call(h.getattr(s, '_SetEvaluationLimits'))
    env = dict(mi=mi, mf=mf, gens=gens, evals=fc, N=2, a=h.field(s, '_maxiter'), b=h.field(s, '_maxfun'), si=iterscale, se=evalscale)
    h.check('limits-are-ints-afterwards', 'isinstance(a, int) and isinstance(b, int)', **env)
    h.check('none-gives-the-solvers-default-star-counts-from-now',
            "a == (N*si if mi is None else (N*si + gens if mi == '*' else mi)) and "
            "b == (N*se if mf is None else (N*se + evals if mf == '*' else mf))", **env)


SOF = 'mystic/scipy_optimize.py::'
contract('C05/NelderMead._SetEvaluationLimits', ['C05', 'C08'], SOF + 'NelderMeadSimplexSolver._SetEvaluationLimits')(
    lambda h: _limits_variant(h, SOF + 'NelderMeadSimplexSolver', 200, 200))


@contract('C05/SetEvaluationLimits', ['C05', 'C04', 'C07'], A + 'AbstractSolver.SetEvaluationLimits')
def set_limits(h):
    s, stepmon, fc, epoch = _mk(h)
    # the evaluation monitor may hold any number of records (it may have been installed with data in it, or not at all):
    # "evaluations" is the solver's own call counter, whatever the monitor holds -- so the order of SetEvaluationMonitor
    # and SetEvaluationLimits(new=True) cannot matter
    em_x, em_y = h.list_real('evalmon_x'), h.list_real('evalmon_y', inf=True)
    h.assume('len(ex) == len(ey)', ex=em_x, ey=em_y)
    h.set_field(s, '_evalmon', h.obj(MON, _x=em_x, _y=em_y, _id=h.clist([]), _info=h.clist([]), k=None, _npts=None, label='ChiSquare'))
    h.check('evaluations-is-the-solvers-own-call-counter', 's.evaluations == evals', s=s, evals=fc)
    new = h.choice('new', [False, True])
    gk = h.choice('generations_kind', ['int', 'None'])
    ek = h.choice('evaluations_kind', ['int', 'None'])
    g = h.int('g') if gk == 'int' else None
    e = h.int('e') if ek == 'int' else None
    if g is not None:
        h.assume('g >= 0', g=g)
    if e is not None:
        h.assume('e >= 0', e=e)
    gens = h.ev('max(0, n - 1)', n=h.len(h.field(stepmon, '_x')))
    h.call(h.getattr(s, 'SetEvaluationLimits'), g, e, new)
    a, b = h.field(s, '_maxiter'), h.field(s, '_maxfun')
    env = dict(a=a, b=b, g=g, e=e, gens=gens, evals=fc)
    if new:
        h.check('new-limits-count-from-now', "(a == g + gens if g is not None else a == '*') and (b == e + evals if e is not None else b == '*')", **env)
    else:
        h.check('limits-bound-the-totals', '(a == g if g is not None else a is None) and (b == e if e is not None else b is None)', **env)


@contract('C05/Terminated', ['C05'], A + 'AbstractSolver.Terminated')
def terminated(h):
    s, stepmon, fc, epoch = _mk(h)
    info = h.choice('info', [False, True])
    mi, mf = h.field(s, '_maxiter'), h.field(s, '_maxfun')
    gens = h.ev('max(0, n - 1)', n=h.len(h.field(stepmon, '_x')))
    early = h.field(s, '_EARLYEXIT')
    r = h.call(h.getattr(s, 'Terminated'), info=info)
    t = epoch['seen'][0]
    env = dict(mi=mi, mf=mf, gens=gens, evals=fc, N=2, early=early, t=t, r=r)
    L = dict(LIMS)
    stop = '(evals >= %(maxfun)s or gens >= %(maxiter)s or early or t)' % L
    h.check('truthy-iff-a-stop-condition-holds', 'iff(truthy(r), %s)' % stop, **env)
    h.cover('stopped', 'truthy(r)', **env)
    h.cover('running', 'not truthy(r)', **env)
    if info:
        # the message names a condition that is true: limits first, then the exit request, then the termination's own
        a, b = h.field(s, '_maxiter'), h.field(s, '_maxfun')
        lims = 'evals >= %(maxfun)s or gens >= %(maxiter)s' % L
        if h.is_sym():
            kind = 'lim' if ((isinstance(r, SStr) and r.parts and 'EvaluationLimits' in str(r.parts[0])) or (isinstance(r, str) and r.startswith('EvaluationLimits'))) else \
                   'sig' if ((isinstance(r, SStr) and r.parts and 'SolverInterrupt' in str(r.parts[0])) or (isinstance(r, str) and r.startswith('SolverInterrupt'))) else \
                   'term' if (isinstance(r, SStr) or (isinstance(r, str) and r != '')) else 'none'
        else:
            kind = 'lim' if str(r).startswith('EvaluationLimits') else 'sig' if str(r).startswith('SolverInterrupt') else \
                   'term' if r else 'none'
        h.check('message-names-a-true-condition',
                "implies(kind == 'lim', %s) and implies(kind == 'sig', early) and implies(kind == 'term', t)" % lims,
                kind=kind, **env)
        h.check('limit-message-has-priority', "implies(%s, kind == 'lim')" % lims, kind=kind, **env)
    else:
        h.check('result-is-bool', 'r is True or r is False', r=r)


@contract('C05/Step', ['C05', 'C04'], A + 'AbstractSolver.Step')
def step(h):
    s, stepmon, fc, epoch = _mk(h)
    mi, mf = h.field(s, '_maxiter'), h.field(s, '_maxfun')
    n0 = h.len(h.field(stepmon, '_x'))
    gens = h.ev('max(0, n - 1)', n=n0)
    early = h.field(s, '_EARLYEXIT')
    r = h.call(h.getattr(s, 'Step'))
    begun = epoch.get('begun', 0)
    env = dict(mi=mi, mf=mf, gens=gens, evals=fc, N=2, early=early, r=r, begun=begun, n0=n0)
    h.check('at-most-one-iteration-begun', 'begun == 0 or begun == 1', **env)
    # state at the moment the decision is taken = entry state (limits normalised as A.3)
    t0 = epoch['seen'].get(0, False)
    stop0 = '(evals >= %(maxfun)s or gens >= %(maxiter)s or early or t0)' % LIMS
    h.cover('stepped', 'begun == 1', **env)
    h.cover('refused', 'begun == 0', **env)
    h.check('no-iteration-begun-when-a-stop-condition-holds', 'implies(n0 > 0 and %s, begun == 0)' % stop0, t0=t0, **env)
    h.check('iteration-begun-otherwise', 'implies(not (n0 > 0 and %s), begun == 1)' % stop0, t0=t0, **env)
    # final state
    n1 = h.len(h.field(stepmon, '_x'))
    g1 = h.ev('max(0, n - 1)', n=n1)
    e1 = h.ev('f[0]', f=h.field(s, '_fcalls'))
    a, b = h.field(s, '_maxiter'), h.field(s, '_maxfun')
    tl = epoch['seen'][epoch['n']]
    h.check('returns-None-iff-not-stopped-afterwards', 'iff(r is None, not (e1 >= b or g1 >= a or early or tl))',
            r=r, e1=e1, g1=g1, a=a, b=b, early=early, tl=tl)
    h.check('stopped-solver-is-finalized', 'implies(r is not None and begun == 1, live is False)', r=r, begun=begun, live=h.field(s, '_live'))


# ---------------------------------------------------------------------------- C04: the counters a user reads
@contract('C04/AbstractSolver.evaluations', ['C04', 'C05'], A + 'AbstractSolver.__evaluations')
def evaluations_getter(h):
    """solver.evaluations is the shared call counter incremented by the wrapped cost (wrap_function contract),
    whatever evaluation monitor is attached and however many records it holds"""
    s, stepmon, fc, epoch = _mk(h)
    nev = h.int('evalmon_records')
    h.assume('nev >= 0', nev=nev)
    em = h.obj(MON, _x=h.list_real('evalmon_x', n=nev), _y=h.list_real('evalmon_y', n=nev), _id=h.clist([]), _info=h.clist([]),
               k=None, _npts=None, label='ChiSquare')
    h.set_field(s, '_evalmon', em)
    v = h.getattr(s, 'evaluations')
    h.check('evaluations-is-the-call-counter', 'v == fc', v=v, fc=fc)


@contract('C04/AbstractSolver.generations', ['C04', 'C05'], A + 'AbstractSolver.__generations')
def generations_getter(h):
    s, stepmon, fc, epoch = _mk(h)
    n = h.len(h.field(stepmon, '_x'))
    v = h.getattr(s, 'generations')
    h.check('generations-is-completed-iterations', 'v == (n - 1 if n >= 1 else 0)', v=v, n=n)


@contract('C04/AbstractSolver.best', ['C04', 'C01'], A + 'AbstractSolver.__bestEnergy')
def best_getters(h):
    """bestEnergy / bestSolution report the decoupled all-time best when there is one, else member 0"""
    s, stepmon, fc, epoch = _mk(h)
    k = h.choice('decoupled', [False, True])
    if k:
        be, bs = h.real('bestEnergy', inf=True), h.vec('best', 2)
        h.set_field(s, '_bestEnergy', be)
        h.set_field(s, '_bestSolution', bs)
        h.check('best-is-the-stored-best', 'same(a, bs) and b == be', a=h.getattr(s, 'bestSolution'), b=h.getattr(s, 'bestEnergy'), bs=bs, be=be)
    else:
        h.check('best-defaults-to-member-0', 'same(a, p0) and b == e0', a=h.getattr(s, 'bestSolution'), b=h.getattr(s, 'bestEnergy'),
                p0=h.ev('p[0]', p=h.field(s, 'population')), e0=h.ev('e[0]', e=h.field(s, 'popEnergy')))
    h.check('Solution()-is-bestSolution', 'same(a, b)', a=h.call(h.getattr(s, 'Solution')), b=h.getattr(s, 'bestSolution'))
contract('C05/Powell._SetEvaluationLimits', ['C05'], SOF + 'PowellDirectionalSolver._SetEvaluationLimits')(
    lambda h: _limits_variant(h, SOF + 'PowellDirectionalSolver', 1000, 1000))
