"""C01/C02/C03/C04: the objective algebra of mystic/tools.py (wrap_function, wrap_bounds, wrap_penalty,
wrap_nested, reduced).  Ghost log `evals`: the points at which the raw cost was called (snapshots)."""
from pyvc.contract import contract

T = 'mystic/tools.py::'


@contract('C04/wrap_function', ['C04', 'C01'], T + 'wrap_function.function_wrapper')
def wrap_function(h):
    raw = h.fn('RAW', ret='real', log='evals')
    mon = h.fn('MON', ret='none', log='monitor')
    scale = h.choice('scale', [1, -1])
    start = h.int('start')
    h.assume('start >= 0', start=start)
    ncalls, fw = h.call(h.get(T + 'wrap_function'), raw, (), mon, scale, start)
    x = h.list_real('x')
    r = h.call(fw, x)
    rx = h.call(h.fn('RAW', ret='real'), x) if not h.is_sym() else None
    evals, monitor = h.log('evals'), h.log('monitor')
    h.check('counter-incremented-once', 'ncalls[0] == start + 1', ncalls=ncalls, start=start)
    h.check('raw-called-once-at-x', 'len(evals) == 1 and seq_eq(evals[0][0], x)', evals=evals, x=x)
    h.check('monitor-gets-x-and-raw-value', 'len(monitor) == 1 and seq_eq(monitor[0][0], x) and eq(scale*monitor[0][1], r)',
            monitor=monitor, x=x, r=r, scale=scale)
    r2 = h.call(fw, x)
    h.check('second-call-counts-again', 'ncalls[0] == start + 2 and len(evals) == 2 and len(monitor) == 2',
            ncalls=ncalls, start=start, evals=h.log('evals'), monitor=h.log('monitor'))


def _bounds(h, kind, x):
    n = h.len(x)
    mn = h.list_real('mn', inf=True) if kind in ('both', 'min') else None
    mx = h.list_real('mx', inf=True) if kind in ('both', 'max') else None
    if mn is not None:
        h.assume('len(mn) == n', mn=mn, n=n)
    if mx is not None:
        h.assume('len(mx) == n', mx=mx, n=n)
    return mn, mx


@contract('C02/wrap_bounds', ['C02', 'C01'], T + 'wrap_bounds.function_wrapper')
def wrap_bounds(h):
    target = h.fn('TARGET', ret='real', log='evals')
    kind = h.choice('bounds_kind', ['both', 'min', 'max', 'none'])
    x = h.list_real('x', nd=True)
    mn, mx = _bounds(h, kind, x)
    fw = h.call(h.get(T + 'wrap_bounds'), target, mn, mx)
    r = h.call(fw, x)
    evals = h.log('evals')
    out = {'both': 'exists(0, len(x), lambda i: x[i] < mn[i] or x[i] > mx[i])',
           'min': 'exists(0, len(x), lambda i: x[i] < mn[i])',
           'max': 'exists(0, len(x), lambda i: x[i] > mx[i])',
           'none': 'False'}[kind]
    env = dict(x=x, mn=mn, mx=mx, r=r, evals=evals)
    h.cover('outside', out, **env)
    h.cover('inside', 'not (%s)' % out, **env)
    h.check('outside-box-not-evaluated', 'implies(%s, len(evals) == 0 and isinf(r))' % out, **env)
    h.check('inside-box-evaluated-once-at-x', 'implies(not (%s), len(evals) == 1 and seq_eq(evals[0][0], x))' % out, **env)
    if h.is_sym():
        h.check('inside-box-value-is-target', 'implies(not (%s), len(evals) == 1 and r == tx)' % out,
                tx=h.call(h.fn('TARGET', ret='real'), x), **env)


@contract('C01/wrap_penalty', ['C01', 'C03', 'C07'], T + 'wrap_penalty.function_wrapper')
def wrap_penalty(h):
    # the solver's own vector (for DE the very list handed to the map) is protected even from a user cost / penalty that
    # writes to its argument -- otherwise the trajectory would depend on whether the map shares memory (C07); the value
    # clauses below are for costs that leave their argument alone (C03 speaks about in-place *constraints* only)
    mut = h.choice('cost_modifies_its_argument', [False, True])
    cost = h.fn('COST', ret='xreal', log='evals', mutates=mut)
    pen = h.fn('PEN', ret='xreal', log='pen_evals', mutates=mut)
    fw = h.call(h.get(T + 'wrap_penalty'), cost, pen)
    x = h.list_real('x')
    x0 = h.snapshot(x)
    r = h.call(fw, x)
    evals, pevals = h.log('evals'), h.log('pen_evals')
    h.check('argument-unchanged', 'seq_eq(x, x0)', x=x, x0=x0)
    if mut:
        return
    h.check('cost-and-penalty-at-x', 'len(evals) == 1 and seq_eq(evals[0][0], x0) and len(pevals) == 1 and seq_eq(pevals[0][0], x0)',
            evals=evals, pevals=pevals, x0=x0)
    if h.is_sym():
        c = h.call(h.fn('COST', ret='xreal'), x0)
        p = h.call(h.fn('PEN', ret='xreal'), x0)
        h.check('value-is-cost-plus-penalty', 'r == c + p', r=r, c=c, p=p)


@contract('C03/wrap_nested', ['C03', 'C01'], T + 'wrap_nested.function_wrapper')
def wrap_nested(h):
    mut = h.choice('constraint_in_place', [False, True])
    outer = h.fn('OUTER', ret='real', log='evals')
    inner = h.fn('CONS', ret='same', log='cons_calls', mutates=mut)
    fw = h.call(h.get(T + 'wrap_nested'), outer, inner)
    x = h.list_real('x')
    x0 = h.snapshot(x)
    r = h.call(fw, x)
    evals = h.log('evals')
    h.check('argument-unchanged', 'seq_eq(x, x0)', x=x, x0=x0)
    if h.is_sym():
        cx = h.call(h.fn('CONS', ret='same'), x0)
        h.check('outer-evaluated-only-at-constrained-point', 'len(evals) == 1 and seq_eq(evals[0][0], cx)', evals=evals, cx=cx)
        h.check('value-is-outer-of-inner', 'r == o', r=r, o=h.call(h.fn('OUTER', ret='real'), cx))
    else:
        h.check('outer-evaluated-once', 'len(evals) == 1', evals=evals)


@contract('C01/reduced', ['C01'], T + 'reduced.dec.func')
def reduced(h):
    arraylike = h.choice('arraylike', [True, False])
    vec = h.choice('cost_is_array_valued', [False, True])
    f = h.fn('F', ret='list' if vec else 'real', log='evals', minlen=1)
    if arraylike:
        red = h.fn('RED', ret='real')
    else:
        red = h.fn('RED2', ret='real')
    func = h.call(h.call(h.get(T + 'reduced'), red, arraylike), f)
    x = h.list_real('x')
    if vec and not arraylike and h.is_sym():
        return      # functools.reduce over a result of symbolic length: decided natively (bounded) only
    r = h.call(func, x)
    evals = h.log('evals')
    h.check('evaluated-once-at-x', 'len(evals) == 1 and seq_eq(evals[0][0], x)', evals=evals, x=x)
    if h.is_sym():
        fx = h.call(h.fn('F', ret='list' if vec else 'real', minlen=1), x)
        if vec:
            h.check('array-valued-cost-goes-through-reducer', 'r == rr', r=r, rr=h.call(red, fx))
        else:
            h.check('scalar-cost-passes-through', 'r == fx', r=r, fx=fx)


@contract('C01/wrap_reducer', ['C01', 'C04'], T + 'wrap_reducer._reduce')
def wrap_reducer(h):
    """SetReducer(f) with a two-argument f: the array-valued cost is folded from the LEFT over exactly its own entries,
    y = f(...f(f(c0, c1), c2)..., c_{n-1}) -- no extra start value (0.0 is not neutral for max / min / products)"""
    n = h.choice('n', [1, 2, 3, 4])
    R = h.fn('REDUCER', ret='real')
    c = h.vec('cost_values', n)
    acc = h.call(h.get(T + 'wrap_reducer'), R)
    r = h.call(acc, c)
    want = h.ev('c[0]', c=c)
    for i in range(1, n):
        want = h.call(h.fn('REDUCER', ret='real'), want, h.ev('c[i]', c=c, i=i))
    h.check('left-fold-over-exactly-the-entries', 'r == want', r=r, want=want)
