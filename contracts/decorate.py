"""C01 / C02 / C03 / C04: the decorated objective that the solvers minimise.

  AbstractSolver._decorate_objective            (used by PowellDirectionalSolver)
  NelderMeadSimplexSolver._decorate_objective
  DifferentialEvolutionSolver._decorate_objective / DifferentialEvolutionSolver2._decorate_objective
  AbstractSolver._bootstrap_objective

The real bodies are executed together with the real tools.wrap_function / wrap_bounds / wrap_penalty / wrap_nested
closures they compose (no summaries for those: the composition ORDER is what is being verified).  Abstract callables:
RAW (the user's cost), PEN (the penalty), CONS (the constraints in force: the user's constraints or, with strict
ranges, and_(constraints, strictbounds) -- under contract in contracts/combinators.py), the evaluation monitor.
Nothing is assumed about CONS here (it may map a point of the box outside the box); the clauses are

  C02  with strict ranges the raw cost is called only at points inside [min, max]
  C03  the raw cost is called only at CONS(x) (the constrained image of the candidate), the candidate is not modified
  C01  a candidate whose constrained image is inside the box gets RAW(c) + PEN(c) with c = CONS(x): the penalty is
       taken at the same constrained point as the cost
  C04  one raw call <=> the counter grows by one <=> one evaluation-monitor record; the counter continues from its
       value before the (re-)decoration; self._cost / self._live are updated
For the DE solvers the constraints are applied by _Step (contracts/de_step.py), so there c = x."""
from pyvc.contract import contract

AS = 'mystic/abstract_solver.py'
SO = 'mystic/scipy_optimize.py'
DE = 'mystic/differential_evolution.py'
MONF = 'mystic/monitors.py'
MON = MONF + '::Monitor'

INBOX = 'forall(0, D, lambda k: mn[k] <= %s[k] and %s[k] <= mx[k])'


def _solver(h, cls, strict, has_run):
    D = h.int('nDim')
    h.assume('D >= 1', D=D)
    mn, mx = h.list_real('strictMin', n=D), h.list_real('strictMax', n=D)
    h.assume('forall(0, D, lambda k: mn[k] <= mx[k])', D=D, mn=mn, mx=mx)
    raw = h.fn('RAW', ret='real', log='evals')
    pen = h.fn('PEN', ret='real', log='pen_evals')
    inplace = h.choice('constraints_in_place', [False, True])
    cons = h.fn('CONS', ret='same', log='cons_calls', inplace=inplace)
    nrec = 3 if has_run else 0
    stepmon = h.obj(MON, _x=h.clist([0.0] * nrec), _y=h.clist([0.0] * nrec), _id=h.clist([]), _info=h.clist([]),
                    k=None, _npts=None, label='ChiSquare')
    # the evaluation monitor may already hold records (installed with data, or shared): the counter must not follow it
    nev = h.choice('evaluation_monitor_records', [0, 3])
    evalmon = h.obj(MON, _x=h.clist([0.0] * nev), _y=h.clist([0.0] * nev), _id=h.clist([None] * nev), _info=h.clist([]), k=None, _npts=None, label='ChiSquare')
    fc0 = h.int('fcalls')
    h.assume('fc0 >= 0', fc0=fc0)
    p0, p1 = h.list_real('member0', nd=True, n=D), h.list_real('member1', nd=True, n=D)
    e0 = h.real('e0', inf=True)
    bounds = h.fn('STRICT_BOUNDS_CONSTRAINT', ret='same')
    s = h.obj(cls, nDim=D, nPop=2, population=h.clist([p0, p1]), popEnergy=h.clist([e0, h.real('e1', inf=True)]),
              _bestEnergy=e0, _bestSolution=None, _stepmon=stepmon, _evalmon=evalmon, _fcalls=h.clist([fc0]),
              _useStrictRange=strict, _strictMin=mn, _strictMax=mx, _constraints=cons, _strictbounds=bounds,
              _penalty=pen, _reducer=None, _cost=h.tup(None, None, None), _live=False, _map=None,
              _energy_history=None, _solution_history=None)

    def mon_call(I, c, args, kwargs):
        I.st.ghost.setdefault('monitor', []).append((args[1], args[2]))
        return None

    def and_(I, c, args, kwargs):
        I.st.ghost.setdefault('and_', []).append(tuple(args))
        # the coupling of the constraints with the bounds is again a constraints callable.  It is built constraints FIRST,
        # bounds second, falling back on the bounds -- the order the solvers' own _Step uses for the point they report, so
        # the evaluated and the reported point are the same fixed point
        I.st.check('C03/constraints-coupled-with-the-bounds-constraints-first-falling-back-on-the-bounds',
                   len(args) == 2 and args[0] is cons and args[1] is bounds and kwargs.get('onfail') is bounds)
        return cons

    def clip_guess(I, c, args, kwargs):
        return args[1]        # contract in contracts/initial_points.py (result inside the box); not needed here

    def simplex(I, c, args, kwargs):
        return I.st.alloc('clist', [])
    if h.is_sym():
        h.set_summaries({(MONF, 'Monitor.__call__'): mon_call, ('mystic/constraints.py', 'and_'): and_,
                         (AS, 'AbstractSolver._clipGuessWithinRangeBoundary'): clip_guess,
                         (SO, 'NelderMeadSimplexSolver._setSimplexWithinRangeBoundary'): simplex})
    return s, D, mn, mx, raw, pen, cons, fc0


def _decorated(h, cls, applies_constraints, counts=True, maps=None):
    strict = h.choice('useStrictRange', [False, True])
    has_run = h.choice('already_iterated', [False, True])
    s, D, mn, mx, raw, pen, cons, fc0 = _solver(h, cls, strict, has_run)
    if not h.is_sym():
        h.unsupported('native mode: the same clauses are evaluated on whole runs by the bounded layer (rtc/c01-c04)')
    if maps:
        which = h.choice('map', maps)
        h.set_field(s, '_map', h.get('mystic/python_map.py::python_map') if which == 'builtin' else h.fn('USER_SUPPLIED_MAP', ret='list'))
    F = h.call(h.getattr(s, '_decorate_objective'), raw, None)
    h.check('C04/counter-continues-across-re-decoration', 's._fcalls[0] == fc0', s=s, fc0=fc0)
    h.check('C04/stored-objective-is-the-decorated-one-and-live', 'same(s._cost[0], F) and same(s._cost[1], raw) and s._live is True',
            s=s, F=F, raw=raw)
    x = h.list_real('x', n=D)
    x0 = h.snapshot(x)
    r = h.call(F, x)
    evals, pevals, mon = h.log('evals'), h.log('pen_evals'), h.log('monitor')
    c = h.call(h.fn('CONS', ret='same'), x0) if applies_constraints else x0
    env = dict(s=s, D=D, mn=mn, mx=mx, x=x, x0=x0, r=r, evals=evals, pevals=pevals, mon=mon, c=c, fc0=fc0)
    inbox_c = INBOX % ('c', 'c')
    h.check('C03/candidate-not-modified', 'seq_eq(x, x0)', **env)
    if counts:
        h.check('C04/counter-and-monitor-follow-the-raw-calls',
                's._fcalls[0] == fc0 + len(evals) and len(mon) == len(evals) and len(evals) <= 1', **env)
    for k in range(2):
        if len(evals) > k:
            h.check('C03/raw-cost-called-only-at-the-constrained-point', 'seq_eq(evals[%d][0], c)' % k, **env)
            if strict:
                h.check('C02/raw-cost-called-only-inside-the-box', INBOX % ('evals[%d][0]' % k, 'evals[%d][0]' % k), **env)
            if counts:
                h.check('C04/monitor-record-is-the-evaluated-point', 'seq_eq(mon[%d][0], evals[%d][0])' % (k, k), **env)
    if strict:
        h.check('C02/outside-the-box-means-not-evaluated', 'implies(not (%s), len(evals) == 0)' % inbox_c, **env)
        h.check('C01/inside-the-box-means-evaluated-once', 'implies(%s, len(evals) == 1)' % inbox_c, **env)
    else:
        h.check('C01/evaluated-once', 'len(evals) == 1', **env)
    if len(evals) == 1:
        rc = h.call(h.fn('RAW', ret='real'), c)
        pc = h.call(h.fn('PEN', ret='real'), c)
        h.check('C01/penalty-taken-at-the-evaluated-point', 'len(pevals) == 1 and seq_eq(pevals[0][0], c)', **env)
        h.check('C01/value-is-cost-plus-penalty-at-the-constrained-point', 'r == rc + pc', rc=rc, pc=pc, **env)
    h.cover('evaluated', 'len(evals) == 1', **env)


@contract('C01/AbstractSolver._decorate_objective', ['C01', 'C02', 'C03', 'C04'], AS + '::AbstractSolver._decorate_objective', native=False)
def decorate_base(h):
    _decorated(h, AS + '::AbstractSolver', True)


@contract('C01/NelderMead._decorate_objective', ['C01', 'C02', 'C03', 'C04', 'C08'], SO + '::NelderMeadSimplexSolver._decorate_objective', native=False)
def decorate_nm(h):
    _decorated(h, SO + '::NelderMeadSimplexSolver', True)


@contract('C01/DE1._decorate_objective', ['C01', 'C02', 'C04'], DE + '::DifferentialEvolutionSolver._decorate_objective', native=False)
def decorate_de1(h):
    _decorated(h, DE + '::DifferentialEvolutionSolver', False)


@contract('C02/AbstractSolver._bootstrap_objective', ['C02', 'C03', 'C04'], AS + '::AbstractSolver._bootstrap_objective', native=False)
def bootstrap(h):
    """the stored decorated objective is reused only while it is live and the caller passes nothing new; after any
    Set* (which ends with _live = False, contracts/solver_config.py) the next Step decorates afresh, so ranges /
    constraints / penalties installed between iterations are in force at the next evaluation"""
    live = h.bool('live')
    stored, raw0 = h.fn('STORED_DECORATED', ret='real'), h.fn('STORED_RAW', ret='real')
    given = h.choice('cost_argument', ['None', 'the-stored-raw', 'the-stored-decorated', 'a-new-function'])
    new = h.fn('NEW_RAW', ret='real')
    arg = {'None': None, 'the-stored-raw': raw0, 'the-stored-decorated': stored, 'a-new-function': new}[given]
    s = h.obj(AS + '::AbstractSolver', _cost=h.tup(stored, raw0, None), _live=live, nDim=2)
    fresh = h.fn('FRESHLY_DECORATED', ret='real')
    log = []

    def decorate(I, c, args, kwargs):
        log.append(args[1])
        return fresh

    def set_objective(I, c, args, kwargs):
        # AbstractSolver.SetObjective: keeps the stored raw cost unless a different one is given
        cost = args[1] if len(args) > 1 else kwargs.get('cost')
        cell = I.st.heap[args[0]]
        if not (cost is None or cost is raw0 or cost is stored):
            cell['_cost'] = (None, cost, None)
            cell['_live'] = False
        return None
    h.set_summaries({(AS, 'AbstractSolver._decorate_objective'): decorate, (AS, 'AbstractSolver.SetObjective'): set_objective})
    r = h.call(h.getattr(s, '_bootstrap_objective'), arg, None)
    reuse = 'live and not is_new'
    e = dict(r=r, stored=stored, fresh=fresh, live=live, is_new=(given == 'a-new-function'), n=len(log),
             target_ok=(len(log) == 1 and (log[0] is (new if given == 'a-new-function' else raw0))) if log else False)
    h.check('stored-objective-reused-only-while-live-and-unchanged', 'same(r, stored) == (%s)' % reuse, **e)
    h.check('otherwise-decorated-afresh-from-the-raw-cost', 'implies(not (%s), same(r, fresh) and n == 1 and target_ok)' % reuse, **e)
    h.check('no-decoration-when-reused', 'implies(%s, n == 0)' % reuse, **e)


@contract('C02/DE2._decorate_objective', ['C02', 'C01'], DE + '::DifferentialEvolutionSolver2._decorate_objective', native=False)
def decorate_de2(h):
    """the map-based DE: the box guard, the penalty and the value clauses hold whatever map evaluates the candidates -- the
    builtin one or a map the user supplied (evaluations are counted by _Step for this solver, not by the objective)"""
    _decorated(h, DE + '::DifferentialEvolutionSolver2', False, counts=False, maps=['builtin', 'user'])
