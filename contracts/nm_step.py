"""C08 / C01 / C03 / C04: one Nelder-Mead iteration (NelderMeadSimplexSolver._Step, `generations > 1` path) against
the textbook update of Appendix A.5, for every simplex, every energy vector and every cost function, at fixed
dimension N (instances N = 1, 2, 3: the body is loop-free at fixed N, so each instance is a complete proof for that
dimension; the dimension itself is not quantified -- stated in the evidence).

Abstract callables:
  COST -- the decorated objective (counter + bounds + penalty around the raw cost, *nested inside the constraints*:
          COST(v) = OBJ(CONS(v)); hence COST(CONS(v)) == COST(v)); finite or +inf
  CONS -- the constraints in force, deterministic and idempotent (hypothesis of C01/C03; identity for C08)
The spec below is written from the published algorithm (Lagarias et al. 1998 as implemented by scipy.optimize.fmin),
not from the code: reflection, expansion, outside / inside contraction, shrink, with the standard or the adaptive
(Gao-Han) coefficients, followed by an ascending sort of the vertices.
"""
import itertools
from pyvc.contract import contract
from contracts._shared import save_probe, check_dump_after_record

SO = 'mystic/scipy_optimize.py'
AS = 'mystic/abstract_solver.py'
MONF = 'mystic/monitors.py'
MON = MONF + '::Monitor'


def _vec(h, expr, n, **vs):
    """componentwise contract expression over vectors given as python lists of scalars"""
    out = []
    for k in range(n):
        env = {name: (v[k] if isinstance(v, list) else v) for name, v in vs.items()}
        out.append(h.ev(expr, **env))
    return out


def _ite_vec(h, c, a, b):
    return [h.ev('x if c else y', c=c, x=x, y=y) for x, y in zip(a, b)]


def _nm(h, N, adaptive):
    # ------------------------------------------------------------------ abstract world
    cost_pure = h.fn('COST', ret='xreal')
    cost = h.fn('COST', ret='xreal', log='evals')
    cons_pure = h.fn('CONS', ret='same_nd')
    ident = h.choice('constraints', ['identity', 'general'])

    def cons_impl(H, I, args, kwargs):
        from pyvc import models as Mo
        if ident == 'identity':
            return I.call(cons_pure_id, [args[0]], {})
        r = I.call(cons_pure, [args[0]], {})
        rr = I.call(cons_pure, [r], {})
        I.st.assume(I.truth_term(Mo.equal(I, r, rr)))                 # idempotent
        cv, cr = I.call(cost_pure, [args[0]], {}), I.call(cost_pure, [r], {})
        I.st.assume(I.truth_term(Mo.compare(I, __import__('ast').Eq(), cv, cr)))   # COST = OBJ o CONS
        I.st.assumptions.add('constraints deterministic and idempotent; decorated objective nests them: COST(CONS(v)) == COST(v)')
        return r

    def cons_native(H, x):
        import numpy
        if ident == 'identity':
            return x
        return numpy.clip(numpy.asarray(x, dtype=float), -1.5, 2.5)     # a deterministic idempotent map

    cons_pure_id = h.fn('IDENT', sym=lambda H, I, args, kwargs: args[0], native=lambda H, x: x)
    cons = h.fn('CONS_', sym=cons_impl, native=cons_native)

    def cost_native(H, x):
        # a fixed non-smooth function of the constrained point (ties and plateaus included)
        import math
        v = [float(t) for t in cons_native(H, x)]
        H.ghost.setdefault('evals', []).append((list(map(float, x)),))
        return float(sum(math.floor(2 * abs(t)) for t in v) + 0.25 * sum(v))
    if not h.is_sym():
        cost = h.fn('COST', native=cost_native)
        cost_pure = h.fn('COSTP', native=lambda H, x: (lambda g: (cost_native(H, x), H.ghost.__setitem__('evals', g))[0])(list(H.ghost.get('evals', []))))

    # ------------------------------------------------------------------ solver state (generations >= 2)
    sim = [[h.real('sim_%d_%d' % (j, k)) for k in range(N)] for j in range(N + 1)]
    pop = h.clist([h.clist(list(row), nd=True) for row in sim], nd=True)
    # precondition Inv: energies are the objective at the vertices, ascending
    fs = [h.call(cost_pure, h.clist(list(row), nd=True)) for row in sim]
    for a, b in zip(fs, fs[1:]):
        h.assume('a <= b', a=a, b=b)
    popE = h.clist(list(fs), nd=True)
    nrec = h.int('nsteps')
    h.assume('nrec >= 2', nrec=nrec)
    xs, ys = h.list_real('stepmon_x', n=nrec), h.list_real('stepmon_y', inf=True, n=nrec)
    stepmon = h.obj(MON, _x=xs, _y=ys, _id=h.clist([]), _info=h.clist([]), k=None, _npts=None, label='ChiSquare')
    cb = h.fn('CALLBACK', ret='none', log='callback', truthy=h.bool('callback_object_is_truthy'))
    s = h.obj(SO + '::NelderMeadSimplexSolver', nDim=N, nPop=N + 1, population=pop, popEnergy=popE,
              _bestSolution=None, _bestEnergy=None, _stepmon=stepmon, _useStrictRange=False, _constraints=cons,
              _strictbounds=cons, radius=0.05, adaptive=adaptive, id=None, _termination=h.fn('TERMINATION', ret='bool'),
              _energy_history=None, _solution_history=None, _init_popEnergy=h.inf(), _fcalls=h.clist([h.int('fcalls')]))

    order = {'processed': False}

    def process_inputs(I, c, args, kwargs):
        order['processed'] = True
        return I.st.alloc('dict', {'callback': cb})

    def bootstrap(I, c, args, kwargs):
        I.st.check('C03/step-settings-processed-before-the-objective-is-bootstrapped', order['processed'] is True)
        return cost

    def mon_call(I, c, args, kwargs):
        from pyvc import models as Mo
        I.st.ghost.setdefault('records', []).append((Mo.snapshot(I, args[1]), args[2]))
        m = args[0]
        for f in ('_x', '_y'):
            lst = I.st.heap[m][f]
            if lst.kind == 'clist':
                I.st.heap[lst] = list(I.st.heap[lst]) + [0.0]
            else:
                cc = dict(I.st.heap[lst])
                cc['len'] = cc['len'] + 1
                I.st.heap[lst] = cc
        return None
    if h.is_sym():
        h.set_summaries({
            (SO, 'NelderMeadSimplexSolver._process_inputs'): process_inputs,
            (AS, 'AbstractSolver._bootstrap_objective'): bootstrap,
            (AS, 'AbstractSolver.__save_state'): save_probe,
            (MONF, 'Monitor.__call__'): mon_call,
        })
    else:
        h.unsupported('native mode: the bounded layer compares whole runs with scipy.optimize.fmin (rtc/c08)')

    # ------------------------------------------------------------------ the call
    h.call(h.getattr(s, '_Step'))

    # ------------------------------------------------------------------ textbook spec (Appendix A.5)
    if adaptive:
        rho, chi, psi, sigma = 1, h.ev('1 + 2.0/N', N=N), h.ev('0.75 - 1.0/(2*N)', N=N), h.ev('1 - 1.0/N', N=N)
    else:
        rho, chi, psi, sigma = 1, 2, 0.5, 0.5
    F = lambda v: h.call(cost_pure, h.clist(list(v), nd=True))      # noqa: E731
    C = lambda v: (list(v) if ident == 'identity' else                # noqa: E731
                   [h.ev('r[k]', r=h.call(cons_pure, h.clist(list(v), nd=True)), k=k) for k in range(N)])
    s0 = C(sim[0])
    verts = [s0] + sim[1:]
    xbar = [h.ev('(' + ' + '.join('a%d' % j for j in range(N)) + ') / N', N=N, **{'a%d' % j: verts[j][k] for j in range(N)})
            for k in range(N)]
    worst = verts[N]
    xr = _vec(h, '(1 + rho)*xb - rho*w', N, rho=rho, xb=xbar, w=worst)
    fr = F(xr)
    xe = _vec(h, '(1 + rho*chi)*xb - rho*chi*w', N, rho=rho, chi=chi, xb=xbar, w=worst)
    fe = F(xe)
    xc = _vec(h, '(1 + psi*rho)*xb - psi*rho*w', N, rho=rho, psi=psi, xb=xbar, w=worst)
    fc = F(xc)
    xcc = _vec(h, '(1 - psi)*xb + psi*w', N, psi=psi, xb=xbar, w=worst)
    fcc = F(xcc)
    f0, fn1, fN = fs[0], fs[N - 1], fs[N]
    env = dict(fr=fr, fe=fe, fc=fc, fcc=fcc, f0=f0, fn1=fn1, fN=fN)
    expand = h.ev('fr < f0', **env)
    reflect = h.ev('not (fr < f0) and fr < fn1', **env)
    outside = h.ev('not (fr < f0) and not (fr < fn1) and fr < fN', **env)
    inside = h.ev('not (fr < f0) and not (fr < fn1) and not (fr < fN)', **env)
    shrink = h.ev('(outside and not (fc <= fr)) or (inside and not (fcc < fN))', outside=outside, inside=inside, **env)
    # replacement of the worst vertex when there is no shrink
    new_w = _ite_vec(h, expand, _ite_vec(h, h.ev('fe < fr', **env), xe, xr),
                     _ite_vec(h, reflect, xr, _ite_vec(h, outside, xc, xcc)))
    new_fw = h.ev('(fe if fe < fr else fr) if expand else (fr if reflect else (fc if outside else fcc))',
                  expand=expand, reflect=reflect, outside=outside, **env)
    shr = [s0] + [_vec(h, 'a + sigma*(b - a)', N, sigma=sigma, a=s0, b=verts[j]) for j in range(1, N + 1)]
    fshr = [f0] + [F(shr[j]) for j in range(1, N + 1)]
    spec_sim = [_ite_vec(h, shrink, shr[j], (verts[j] if j < N else new_w)) for j in range(N + 1)]
    spec_f = [h.ev('a if c else b', c=shrink, a=fshr[j], b=(fs[j] if j < N else new_fw)) for j in range(N + 1)]
    n_evals = h.ev('1 + (1 if expand else 0) + (1 if outside else 0) + (1 if inside else 0) + (N if shrink else 0)',
                   expand=expand, outside=outside, inside=inside, shrink=shrink, N=N)

    # ------------------------------------------------------------------ postconditions
    pop1, popE1 = h.field(s, 'population'), h.field(s, 'popEnergy')
    P = [[h.ev('p[j][k]', p=pop1, j=j, k=k) for k in range(N)] for j in range(N + 1)]
    E = [h.ev('e[j]', e=popE1, j=j) for j in range(N + 1)]
    # C08: the new simplex is the textbook simplex, sorted (the reported vertex 0 additionally passed through CONS,
    # which for an idempotent CONS nested in the objective changes neither its energy nor its constrained image)
    perms = []
    for perm in itertools.permutations(range(N + 1)):
        conj = []
        for j, pj in enumerate(perm):
            tgt = spec_sim[pj] if j > 0 else C(spec_sim[pj])
            conj.append(h.ev(' and '.join('a%d == b%d' % (k, k) for k in range(N)) + ' and e == g',
                             e=E[j], g=spec_f[pj], **dict([('a%d' % k, P[j][k]) for k in range(N)] +
                                                          [('b%d' % k, tgt[k]) for k in range(N)])))
        perms.append(h.ev(' and '.join('c%d' % i for i in range(len(conj))), **{'c%d' % i: c for i, c in enumerate(conj)}))
    h.check('C08/new-simplex-is-the-textbook-update-sorted',
            ' or '.join('p%d' % i for i in range(len(perms))), **{'p%d' % i: p for i, p in enumerate(perms)})
    h.check('C08/energies-ascending', ' and '.join('e%d <= e%d' % (j, j + 1) for j in range(N)),
            **{'e%d' % j: E[j] for j in range(N + 1)})
    evals = h.log('evals')
    h.check('C08/number-of-evaluations-is-the-textbook-count', 'len(evals) == n', evals=evals, n=n_evals)
    # C01: every stored energy is the objective at its vertex; C03: the reported vertex is a constrained point
    for j in range(N + 1):
        h.check('C01/vertex-energies-are-the-objective-at-the-vertices', 'e == f', e=E[j],
                f=h.call(cost_pure, h.clist(list(P[j]), nd=True)))
    if ident != 'identity':
        cp0 = C(P[0])
        h.check('C03/reported-vertex-is-a-fixed-point-of-the-constraints',
                ' and '.join('a%d == b%d' % (k, k) for k in range(N)),
                **dict([('a%d' % k, P[0][k]) for k in range(N)] + [('b%d' % k, cp0[k]) for k in range(N)]))
    # C04: best never worsens; one record (best vertex, best energy); callback once with the best
    h.check('C04/best-energy-non-increasing', 'e0 <= f0', e0=E[0], f0=f0)
    recs = h.log('records') if not h.is_sym() else tuple(h.st.ghost.get('records', []))
    h.check('C04/one-step-monitor-record-of-the-best', 'len(recs) == 1 and seq_eq(recs[0][0], p0) and recs[0][1] == e0',
            recs=recs, p0=h.ev('p[0]', p=pop1), e0=E[0])
    cbl = h.log('callback')
    h.check('C04/callback-once-with-the-best', 'len(cbl) == 1 and seq_eq(cbl[0][0], p0)', cbl=cbl, p0=h.ev('p[0]', p=pop1))
    if h.is_sym():
        check_dump_after_record(h)
    h.cover('shrink', 'c', c=shrink)
    h.cover('expansion', 'c', c=expand)


for _N in (1, 2, 3):
    for _ad in (False, True):
        contract('C08/NM._Step/N=%d,%s' % (_N, 'adaptive' if _ad else 'standard'), ['C08', 'C01', 'C03', 'C04', 'C06', 'C02'],
                 SO + '::NelderMeadSimplexSolver._Step', native=False,
                 note='fixed dimension N=%d; all simplices, energies, cost functions; constraints identity or a general '
                      'idempotent map' % _N)(lambda h, n=_N, a=_ad: _nm(h, n, a))
