"""C13 / C14: the code that mystic.symbolic GENERATES -- verified per generated program, for all input vectors.

generate_solvers / generate_conditions build python source text and exec / eval it.  At check time the REAL generators
are run (CPython) on an enumerated family of relations `x_i <cmp> f(other variables)`; the generated text is read from
the generated function (its docstring is the very string handed to exec / eval, also present in co_consts) and executed
by the same symbolic interpreter as everything else, with `_tol` bound to the real mystic.math.tolerance, `equal` to the
numpy.equal model, and `tol`, `rel` arbitrary with tol > 0, rel >= 0 (defaults 1e-15).  One proof per program covers
every input vector x.  The string processing inside constraints_parser itself is not verified (strings): what is
verified is its OUTPUT, program by program (translation validation); programs beyond the enumerated family are the
bounded layer's (rtc/c13, rtc/c14).

C13 clauses: the relation holds on the result (strictly for < > !=), only x_i may change, the input is returned unchanged
when it satisfies the relation (for strict comparators: when it satisfies it beyond the tolerance margin -- inside the
margin the generated code moves the point: finding F26).
C14 clauses: the condition value is <= 0 exactly when the inequality holds (with the same margin for strict ones) and
== 0 exactly when the equality holds; applying the generated constraint drives the generated condition to <= 0 / == 0."""
from pyvc.contract import contract

# (number of variables, index of the isolated variable, right-hand side in mystic syntax, the same as a python expression over y)
RHS = [(3, 0, 'x1 + 2', 'y[1] + 2'), (3, 1, '3*x0 - x2', '3*y[0] - y[2]'), (3, 2, '5', '5'),
       (3, 0, 'x1*x2', 'y[1]*y[2]'), (12, 11, 'x1 + 2', 'y[1] + 2'), (12, 1, 'x10 - x11', 'y[10] - y[11]')]
CMPS = ['>=', '<=', '>', '<', '=', '!=']
PYCMP = {'=': '==', '>=': '>=', '<=': '<=', '>': '>', '<': '<', '!=': '!='}


def _generate(kind, text, nvars):
    """run the real generator (CPython) and return the generated source text(s)"""
    import io, contextlib
    import mystic.symbolic as ms
    with contextlib.redirect_stdout(io.StringIO()):
        if kind == 'solver':
            fs = ms.generate_solvers(text, nvars=nvars)
            return [f.__doc__ for f in fs]
        ineq, eq = ms.generate_conditions(text, nvars=nvars)
        return [f.__doc__ for f in ineq], [f.__doc__ for f in eq]


def _env(h, x):
    tol, rel = h.real('tol'), h.real('rel')
    h.assume('tol > 0 and rel >= 0', tol=tol, rel=rel)
    if h.is_sym():
        from pyvc.lib import lib_lookup
        equal = lib_lookup(h.I, 'numpy.equal')
    else:
        import numpy
        equal = numpy.equal
    return dict(x=x, tol=tol, rel=rel, _tol=h.get('mystic/math/__init__.py::tolerance'), equal=equal), tol, rel


def _program(h):
    nvars, i, rhs_m, rhs_p = h.choice('relation', RHS)
    cmp_ = h.choice('comparator', CMPS)
    return nvars, i, cmp_, 'x%d %s %s' % (i, cmp_, rhs_m), rhs_p


@contract('C13/generated-constraint', ['C13'], 'mystic/symbolic.py::generate_solvers', samples=400)
def generated_constraint(h):
    nvars, i, cmp_, text, rhs = _program(h)
    code = _generate('solver', text, nvars)
    h.check('one-solver-per-relation', 'n == 1', n=len(code))
    x = h.list_real('x', n=nvars)
    env, tol, rel = _env(h, x)
    x0 = h.snapshot(x)
    h.exec_text(code[0], **env)
    e = dict(y=x, x0=x0, i=i, n=nvars, tol=tol, rel=rel)
    f = '(%s)' % rhs
    h.check('relation-holds-on-the-result', 'y[i] %s %s' % (PYCMP[cmp_], f), **e)
    h.check('only-the-isolated-variable-may-change', 'forall(0, n, lambda k: k == i or y[k] == x0[k])', **e)
    f0 = '(%s)' % rhs.replace('y[', 'x0[')
    if cmp_ in ('>=', '<=', '=', '!='):
        h.check('input-returned-unchanged-when-it-satisfies-the-relation', 'implies(x0[i] %s %s, y[i] == x0[i])' % (PYCMP[cmp_], f0), **e)
    else:
        margin = '(tol + abs(%s) * rel)' % f0
        sat = 'x0[i] %s %s %s %s' % ('>=' if cmp_ == '>' else '<=', f0, '+' if cmp_ == '>' else '-', margin)
        h.check('input-returned-unchanged-when-it-satisfies-the-relation-beyond-the-margin', 'implies(%s, y[i] == x0[i])' % sat, **e)


@contract('C14/generated-condition', ['C14'], 'mystic/symbolic.py::generate_conditions', samples=400)
def generated_condition(h):
    nvars, i, cmp_, text, rhs = _program(h)
    if cmp_ == '!=':
        return          # '!=' lines are not turned into penalty conditions by a sign rule (documented: equality / inequality only)
    ineq, eq = _generate('condition', text, nvars)
    x = h.list_real('x', n=nvars)
    env, tol, rel = _env(h, x)
    e = dict(y=x, i=i, tol=tol, rel=rel)
    f = '(%s)' % rhs
    if cmp_ == '=':
        h.check('one-equality-condition', 'a == 0 and b == 1', a=len(ineq), b=len(eq))
        v = h.eval_text(eq[0], **env)
        h.check('value-is-zero-exactly-where-the-equality-holds', '(v == 0) == (y[i] == %s)' % f, v=v, **e)
    else:
        h.check('one-inequality-condition', 'a == 1 and b == 0', a=len(ineq), b=len(eq))
        v = h.eval_text(ineq[0], **env)
        margin = '0' if cmp_ in ('>=', '<=') else '(tol + abs(%s) * rel)' % f
        holds = 'y[i] %s %s %s %s' % ('>=' if cmp_[0] == '>' else '<=', f, '+' if cmp_[0] == '>' else '-', margin)
        h.check('value-nonpositive-exactly-where-the-inequality-holds', '(v <= 0) == (%s)' % holds, v=v, **e)
    # cross clause: the constraint generated from the same text drives the condition to satisfied
    code = _generate('solver', text, nvars)
    h.exec_text(code[0], **env)
    v2 = h.eval_text((eq if cmp_ == '=' else ineq)[0], **env)
    h.check('generated-constraint-satisfies-the-generated-condition', 'v2 == 0' if cmp_ == '=' else 'v2 <= 0', v2=v2)


BOXES = [([-1.0, 0.0], [2.0, 5.0]), ([None, -3.5], [4.0, None]), ([0.25, -2.0, 1e-3], [0.75, 2.0, 1e3])]


@contract('C13/generated-bounds-constraint', ['C13', 'C02'], 'mystic/symbolic.py::symbolic_bounds', samples=300)
def generated_bounds(h):
    """the bounds constraint built from (min, max) on the symbolic path (symbolic_bounds -> simplify -> generate_solvers):
    the generated statements, executed one after the other, clip into the box and are the identity inside it"""
    import io, contextlib
    import mystic.symbolic as ms
    lo, hi = h.choice('box', BOXES)
    n = len(lo)
    with contextlib.redirect_stdout(io.StringIO()):
        text = ms.symbolic_bounds(list(lo), list(hi))
        code = [f.__doc__ for f in ms.generate_solvers(ms.simplify(text), nvars=n)]
    x = h.list_real('x', n=n)
    env, tol, rel = _env(h, x)
    x0 = h.snapshot(x)
    for stmt in code:
        h.exec_text(stmt, **env)
    inside = ' and '.join(['y[%d] >= %r' % (k, lo[k]) for k in range(n) if lo[k] is not None] +
                          ['y[%d] <= %r' % (k, hi[k]) for k in range(n) if hi[k] is not None])
    h.check('result-inside-the-box', inside, y=x)
    h.check('identity-inside-the-box', 'implies(%s, seq_eq(y, x0))' % inside.replace('y[', 'x0['), y=x, x0=x0)
    clipped = ' and '.join('y[%d] == %s' % (k, 'x0[%d]' % k if lo[k] is None and hi[k] is None else
                                            ('(%r if x0[%d] > %r else x0[%d])' % (hi[k], k, hi[k], k)) if lo[k] is None else
                                            ('(%r if x0[%d] < %r else x0[%d])' % (lo[k], k, lo[k], k)) if hi[k] is None else
                                            ('(%r if x0[%d] < %r else (%r if x0[%d] > %r else x0[%d]))' % (lo[k], k, lo[k], hi[k], k, hi[k], k)))
                            for k in range(n))
    h.check('clipped-at-the-nearest-bound', clipped, y=x, x0=x0)


# ---------------------------------------------------------------------------- generate_constraint: coupling the solvers
STRUCTS = [('a',), ('a', 'b'), ('a', 'b', 'c'), (('a', 'b'), 'c'), ('a', ('b', 'c')), (('a', 'b'), ('c', 'd'), ('e',)), (('a',), ('b', 'c', 'd'))]


def _flat(t):
    out = []
    for x in t:
        out.extend(_flat(x) if isinstance(x, tuple) else [x])
    return out


@contract('C13/generate_constraint', ['C13', 'C14'], 'mystic/symbolic.py::generate_constraint', native=False)
def generate_constraint(h):
    """the compound constraint built from a (possibly nested) tuple of solvers -- as generate_solvers returns for a tuple
    of constraint strings -- applies EVERY solver exactly once, each to the result of the one applied before it (default
    coupler `inner`, join=None): none is dropped, whatever the nesting"""
    if not h.is_sym():
        h.unsupported('symbolic only')
    struct = h.choice('solvers', STRUCTS)
    one_coupler = h.choice('ctype', ['None', 'single-coupler'])
    names = _flat(struct)
    fns = {nm: h.fn('SOLVER_' + nm, ret='same', log='applied_' + nm) for nm in names}

    def build(t):
        return h.tup(*[build(x) if isinstance(x, tuple) else fns[x] for x in t])
    G = h.get('mystic/symbolic.py::generate_constraint')
    if one_coupler == 'None':
        cf = h.call(G, build(struct))
    else:
        cf = h.call(G, build(struct), h.get('mystic/coupler.py::inner'))
    x = h.vec('x', 2)
    r = h.call(cf, x)
    logs = {nm: h.log('applied_' + nm) for nm in names}
    h.check('every-solver-applied-exactly-once', 'ok', ok=all(len(logs[nm]) == 1 for nm in names))
    if all(len(logs[nm]) == 1 for nm in names):
        # chained: each solver receives the previous one's result, starting from x.  The statement does not fix the order
        # (the relations do not feed one another): first-to-last and last-to-first (what `inner` coupling gives) both do.
        alts, env = [], dict(r=r)
        for tag, order in (('rev', list(reversed(names))), ('fwd', list(names))):
            cur = x
            conj = []
            for k, nm in enumerate(order):
                env['%sarg%d' % (tag, k)] = logs[nm][0][0]
                env['%scur%d' % (tag, k)] = cur
                conj.append('seq_eq(%sarg%d, %scur%d)' % (tag, k, tag, k))
                cur = h.call(h.fn('SOLVER_' + nm, ret='same'), cur)
            env[tag + 'end'] = cur
            alts.append('(%s and seq_eq(r, %send))' % (' and '.join(conj), tag))
        h.check('solvers-chained-each-on-the-result-of-the-one-before-and-the-last-result-returned', ' or '.join(alts), **env)


# ---------------------------------------------------------------------------- generate_penalty: summing the per-line terms
PSTRUCTS = [('e0',), ('e0', 'i1'), ('i0', 'i1', 'e2'), (('e0', 'i1'), 'i2'), (('i0',), ('e1', 'e2'))]


@contract('C14/generate_penalty', ['C14', 'C15'], 'mystic/symbolic.py::generate_penalty', native=False)
def generate_penalty(h):
    """the penalty built from a (possibly nested) tuple of condition functions -- as generate_conditions returns for a
    tuple of constraint strings -- is the SUM of one quadratic term per condition (default types: quadratic_equality
    k*c(x)^2 for an equality condition, quadratic_inequality 2k*max(0, c(x))^2 for an inequality condition -- the formulas
    of C15 -- with k = 100 at iteration 0): no condition is dropped whatever the nesting, hence the penalty is zero exactly where every condition
    is satisfied and positive elsewhere"""
    if not h.is_sym():
        h.unsupported('symbolic only')
    struct = h.choice('conditions', PSTRUCTS)
    names = _flat(struct)
    fns = {nm: h.fn('COND_' + nm, ret='real', attrs={'__name__': ('inequality_' if nm[0] == 'i' else 'equality_') + nm, '__doc__': nm}) for nm in names}

    def build(t):
        return h.tup(*[build(x) if isinstance(x, tuple) else fns[x] for x in t])
    pf = h.call(h.get('mystic/symbolic.py::generate_penalty'), build(struct))
    x = h.vec('x', 2)
    r = h.call(pf, x)
    cs = {nm: h.call(h.fn('COND_' + nm, ret='real'), x) for nm in names}
    terms = ['100 * %s * %s' % (nm, nm) if nm[0] == 'e' else '(200 * %s * %s if %s > 0 else 0)' % (nm, nm, nm) for nm in names]
    sat = ['%s == 0' % nm if nm[0] == 'e' else '%s <= 0' % nm for nm in names]
    h.check('penalty-is-the-sum-of-one-quadratic-term-per-condition', 'r == ' + ' + '.join(terms), r=r, **cs)
    h.check('zero-exactly-where-every-condition-is-satisfied', 'iff(r == 0, %s)' % ' and '.join(sat), r=r, **cs)
    h.check('never-negative', 'r >= 0', r=r, **cs)


@contract('C14/approx.tolerance', ['C14', 'C13'], 'mystic/math/approx.py::tolerance', samples=200)
def tolerance(h):
    """_tol(x, tol, rel), the band the generated strict comparisons use: tol + |x| * rel -- never negative for
    non-negative tol and rel, whatever the sign of x"""
    x, tol, rel = h.real('x'), h.real('tol'), h.real('rel')
    h.assume('tol >= 0 and rel >= 0', tol=tol, rel=rel)
    r = h.call(h.get('mystic/math/approx.py::tolerance'), x, tol, rel)
    h.check('absolute-plus-relative-band', 'r == tol + (x if x >= 0 else -x) * rel', r=r, x=x, tol=tol, rel=rel)
    h.check('band-never-negative', 'r >= 0', r=r)
