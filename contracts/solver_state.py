"""C06: the state-transfer methods of AbstractSolver -- __load_state (behind LoadSolver), __copy__, __deepcopy__.

A solver's resumable state IS its __dict__ (SaveSolver pickles the instance; dill's own behaviour is an assumed
contract, exercised by the bounded layer rtc/c06 at every generation).  What is proved here: the transfer is exact --
every attribute of the source arrives unchanged, explicit overrides win, and NOTHING else is touched or adjusted
(a restored solver that silently re-decorates, clips or re-draws would not resume "as if never interrupted")."""
from pyvc.contract import contract

AS = 'mystic/abstract_solver.py'
A = AS + '::AbstractSolver'


@contract('C06/AbstractSolver.__load_state', ['C06', 'C04'], A + '._AbstractSolver__load_state', native=False)
def load_state(h):
    """source attributes: population (a list), popEnergy, _live (any boolean), _fcalls, _stepmon, generations-relevant
    private state; target: a fresh instance with stale values for some of them and one attribute the source lacks;
    overrides: none / the documented `_state=filename` / an arbitrary attribute"""
    if not h.is_sym():
        h.unsupported('symbolic only')
    over = h.choice('overrides', ['none', '_state', 'existing-attribute'])
    live = h.bool('source_live')
    pop, popE, fcalls, mon = h.list_real('population'), h.list_real('popEnergy', inf=True), h.clist([h.int('fcalls')]), h.obj(None, _x=h.clist([]))
    cost = h.tup(h.fn('WRAPPED', ret='real'), h.fn('RAW', ret='real'), None)
    src = h.obj(A, population=pop, popEnergy=popE, _live=live, _fcalls=fcalls, _stepmon=mon, _cost=cost, _state=None, nDim=h.int('nDim'))
    stale = h.list_real('stale_population')
    tgt = h.obj(A, population=stale, _live=h.bool('target_live'), only_in_target=7, _state=None)
    kw = {} if over == 'none' else {'_state': 'restart.pkl'} if over == '_state' else {'nDim': 3}
    h.call(h.getattr(tgt, '_AbstractSolver__load_state'), src, **kw)
    e = dict(t=tgt, s=src, pop=pop, popE=popE, fcalls=fcalls, mon=mon, cost=cost, live=live)
    h.check('every-source-attribute-arrives-unchanged',
            'same(t.population, pop) and same(t.popEnergy, popE) and same(t._fcalls, fcalls) and same(t._stepmon, mon) and same(t._cost, cost)', **e)
    h.check('liveness-of-the-objective-is-taken-from-the-source', 't._live == live', **e)
    if over == '_state':
        h.check('overrides-win', "t._state == 'restart.pkl' and t.nDim == s.nDim", **e)
    elif over == 'existing-attribute':
        h.check('overrides-win', 't.nDim == 3 and t._state is None', **e)
    else:
        h.check('no-override-no-change', 't.nDim == s.nDim and t._state is None', **e)
    h.check('attributes-the-source-lacks-are-kept', 't.only_in_target == 7', **e)
    h.check('source-not-modified', 'same(s.population, pop) and s._live == live and same(s._cost, cost)', **e)


def _solver_for_copy(h):
    pop = h.clist([h.list_real('member0', nd=True), h.list_real('member1', nd=True)])
    popE = h.clist([h.real('e0', inf=True), h.real('e1', inf=True)])
    fcalls = h.clist([h.int('fcalls')])
    mon = h.obj('mystic/monitors.py::Monitor', _x=h.clist([]), _y=h.clist([]), _id=h.clist([]), _info=h.clist([]), k=None, _npts=None, label='ChiSquare')
    # the user's objective may be a stateful callable OBJECT (call counter, cache) and ExtraArgs may hold mutable data
    raw = h.obj(None, calls=h.clist([0]), cache=h.dict())
    cost = h.tup(h.fn('WRAPPED', ret='real'), raw, h.tup(h.clist([1.0, 2.0]), 3))
    s = h.obj(A, population=pop, popEnergy=popE, _fcalls=fcalls, _stepmon=mon, _cost=cost, _live=h.bool('live'), nDim=2, nPop=2,
              _bestEnergy=None, _bestSolution=None)
    return s, pop, popE, fcalls, mon, cost


@contract('C06/AbstractSolver.__deepcopy__', ['C06', 'C04'], A + '.__deepcopy__', native=False)
def deepcopy(h):
    """a deep copy carries every attribute, shares no mutable state with the original (advancing one cannot change the
    other), and is marked not-live so that it rebuilds its objective around its OWN counter at its next Step"""
    if not h.is_sym():
        h.unsupported('symbolic only')
    s, pop, popE, fcalls, mon, cost = _solver_for_copy(h)
    snap = [h.snapshot(h.ev('pop[%d]' % i, pop=pop)) for i in range(2)]
    r = h.call(h.getattr(s, '__deepcopy__'), h.dict())
    e = dict(r=r, s=s, pop=pop, popE=popE, fcalls=fcalls, mon=mon, m0=snap[0], m1=snap[1])
    h.check('copy-is-a-different-object-of-the-same-class', 'not same(r, s)', **e)
    h.check('no-mutable-state-shared-with-the-original',
            'not same(r.population, pop) and not same(r.population[0], pop[0]) and not same(r.population[1], pop[1]) and '
            'not same(r.popEnergy, popE) and not same(r._fcalls, fcalls) and not same(r._stepmon, mon) and not same(r._stepmon._x, mon._x)', **e)
    h.check('objective-object-is-a-copy-too', 'not same(r._cost[1], s._cost[1]) and not same(r._cost[1].calls, s._cost[1].calls) '
            'and r._cost[1].calls[0] == 0', **e)
    h.check('mutable-ExtraArgs-are-copies-too', 'not same(r._cost[2][0], s._cost[2][0]) and seq_eq(r._cost[2][0], s._cost[2][0]) '
            'and r._cost[2][1] == 3', **e)
    h.check('copy-has-equal-contents',
            'seq_eq(r.population[0], m0) and seq_eq(r.population[1], m1) and r.popEnergy[0] == popE[0] and r.popEnergy[1] == popE[1] '
            'and r._fcalls[0] == fcalls[0] and r.nDim == 2 and r.nPop == 2', **e)
    h.check('copy-rebuilds-its-objective-around-its-own-counter', 'r._live is False', **e)
    h.check('original-unchanged', 'same(s.population, pop) and seq_eq(pop[0], m0) and seq_eq(pop[1], m1) and same(s._fcalls, fcalls)', **e)


@contract('C06/Step/state-dumped-at-STOP', ['C06', 'C04'], A + '.Step', native=False)
def stop_dump(h):
    """the restart file a solver writes when it stops (forced dump in Step) holds the solver exactly as Step leaves it:
    whatever Finalize() does to the solver (Powell's Finalize adds a step-monitor record; here an ABSTRACT Finalize that
    marks the solver not-live and may add a record) has been done before the dump, so a solver restored from that file
    continues like the stopped solver itself"""
    if not h.is_sym():
        h.unsupported('symbolic only')
    from contracts.solver_step import _mk
    s, stepmon, fc, epoch = _mk(h)
    h.set_field(s, '_state', 'restart.pkl')
    adds = h.choice('finalize_adds_a_monitor_record', [False, True])
    dumps = []

    def mon_len(I):
        from pyvc.values import SV
        return SV(I.st.heap[I.st.heap[I.st.heap[s]['_stepmon']]['_x']]['len'], 'int')

    def save(I, c, args, kwargs):
        cell = I.st.heap[s]
        dumps.append((cell['_live'], mon_len(I), I.st.heap[cell['_fcalls']][0]))
        return None

    def finalize(I, c, args, kwargs):
        st = I.st
        st.heap[s]['_live'] = False
        if adds:
            mon = st.heap[s]['_stepmon']
            for f in ('_x', '_y'):
                lst = st.heap[mon][f]
                cc = dict(st.heap[lst])
                cc['len'] = cc['len'] + 1
                st.heap[lst] = cc
        return None
    h.set_summaries({('mystic/abstract_solver.py', 'AbstractSolver.SaveSolver'): save,
                     ('mystic/abstract_solver.py', 'AbstractSolver.Finalize'): finalize})
    r = h.call(h.getattr(s, 'Step'))
    begun = epoch.get('begun', 0)
    n1 = h.len(h.field(stepmon, '_x'))
    e1 = h.ev('f[0]', f=h.field(s, '_fcalls'))
    live1 = h.field(s, '_live')
    h.cover('stopped-after-a-step', 'r is not None and begun == 1', r=r, begun=begun)
    if begun == 1:
        h.check('a-step-that-stops-the-solver-dumps-its-state', 'implies(r is not None, nd >= 1)', r=r, nd=len(dumps))
    if dumps:
        dl, dn, de = dumps[-1]
        h.check('the-dumped-solver-is-finalized-like-the-solver-Step-leaves', 'dl is live1', dl=dl, live1=live1)
        h.check('the-dumped-solver-has-every-monitor-record-and-evaluation-of-the-solver-Step-leaves', 'dn == n1 and de == e1',
                dn=dn, n1=n1, de=de, e1=e1)


@contract('C06/AbstractSolver.__save_state', ['C06'], A + '._AbstractSolver__save_state', native=False)
def save_state(h):
    """the periodic restart dump: written exactly when the generation count is a multiple of the registered save
    frequency (every generation for frequency 1, never without a frequency); a forced dump (at STOP) is written exactly
    when a state file is registered; never twice in one call"""
    if not h.is_sym():
        h.unsupported('symbolic only')
    force = h.choice('force', [False, True])
    freq = h.choice('save_frequency', ['None', 'int'])
    registered = h.choice('state_file_registered', [False, True])
    k = h.int('frequency')
    h.assume('k >= 1', k=k)
    g = h.int('generations')
    h.assume('g >= 0', g=g)
    mon = h.obj('mystic/monitors.py::Monitor', _x=h.list_real('sx'), _y=h.list_real('sy'), _id=h.clist([]), _info=h.clist([]), k=None, _npts=None, label='s')
    h.assume('len(mon._x) == g + 1 and len(mon._y) == g + 1', mon=mon, g=g)
    s = h.obj(A, _stepmon=mon, _saveiter=(k if freq == 'int' else None), _state=('restart.pkl' if registered else None))
    dumps = []
    h.set_summaries({(AS, 'AbstractSolver.SaveSolver'): lambda I, c, a, kw: dumps.append(1)})
    h.call(h.getattr(s, '_AbstractSolver__save_state'), force)
    n = len(dumps)
    if force and registered:
        h.check('forced-dump-written-once-to-the-registered-file', 'n == 1', n=n)
    elif freq == 'int':
        # (a forced call without a registered file falls through to the periodic rule)
        h.check('periodic-dump-exactly-at-multiples-of-the-frequency', 'n == (1 if g % k == 0 else 0)', n=n, g=g, k=k)
    else:
        h.check('no-dump-without-a-frequency', 'n == 0', n=n)


@contract('C06/AbstractSolver.SaveSolver', ['C06'], A + '.SaveSolver', native=False)
def save_solver(h):
    """SaveSolver(filename): the solver ITSELF (not a copy, not a part of it) is handed to dill.dump once, with the file opened
    for binary writing under the name given -- or, without a name, under the registered restart file -- the name is
    remembered as the restart file, and the file is closed whatever dill does; nothing else of the solver changes before
    the dump (pickling itself is dill's: an assumed contract)"""
    if not h.is_sym():
        h.unsupported('symbolic only')
    given = h.choice('filename', ['given', 'None-with-registered-file'])
    fails = h.choice('dill_raises', [False, True])
    pop = h.clist([h.vec('member0', 2)])
    infos = []
    mon = h.obj(None, info=h.fn('MONITOR_INFO', sym=lambda H, I, a, k: infos.append(a[0])))
    s = h.obj(A, population=pop, _stepmon=mon, _state=('registered.pkl' if given != 'given' else None), _live=h.bool('live'))
    dumps = []

    def dump(I, c, a, k):
        cell = I.st.heap[a[0]]
        dumps.append((a[0], a[1], cell.get('_state'), cell.get('population'), len(infos)))
        if fails:
            from pyvc.values import PyExc
            raise PyExc('PicklingError', 'cannot pickle')
        return None
    import pyvc.lib as L
    L._LIB['dill.dump'] = L.Builtin('dill.dump (assumed: writes a faithful pickle of its first argument to the file)', lambda I, a, k: dump(I, None, a, k))
    try:
        r, exc = h.call_raises(h.getattr(s, 'SaveSolver'), *(['run.pkl'] if given == 'given' else []))
    finally:
        L._LIB.pop('dill.dump', None)
    name = 'run.pkl' if given == 'given' else 'registered.pkl'
    files = h.st.ghost.get('files', [])
    h.check('the-solver-itself-is-dumped-once', 'ok', ok=(len(dumps) == 1 and dumps[0][0] is s and dumps[0][3] is pop))
    opened = [f for f in files if f[0] == 'open']
    h.check('to-the-named-file-opened-for-binary-writing', 'ok',
            ok=(len(opened) == 1 and opened[0][1] == name and opened[0][2] == 'wb' and len(dumps) == 1 and dumps[0][1] is opened[0][3]))
    h.check('the-file-is-closed-whatever-dill-does', 'ok', ok=(len([f for f in files if f[0] == 'close']) == 1))
    h.check('the-name-is-remembered-as-the-restart-file-also-in-the-dumped-state', 'ok',
            ok=(h.field(s, '_state') == name and len(dumps) == 1 and dumps[0][2] == name))
    h.check('dill-failure-is-not-swallowed', 'ok', ok=((exc is not None) == fails))


@contract('C06/solvers.LoadSolver', ['C06', 'C04'], 'mystic/solvers.py::LoadSolver', native=False)
def load_solver(h):
    """LoadSolver(filename, **overrides): the file is opened for binary reading and closed again, dill.load is asked once, a
    FRESH solver of the pickled solver's own class and dimension is made and handed the pickled state through
    __load_state (whose contract is above) together with the caller's overrides, the file is remembered as the restart
    file and the load is logged; without a file name nothing is loaded"""
    if not h.is_sym():
        h.unsupported('symbolic only')
    kind = h.choice('pickled_solver_class', ['NelderMeadSimplexSolver', 'DifferentialEvolutionSolver2'])
    named = h.choice('filename', ['given', 'only-as-_state-override', 'None'])
    src = h.obj(None, _type=kind, nDim=3, population=h.clist([h.vec('p', 3)]))
    made, loads, infos = [], [], []

    def init(I, c, a, k):
        made.append((a[0], list(a[1:]), dict(k)))
        I.st.heap[a[0]]['_stepmon'] = I.st.alloc('obj', {'info': h.fn('MONITOR_INFO', sym=lambda H, I_, aa, kk: infos.append(aa[0]))})
        return None

    def load_state(I, c, a, k):
        loads.append((a[0], list(a[1:]), dict(k)))
        return None
    import pyvc.lib as L
    reads = []
    L._LIB['dill.load'] = L.Builtin('dill.load (assumed: the object pickled into the file)', lambda I, a, k: (reads.append(a[0]), src)[1])
    cls_of = {'NelderMeadSimplexSolver': 'mystic/scipy_optimize.py', 'DifferentialEvolutionSolver2': 'mystic/differential_evolution.py'}
    h.set_summaries({(cls_of[kind], kind + '.__init__'): init,
                     ('mystic/abstract_solver.py', 'AbstractSolver.__load_state'): load_state})
    try:
        if named == 'given':
            r = h.call(h.get('mystic/solvers.py::LoadSolver'), 'run.pkl', nDim=3)
        elif named == 'None':
            r = h.call(h.get('mystic/solvers.py::LoadSolver'))
        else:
            r = h.call(h.get('mystic/solvers.py::LoadSolver'), _state='run.pkl')
    finally:
        L._LIB.pop('dill.load', None)
    files = h.st.ghost.get('files', [])
    if named == 'None':
        h.check('nothing-loaded-without-a-file', 'ok', ok=(r is None and not files and not reads))
        return
    opened, closed = [f for f in files if f[0] == 'open'], [f for f in files if f[0] == 'close']
    h.check('file-opened-for-binary-reading-read-once-and-closed', 'ok',
            ok=(len(opened) == 1 and opened[0][1] == 'run.pkl' and opened[0][2] == 'rb' and len(closed) == 1 and len(reads) == 1 and reads[0] is opened[0][3]))
    ok = len(made) == 1 and r is made[0][0] and getattr(r, 'cls', None) is not None and r.cls.name == kind and made[0][1] == [3] and r is not src
    h.check('a-fresh-solver-of-the-pickled-class-and-dimension', 'ok', ok=ok)
    want_kw = {'nDim': 3} if named == 'given' else {'_state': 'run.pkl'}
    h.check('pickled-state-and-overrides-handed-to-__load_state-of-the-new-solver', 'ok',
            ok=(len(loads) == 1 and loads[0][0] is r and len(loads[0][1]) == 1 and loads[0][1][0] is src and loads[0][2] == want_kw))
    h.check('file-remembered-as-the-restart-file-and-the-load-logged', 'ok', ok=(h.field(r, '_state') == 'run.pkl' and len(infos) == 1))
