"""C06: the state-transfer methods of AbstractSolver -- __load_state (behind LoadSolver), __copy__, __deepcopy__.

A solver's resumable state IS its __dict__ (SaveSolver pickles the instance; dill's own behaviour is an assumed
contract, exercised by the bounded layer rtc/c06 at every generation).  What is proved here: the transfer is exact --
every attribute of the source arrives unchanged, explicit overrides win, and NOTHING else is touched or adjusted
(a restored solver that silently re-decorates, clips or re-draws would not resume "as if never interrupted")."""
from pyvc.contract import contract

AS = 'mystic/abstract_solver.py'
A = AS + '::AbstractSolver'


@contract('C06/AbstractSolver.__load_state', ['C06', 'C04'], A + '._AbstractSolver__load_state', native=False)
def load_state(h):
    """source attributes: population (a list), popEnergy, _live (any boolean), _fcalls, _stepmon, generations-relevant
    private state; target: a fresh instance with stale values for some of them and one attribute the source lacks;
    overrides: none / the documented `_state=filename` / an arbitrary attribute"""
    if not h.is_sym():
        h.unsupported('symbolic only')
    over = h.choice('overrides', ['none', '_state', 'existing-attribute'])
    live = h.bool('source_live')
    pop, popE, fcalls, mon = h.list_real('population'), h.list_real('popEnergy', inf=True), h.clist([h.int('fcalls')]), h.obj(None, _x=h.clist([]))
    cost = h.tup(h.fn('WRAPPED', ret='real'), h.fn('RAW', ret='real'), None)
    src = h.obj(A, population=pop, popEnergy=popE, _live=live, _fcalls=fcalls, _stepmon=mon, _cost=cost, _state=None, nDim=h.int('nDim'))
    stale = h.list_real('stale_population')
    tgt = h.obj(A, population=stale, _live=h.bool('target_live'), only_in_target=7, _state=None)
    kw = {} if over == 'none' else {'_state': 'restart.pkl'} if over == '_state' else {'nDim': 3}
    h.call(h.getattr(tgt, '_AbstractSolver__load_state'), src, **kw)
    e = dict(t=tgt, s=src, pop=pop, popE=popE, fcalls=fcalls, mon=mon, cost=cost, live=live)
    h.check('every-source-attribute-arrives-unchanged',
            'same(t.population, pop) and same(t.popEnergy, popE) and same(t._fcalls, fcalls) and same(t._stepmon, mon) and same(t._cost, cost)', **e)
    h.check('liveness-of-the-objective-is-taken-from-the-source', 't._live == live', **e)
    if over == '_state':
        h.check('overrides-win', "t._state == 'restart.pkl' and t.nDim == s.nDim", **e)
    elif over == 'existing-attribute':
        h.check('overrides-win', 't.nDim == 3 and t._state is None', **e)
    else:
        h.check('no-override-no-change', 't.nDim == s.nDim and t._state is None', **e)
    h.check('attributes-the-source-lacks-are-kept', 't.only_in_target == 7', **e)
    h.check('source-not-modified', 'same(s.population, pop) and s._live == live and same(s._cost, cost)', **e)


def _solver_for_copy(h):
    pop = h.clist([h.list_real('member0', nd=True), h.list_real('member1', nd=True)])
    popE = h.clist([h.real('e0', inf=True), h.real('e1', inf=True)])
    fcalls = h.clist([h.int('fcalls')])
    mon = h.obj('mystic/monitors.py::Monitor', _x=h.clist([]), _y=h.clist([]), _id=h.clist([]), _info=h.clist([]), k=None, _npts=None, label='ChiSquare')
    # the user's objective may be a stateful callable OBJECT (call counter, cache) and ExtraArgs may hold mutable data
    raw = h.obj(None, calls=h.clist([0]), cache=h.dict())
    cost = h.tup(h.fn('WRAPPED', ret='real'), raw, h.tup(h.clist([1.0, 2.0]), 3))
    s = h.obj(A, population=pop, popEnergy=popE, _fcalls=fcalls, _stepmon=mon, _cost=cost, _live=h.bool('live'), nDim=2, nPop=2,
              _bestEnergy=None, _bestSolution=None)
    return s, pop, popE, fcalls, mon, cost


@contract('C06/AbstractSolver.__deepcopy__', ['C06'], A + '.__deepcopy__', native=False)
def deepcopy(h):
    """a deep copy carries every attribute, shares no mutable state with the original (advancing one cannot change the
    other), and is marked not-live so that it rebuilds its objective around its OWN counter at its next Step"""
    if not h.is_sym():
        h.unsupported('symbolic only')
    s, pop, popE, fcalls, mon, cost = _solver_for_copy(h)
    snap = [h.snapshot(h.ev('pop[%d]' % i, pop=pop)) for i in range(2)]
    r = h.call(h.getattr(s, '__deepcopy__'), h.dict())
    e = dict(r=r, s=s, pop=pop, popE=popE, fcalls=fcalls, mon=mon, m0=snap[0], m1=snap[1])
    h.check('copy-is-a-different-object-of-the-same-class', 'not same(r, s)', **e)
    h.check('no-mutable-state-shared-with-the-original',
            'not same(r.population, pop) and not same(r.population[0], pop[0]) and not same(r.population[1], pop[1]) and '
            'not same(r.popEnergy, popE) and not same(r._fcalls, fcalls) and not same(r._stepmon, mon) and not same(r._stepmon._x, mon._x)', **e)
    h.check('objective-object-is-a-copy-too', 'not same(r._cost[1], s._cost[1]) and not same(r._cost[1].calls, s._cost[1].calls) '
            'and r._cost[1].calls[0] == 0', **e)
    h.check('mutable-ExtraArgs-are-copies-too', 'not same(r._cost[2][0], s._cost[2][0]) and seq_eq(r._cost[2][0], s._cost[2][0]) '
            'and r._cost[2][1] == 3', **e)
    h.check('copy-has-equal-contents',
            'seq_eq(r.population[0], m0) and seq_eq(r.population[1], m1) and r.popEnergy[0] == popE[0] and r.popEnergy[1] == popE[1] '
            'and r._fcalls[0] == fcalls[0] and r.nDim == 2 and r.nPop == 2', **e)
    h.check('copy-rebuilds-its-objective-around-its-own-counter', 'r._live is False', **e)
    h.check('original-unchanged', 'same(s.population, pop) and seq_eq(pop[0], m0) and seq_eq(pop[1], m1) and same(s._fcalls, fcalls)', **e)


@contract('C06/Step/state-dumped-at-STOP', ['C06'], A + '.Step', native=False)
def stop_dump(h):
    """the restart file a solver writes when it stops (forced dump in Step) holds the solver exactly as Step leaves it:
    whatever Finalize() does to the solver (Powell's Finalize adds a step-monitor record; here an ABSTRACT Finalize that
    marks the solver not-live and may add a record) has been done before the dump, so a solver restored from that file
    continues like the stopped solver itself"""
    if not h.is_sym():
        h.unsupported('symbolic only')
    from contracts.solver_step import _mk
    s, stepmon, fc, epoch = _mk(h)
    h.set_field(s, '_state', 'restart.pkl')
    adds = h.choice('finalize_adds_a_monitor_record', [False, True])
    dumps = []

    def mon_len(I):
        from pyvc.values import SV
        return SV(I.st.heap[I.st.heap[I.st.heap[s]['_stepmon']]['_x']]['len'], 'int')

    def save(I, c, args, kwargs):
        cell = I.st.heap[s]
        dumps.append((cell['_live'], mon_len(I), I.st.heap[cell['_fcalls']][0]))
        return None

    def finalize(I, c, args, kwargs):
        st = I.st
        st.heap[s]['_live'] = False
        if adds:
            mon = st.heap[s]['_stepmon']
            for f in ('_x', '_y'):
                lst = st.heap[mon][f]
                cc = dict(st.heap[lst])
                cc['len'] = cc['len'] + 1
                st.heap[lst] = cc
        return None
    h.set_summaries({('mystic/abstract_solver.py', 'AbstractSolver.SaveSolver'): save,
                     ('mystic/abstract_solver.py', 'AbstractSolver.Finalize'): finalize})
    r = h.call(h.getattr(s, 'Step'))
    begun = epoch.get('begun', 0)
    n1 = h.len(h.field(stepmon, '_x'))
    e1 = h.ev('f[0]', f=h.field(s, '_fcalls'))
    live1 = h.field(s, '_live')
    h.cover('stopped-after-a-step', 'r is not None and begun == 1', r=r, begun=begun)
    if begun == 1:
        h.check('a-step-that-stops-the-solver-dumps-its-state', 'implies(r is not None, nd >= 1)', r=r, nd=len(dumps))
    if dumps:
        dl, dn, de = dumps[-1]
        h.check('the-dumped-solver-is-finalized-like-the-solver-Step-leaves', 'dl is live1', dl=dl, live1=live1)
        h.check('the-dumped-solver-has-every-monitor-record-and-evaluation-of-the-solver-Step-leaves', 'dn == n1 and de == e1',
                dn=dn, n1=n1, de=de, e1=e1)


@contract('C06/AbstractSolver.__save_state', ['C06'], A + '._AbstractSolver__save_state', native=False)
def save_state(h):
    """the periodic restart dump: written exactly when the generation count is a multiple of the registered save
    frequency (every generation for frequency 1, never without a frequency); a forced dump (at STOP) is written exactly
    when a state file is registered; never twice in one call"""
    if not h.is_sym():
        h.unsupported('symbolic only')
    force = h.choice('force', [False, True])
    freq = h.choice('save_frequency', ['None', 'int'])
    registered = h.choice('state_file_registered', [False, True])
    k = h.int('frequency')
    h.assume('k >= 1', k=k)
    g = h.int('generations')
    h.assume('g >= 0', g=g)
    mon = h.obj('mystic/monitors.py::Monitor', _x=h.list_real('sx'), _y=h.list_real('sy'), _id=h.clist([]), _info=h.clist([]), k=None, _npts=None, label='s')
    h.assume('len(mon._x) == g + 1 and len(mon._y) == g + 1', mon=mon, g=g)
    s = h.obj(A, _stepmon=mon, _saveiter=(k if freq == 'int' else None), _state=('restart.pkl' if registered else None))
    dumps = []
    h.set_summaries({(AS, 'AbstractSolver.SaveSolver'): lambda I, c, a, kw: dumps.append(1)})
    h.call(h.getattr(s, '_AbstractSolver__save_state'), force)
    n = len(dumps)
    if force and registered:
        h.check('forced-dump-written-once-to-the-registered-file', 'n == 1', n=n)
    elif freq == 'int':
        # (a forced call without a registered file falls through to the periodic rule)
        h.check('periodic-dump-exactly-at-multiples-of-the-frequency', 'n == (1 if g % k == 0 else 0)', n=n, g=g, k=k)
    else:
        h.check('no-dump-without-a-frequency', 'n == 0', n=n)
