"""C19: the discrete-measure classes themselves (mystic/math/discrete.py): point_mass, measure, product_measure, scenario
and the creators compose / decompose / unflatten / flatten.

measure / product_measure / scenario are subclasses of `list`; the interpreter represents an instance as a list cell that
carries its class (methods, properties) and instance attributes.  Every obligation is stated for ONE shape (number of
points per factor; enumerated) and ALL weights / positions / values of that shape (symbolic reals).  The instances are
built by the real constructors (compose), not by the harness."""
import os
import itertools
from pyvc.contract import contract

THOROUGH = os.environ.get('VERIF_TIER') == 'thorough'

D = 'mystic/math/discrete.py'
SHAPES = [s for d in (1, 2, 3) for s in itertools.product((1, 2, 3), repeat=d)]
SMALL = [(1,), (2,), (3,), (2, 1), (1, 2), (2, 2), (3, 2), (2, 1, 2)]


def _wx(h, npts, tag=''):
    w = [h.vec('w%s%d' % (tag, i), n) for i, n in enumerate(npts)]
    x = [h.vec('x%s%d' % (tag, i), n) for i, n in enumerate(npts)]
    return w, x


def _order(npts):
    """documented order of the product points: the FIRST factor varies fastest"""
    return [tuple(reversed(t)) for t in itertools.product(*[range(n) for n in reversed(npts)])]


def _params_expr(npts, w='w', x='x'):
    """[w0..., x0..., w1..., x1..., ...] as a list of expression strings"""
    out = []
    for i, n in enumerate(npts):
        out += ['%s[%d][%d]' % (w, i, j) for j in range(n)]
        out += ['%s[%d][%d]' % (x, i, j) for j in range(n)]
    return out


def _same_measure(c, npts, w='w', x='x'):
    conj = ['len(%s) == %d' % (c, len(npts))]
    for i, n in enumerate(npts):
        conj.append('len(%s[%d]) == %d' % (c, i, n))
        for j in range(n):
            conj.append('%s[%d][%d].weight == %s[%d][%d] and %s[%d][%d].position == %s[%d][%d]' % (c, i, j, w, i, j, c, i, j, x, i, j))
    return ' and '.join(conj)


@contract('C19/compose', ['C19'], D + '::compose', samples=60)
def compose(h):
    """compose(x, w): factor i holds exactly the point masses (w[i][j] @ x[i][j]); pts / wts / pos / mass report them"""
    npts = h.choice('npts', SHAPES)
    w, x = _wx(h, npts)
    W, X = h.clist(w), h.clist(x)
    c = h.call(h.get(D + '::compose'), X, W)
    env = dict(c=c, w=W, x=X)
    h.check('one-point-mass-per-weight-position-pair', _same_measure('c', npts), **env)
    h.check('pts-is-the-shape', 'len(c.pts) == %d and ' % len(npts) + ' and '.join('c.pts[%d] == %d' % (i, n) for i, n in enumerate(npts)), **env)
    h.check('wts-and-pos-are-the-factor-lists',
            ' and '.join('c.wts[%d][%d] == w[%d][%d] and c.pos[%d][%d] == x[%d][%d]' % ((i, j) * 4) for i, n in enumerate(npts) for j in range(n)), **env)
    h.check('mass-is-the-list-of-factor-totals',
            'len(c.mass) == %d and ' % len(npts) + ' and '.join('c.mass[%d] == %s' % (i, ' + '.join('w[%d][%d]' % (i, j) for j in range(n))) for i, n in enumerate(npts)), **env)
    h.check('arguments-unchanged', ' and '.join('len(w[%d]) == %d and len(x[%d]) == %d' % (i, n, i, n) for i, n in enumerate(npts)), **env)


@contract('C19/product_measure.weights-positions', ['C19'], D + '::product_measure.__weights', samples=60)
def product_points(h):
    """point k of the product (first factor fastest) has the tuple of its factors' positions and the PRODUCT of their
    weights; npts is the product of the factor sizes; the total weight is the product of the factor masses"""
    npts = h.choice('npts', SHAPES if THOROUGH else SMALL)
    w, x = _wx(h, npts)
    W, X = h.clist(w), h.clist(x)
    c = h.call(h.get(D + '::compose'), X, W)
    order = _order(npts)
    wts = h.getattr(c, 'weights')
    pos = h.getattr(c, 'positions')
    env = dict(c=c, w=W, x=X, wts=wts, pos=pos)
    h.check('npts-is-the-product-of-the-factor-sizes', 'c.npts == n and len(wts) == n and len(pos) == n', n=len(order), **env)
    h.check('point-weights-are-products-of-factor-weights',
            ' and '.join('wts[%d] == %s' % (q, ' * '.join('w[%d][%d]' % (d, j) for d, j in enumerate(idx))) for q, idx in enumerate(order)), **env)
    h.check('point-positions-are-the-cartesian-product-in-the-documented-order',
            ' and '.join('pos[%d][%d] == x[%d][%d]' % (q, d, d, j) for q, idx in enumerate(order) for d, j in enumerate(idx)), **env)
    h.check('total-weight-is-the-product-of-the-masses',
            'sum(wts) == ' + ' * '.join('(%s)' % ' + '.join('w[%d][%d]' % (i, j) for j in range(n)) for i, n in enumerate(npts)), **env)


@contract('C19/flatten-unflatten', ['C19'], D + '::flatten', samples=60)
def flatten_unflatten(h):
    """flatten gives [w0.., x0.., w1.., x1.., ...]; unflatten / load of that vector with the same shape gives an equal
    measure; decompose inverts compose"""
    npts = h.choice('npts', SHAPES)
    w, x = _wx(h, npts)
    W, X = h.clist(w), h.clist(x)
    c = h.call(h.get(D + '::compose'), X, W)
    p = h.call(h.getattr(c, 'flatten'))
    pe = _params_expr(npts)
    env = dict(c=c, w=W, x=X, p=p)
    h.check('flatten-is-weights-then-positions-factor-by-factor',
            'len(p) == %d and ' % len(pe) + ' and '.join('p[%d] == %s' % (k, e) for k, e in enumerate(pe)), **env)
    h.check('module-flatten-agrees', 'seq_eq(q, p)', q=h.call(h.get(D + '::flatten'), c), **env)
    u = h.call(h.get(D + '::unflatten'), p, npts)
    h.check('unflatten-of-flatten-is-an-equal-measure', _same_measure('u', npts), u=u, **env)
    h.check('unflatten-builds-new-point-masses', 'not same(u, c) and not same(u[0], c[0]) and not same(u[0][0], c[0][0])', u=u, **env)
    ld = h.call(h.getattr(h.call(h.get(D + '::product_measure')), 'load'), p, npts)
    h.check('load-of-flatten-into-an-empty-measure-is-an-equal-measure', _same_measure('ld', npts), ld=ld, **env)
    xs, ws = h.call(h.get(D + '::decompose'), c)
    h.check('decompose-inverts-compose',
            ' and '.join('len(xs[%d]) == %d and len(ws[%d]) == %d' % (i, n, i, n) for i, n in enumerate(npts)) + ' and ' +
            ' and '.join('xs[%d][%d] == x[%d][%d] and ws[%d][%d] == w[%d][%d]' % ((i, j) * 4) for i, n in enumerate(npts) for j in range(n)), xs=xs, ws=ws, **env)
    h.check('the-measure-itself-unchanged-by-flatten-and-decompose', _same_measure('c', npts), **env)


@contract('C19/product_measure.update', ['C19'], D + '::product_measure.update', samples=60)
def update(h):
    """update(params) (len(params) >= 2*sum(pts); extra entries ignored) keeps the shape and makes the measure equal to
    the one the parameters describe; the same list object is returned"""
    npts = h.choice('npts', SHAPES if THOROUGH else SMALL)
    extra = h.choice('extra_entries', [0, 2])
    w, x = _wx(h, npts)
    shared = h.choice('factors_are_one_shared_measure_object', [False, True]) if len(set(npts)) == 1 and len(npts) > 1 else False
    if shared:
        # product_measure([m] * k): the slots hold the SAME measure; update addresses slots, not objects
        one = h.call(h.get(D + '::compose'), h.clist(x[:1]), h.clist(w[:1]))
        m = h.ev('c[0]', c=one)
        c = h.call(h.get(D + '::product_measure'), h.clist([m] * len(npts)))
    else:
        c = h.call(h.get(D + '::compose'), h.clist(x), h.clist(w))
    w2, x2 = _wx(h, npts, 'n')
    W2, X2 = h.clist(w2), h.clist(x2)
    params = []
    for i, n in enumerate(npts):
        params += list(w2[i]) if not h.is_sym() else [h.ev('a[%d]' % j, a=w2[i]) for j in range(n)]
        params += list(x2[i]) if not h.is_sym() else [h.ev('a[%d]' % j, a=x2[i]) for j in range(n)]
    params += [h.real('y%d' % k) for k in range(extra)]
    P = h.clist(params)
    r = h.call(h.getattr(c, 'update'), P)
    env = dict(c=c, r=r, w=W2, x=X2, P=P)
    h.check('returns-itself', 'same(r, c)', **env)
    h.check('measure-now-holds-the-new-parameters-in-the-same-shape', _same_measure('c', npts), **env)
    h.check('flatten-returns-the-parameters-given', 'seq_eq(c.flatten(), P[:%d])' % (2 * sum(npts)), **env)
    h.check('parameter-vector-unchanged', 'len(P) == %d' % len(params), **env)


@contract('C19/measure.setters', ['C19'], D + '::measure.__set_weights', samples=60)
def measure_setters(h):
    """weights / positions setters write exactly the addressed attribute of each point mass"""
    n = h.choice('n', [1, 2, 3, 4])
    w, x = h.vec('w', n), h.vec('x', n)
    c = h.call(h.get(D + '::compose'), h.clist([x]), h.clist([w]))
    m = h.ev('c[0]', c=c)
    nw, nx = h.vec('nw', n), h.vec('nx', n)
    which = h.choice('set', ['weights', 'positions'])
    h.exec_text('m.%s = v' % which, m=m, v=nw if which == 'weights' else nx)
    env = dict(m=m, w=w, x=x, nw=nw, nx=nx, n=n)
    if which == 'weights':
        h.check('weights-replaced-positions-kept', 'm.npts == n and seq_eq(m.weights, nw) and seq_eq(m.positions, x)', **env)
    else:
        h.check('positions-replaced-weights-kept', 'm.npts == n and seq_eq(m.positions, nx) and seq_eq(m.weights, w)', **env)
    h.check('mass-is-the-sum-of-weights', 'm.mass == sum(m.weights)', **env)


@contract('C19/measure.center_mass-range-var', ['C19', 'C18'], D + '::measure.__set_mean', samples=40)
def measure_moments(h):
    """setting center_mass / var / range on a measure achieves the value and keeps the weights (moment transforms by
    their contracts in C18 are executed, not assumed: n <= 3)"""
    n = h.choice('n', [2, 3])
    what = h.choice('attribute', ['center_mass', 'var', 'range'])
    w, x = h.vec('w', n), h.vec('x', n)
    t = h.real('target')
    from contracts.measures_moments import _var
    h.assume(' and '.join('w[%d] > 0' % k for k in range(n)), w=w)
    if what == 'var':
        h.assume('t >= 0 and %s > 0' % _var('x', n, 'w'), t=t, x=x, w=w)
    if what == 'range':
        h.assume('t >= 0 and ' + ' and '.join('x[%d] <= x[%d]' % (k, k + 1) for k in range(n - 1)) + ' and x[0] < x[%d]' % (n - 1), t=t, x=x)
    c = h.call(h.get(D + '::compose'), h.clist([x]), h.clist([w]))
    m = h.ev('c[0]', c=c)
    before_mean = h.getattr(m, 'center_mass')
    h.exec_text('m.%s = t' % what, m=m, t=t)
    env = dict(m=m, w=w, t=t, b=before_mean)
    h.check('weights-kept', 'seq_eq(m.weights, w)', **env)
    if what == 'center_mass':
        h.check('center-of-mass-reached', 'm.center_mass == t', **env)
    elif what == 'var':
        h.check('variance-reached-mean-kept', 'm.var == t and m.center_mass == b', **env)
    else:
        h.check('range-reached-mean-kept', 'm.range == t and m.center_mass == b', **env)


@contract('C19/scenario', ['C19'], D + '::scenario.flatten', samples=60)
def scenario(h):
    """scenario(pm, values): flatten(all=True) = parameters ++ values, flatten(all=False) = parameters;
    load(params ++ values, pts) into an empty scenario gives an equal scenario with those values"""
    npts = h.choice('npts', SMALL)
    nv = h.choice('values', [0, 1, 3])
    w, x = _wx(h, npts)
    W, X = h.clist(w), h.clist(x)
    vals = h.vec('y', nv)
    pm = h.call(h.get(D + '::compose'), X, W)
    s = h.call(h.get(D + '::scenario'), pm, vals)
    pe = _params_expr(npts)
    env = dict(s=s, w=W, x=X, y=vals, pm=pm)
    h.check('scenario-holds-an-equal-product-measure', _same_measure('s', npts), **env)
    h.check('scenario-copies-the-point-masses', 'not same(s[0], pm[0]) and not same(s[0][0], pm[0][0])', **env)
    full = h.call(h.getattr(s, 'flatten'))
    part = h.call(h.getattr(s, 'flatten'), all=False)
    h.check('flatten-all-is-parameters-then-values',
            'len(full) == %d and ' % (len(pe) + nv) + ' and '.join(['full[%d] == %s' % (k, e) for k, e in enumerate(pe)] + ['full[%d] == y[%d]' % (len(pe) + k, k) for k in range(nv)]), full=full, **env)
    h.check('flatten-not-all-is-parameters-only', 'len(part) == %d and ' % len(pe) + ' and '.join('part[%d] == %s' % (k, e) for k, e in enumerate(pe)), part=part, **env)
    h.check('values-not-consumed-by-flatten', 'seq_eq(s.values, y) and len(y) == %d' % nv, **env)
    s2 = h.call(h.getattr(h.call(h.get(D + '::scenario')), 'load'), full, npts)
    h.check('load-of-flatten-gives-an-equal-scenario', _same_measure('s2', npts) + ' and seq_eq(s2.values, y)', s2=s2, **env)
    # a parameter vector WITHOUT appended values leaves the values a scenario already holds alone
    t = h.call(h.get(D + '::scenario'))
    h.exec_text('t.values = y', t=t, y=vals)
    h.call(h.getattr(t, 'load'), part, npts)
    h.check('load-without-appended-values-keeps-the-stored-values', _same_measure('t', npts) + ' and seq_eq(t.values, y)', t=t, **env)


def _product_terms(npts):
    """per product point: (weight expression, [position expressions])"""
    return [(' * '.join('w[%d][%d]' % (d, j) for d, j in enumerate(idx)), ['x[%d][%d]' % (d, j) for d, j in enumerate(idx)]) for idx in _order(npts)]


@contract('C19/product_measure.expect-pof-support', ['C19'], D + '::product_measure.expect', samples=60)
def product_statistics(h):
    """expect(f) = sum_k W_k f(X_k) / sum_k W_k, pof(f) = sum of W_k over the points with f(X_k) <= 0, support(tol) = the
    X_k with W_k > tol -- over the explicit product points (W_k = product of factor weights, X_k = tuple of positions)"""
    npts = h.choice('npts', [(1,), (2,), (3,), (2, 1), (1, 2), (2, 2)] if THOROUGH else [(2,), (3,), (1, 2), (2, 2)])
    what = h.choice('statistic', ['expect', 'pof', 'support', 'support_index'])
    w, x = _wx(h, npts)
    W, X = h.clist(w), h.clist(x)
    terms = _product_terms(npts)
    c = h.call(h.get(D + '::compose'), X, W)
    f = h.fn('F', ret='real')
    fx = [h.call(f, h.tup(*[h.ev(e, x=X) for e in pos])) for _, pos in terms]
    env = dict(w=W, x=X, **{'f%d' % k: v for k, v in enumerate(fx)})
    if what == 'expect':
        h.assume(' + '.join('(%s)' % t for t, _ in terms) + ' != 0', **env)
        r = h.call(h.getattr(c, 'expect'), f)
        h.check('expectation-is-the-explicit-weighted-sum-over-the-product-points',
                'r * (%s) == %s' % (' + '.join('(%s)' % t for t, _ in terms), ' + '.join('(%s) * f%d' % (t, k) for k, (t, _) in enumerate(terms))), r=r, **env)
    elif what == 'pof':
        r = h.call(h.getattr(c, 'pof'), f)
        h.check('pof-is-the-total-weight-of-the-failing-product-points',
                'r == ' + ' + '.join('((%s) if f%d <= 0 else 0)' % (t, k) for k, (t, _) in enumerate(terms)), r=r, **env)
    else:
        tol = h.real('tol')
        r = h.call(h.getattr(c, what), tol)
        inside = ['(%s) > tol' % t for t, _ in terms]
        # the result lists the supported points in product order: its length is the count, and the j-th entry is the
        # point k whose rank among the supported ones is j
        count = ' + '.join('(1 if %s else 0)' % g for g in inside)
        conj = ['len(r) == %s' % count]
        for k, (t, pos) in enumerate(terms):
            rank = ' + '.join(['0'] + ['(1 if %s else 0)' % inside[q] for q in range(k)])
            if what == 'support':
                hit = ' and '.join('r[%s][%d] == %s' % (rank, d, e) for d, e in enumerate(pos))
            else:
                hit = 'r[%s] == %d' % (rank, k)
            conj.append('(not (%s) or (%s))' % (inside[k], hit))
        h.check('%s-lists-exactly-the-product-points-with-weight-above-tol-in-order' % what, ' and '.join(conj), r=r, tol=tol, **env)


@contract('C19/product_measure.load/appends', ['C19'], D + '::product_measure.load', samples=60)
def load_appends(h):
    """load() on a product measure that already has factors APPENDS the new ones (documented: "to append len(pts) new
    discrete measures"): loading a flattened measure piecewise -- first some factors, then the rest -- gives the whole
    measure; the earlier factors stay the same objects; trailing values beyond 2*sum(pts) are ignored"""
    first = h.choice('already_loaded', [(1,), (3,), (2, 1)])
    rest = h.choice('loaded_now', [(2,), (2, 2), (1, 3)])
    extra = h.choice('trailing_values', [0, 2])
    npts = first + rest
    w, x = _wx(h, npts)
    W, X = h.clist(w), h.clist(x)
    pe = _params_expr(npts)
    cut = 2 * sum(first)
    vals = [h.ev(e, w=W, x=X) for e in pe]
    m = h.call(h.get(D + '::product_measure'))
    h.call(h.getattr(m, 'load'), h.clist(vals[:cut]), first)
    f0 = h.ev('m[0]', m=m)
    r = h.call(h.getattr(m, 'load'), h.clist(vals[cut:] + [h.real('y%d' % i) for i in range(extra)]), rest)
    h.check('piecewise-load-gives-the-whole-measure', _same_measure('m', npts), m=m, w=W, x=X)
    h.check('earlier-factors-kept-and-self-returned', 'same(r, m) and same(m[0], f0)', r=r, m=m, f0=f0)


@contract('C19/scenario.values-are-its-own', ['C19'], D + '::scenario.update', samples=60)
def scenario_values_own(h):
    """two scenarios built from the same product measure and the SAME list of values (or one copy-constructed from the
    other): setting or updating the values of one changes neither the other's values nor the caller's list -- "update()
    changes exactly the addressed weights / positions / values" """
    npts = h.choice('npts', [(2,), (1, 2)])
    how = h.choice('changed_through', ['update', 'values-setter', 'load'])
    w, x = _wx(h, npts)
    W, X = h.clist(w), h.clist(x)
    nv = 2
    vals = h.vec('y', nv)
    y0 = h.snapshot(vals)
    pm = h.call(h.get(D + '::compose'), X, W)
    a = h.call(h.get(D + '::scenario'), pm, vals)
    b = h.call(h.get(D + '::scenario'), pm, vals)
    c = h.call(h.get(D + '::scenario'), a, h.getattr(a, 'values'))
    new = h.vec('z', nv)
    n2 = 2 * sum(npts)
    params = h.call(h.getattr(a, 'flatten'), all=False)
    if how == 'update':
        h.call(h.getattr(a, 'update'), h.ev('list(p) + list(z)', p=params, z=new))
    elif how == 'values-setter':
        h.exec_text('a.values = z', a=a, z=new)
    else:
        h.call(h.getattr(a, 'load'), h.ev('list(p) + list(z)', p=params, z=new), npts)
    env = dict(a=a, b=b, c=c, y=vals, y0=y0, z=new)
    if how != 'load':
        h.check('the-changed-scenario-holds-the-new-values', 'seq_eq(a.values, z)', **env)
    h.check('the-other-scenarios-keep-their-values', 'seq_eq(b.values, y0) and seq_eq(c.values, y0)', **env)
    h.check('the-callers-list-is-not-written-to', 'seq_eq(y, y0)', **env)
