"""C18: moment definitions and moment-imposing transforms of mystic/math/measures.py at fixed sample sizes n = 1..4,
for ALL sample values and weights (floats as reals, so "to rounding" in the statement is exact here).

The functions sum over their inputs (`sum(i*j for i,j in zip(samples, weights))`); with a fixed n every sum is a finite
polynomial expression and each obligation is a polynomial identity / implication over the reals decided by z3's
nonlinear solver.  Arbitrary n would need an inductive Sum theory (not built: DESIGN 4/C18).  The order statistics (median,
mad, their impose_* twins, trimmed / winsorized mean and variance) are under contract at n <= 4 too: sorting a few
symbolic numbers is a compare-exchange network of min / max terms, boolean-mask selections decide their mask.  Sizes above
4 and the remaining variants are decided by the bounded layer rtc/c18."""
from pyvc.contract import contract

import os
F = 'mystic/math/measures.py'
THOROUGH = os.environ.get('VERIF_TIER') == 'thorough'
SIZES = [1, 2, 3, 4]
INDEX_SIZES = [2, 3, 4] if THOROUGH else [2, 3]      # index-set enumeration: 2^n - 1 sets x 2 index spellings per size


def _mean(xs, n, w=None):
    if w is None:
        return '((%s) / %d)' % (' + '.join('%s[%d]' % (xs, i) for i in range(n)), n)
    return '((%s) / (%s))' % (' + '.join('%s[%d] * %s[%d]' % (xs, i, w, i) for i in range(n)),
                              ' + '.join('%s[%d]' % (w, i) for i in range(n)))


def _var(xs, n, w=None):
    m = _mean(xs, n, w)
    if w is None:
        return '((%s) / %d)' % (' + '.join('(%s[%d] - %s) * (%s[%d] - %s)' % (xs, i, m, xs, i, m) for i in range(n)), n)
    return '((%s) / (%s))' % (' + '.join('(%s[%d] - %s) * (%s[%d] - %s) * %s[%d]' % (xs, i, m, xs, i, m, w, i) for i in range(n)),
                              ' + '.join('%s[%d]' % (w, i) for i in range(n)))


def _inputs(h, weighted_opt=True):
    n = h.choice('n', SIZES)
    weighted = h.choice('weighted', [False, True]) if weighted_opt else True
    x = h.vec('x', n)
    w = None
    if weighted:
        w = h.vec('w', n)
        # point masses accept weights of any sign; what the formulas need is a non-zero total
        h.assume(' + '.join('w[%d]' % i for i in range(n)) + ' != 0', w=w)
        if not h.is_sym():      # cross-check in floats: a total that is non-zero by rounding alone says nothing
            h.assume('abs(%s) > 1e-6 * (%s)' % (' + '.join('w[%d]' % i for i in range(n)), ' + '.join('abs(w[%d])' % i for i in range(n))), w=w)
    return n, x, w


@contract('C18/mean', ['C18'], F + '::mean', samples=200)
def mean(h):
    n, x, w = _inputs(h)
    r = h.call(h.get(F + '::mean'), x, w)
    h.check('textbook-weighted-mean', 'r == %s' % _mean('x', n, 'w' if w is not None else None), r=r, x=x, w=w)


@contract('C18/variance', ['C18'], F + '::variance', samples=200)
def variance(h):
    n, x, w = _inputs(h)
    r = h.call(h.get(F + '::variance'), x, w)
    h.check('textbook-weighted-variance', 'r == %s' % _var('x', n, 'w' if w is not None else None), r=r, x=x, w=w)


@contract('C18/impose_mean', ['C18'], F + '::impose_mean', samples=200)
def impose_mean(h):
    n, x, w = _inputs(h)
    m = h.real('m')
    x0 = h.snapshot(x)
    y = h.call(h.get(F + '::impose_mean'), m, x, w)
    wn = 'w' if w is not None else None
    e = dict(y=y, x=x, x0=x0, w=w, m=m, n=n)
    h.check('same-number-of-points', 'len(y) == n', **e)
    h.check('requested-mean-reached', '%s == m' % _mean('y', n, wn), **e)
    h.check('variance-unchanged', '%s == %s' % (_var('y', n, wn), _var('x0', n, wn)), **e)
    h.check('spread-unchanged', ' and '.join('y[%d] - y[%d] == x0[%d] - x0[%d]' % (i, j, i, j) for i in range(n) for j in range(i)) or 'True', **e)
    h.check('input-samples-not-modified', 'seq_eq(x, x0)', **e)


def _sum(xs, n):
    return '(%s)' % ' + '.join('%s[%d]' % (xs, i) for i in range(n))


def _well_conditioned(h, n, x, w, wn):
    """CPython cross-check only: a sample whose variance is positive by rounding alone (all the weight on one point: the
    real-number precondition `variance > 0` is false, the float one holds at 1e-29) says nothing about the transform"""
    if h.is_sym():
        return
    scale = ' + '.join('x[%d] * x[%d]' % (i, i) for i in range(n))
    h.assume('abs(%s) > 1e-6 * (1 + %s)' % (_var('x', n, wn), scale), x=x, w=w)
    if wn:
        h.assume('abs(%s) > 1e-6 * (%s)' % (' + '.join('w[%d]' % i for i in range(n)), ' + '.join('abs(w[%d])' % i for i in range(n))), w=w)


@contract('C18/impose_variance', ['C18'], F + '::impose_variance', samples=200)
def impose_variance(h):
    """non-degenerate samples (variance > 0, as the statement requires) and a target v >= 0"""
    n, x, w = _inputs(h)
    if n == 1:
        raise_ = None          # one point has variance 0: outside the statement ("degenerate")
        return
    v = h.real('v')
    wn = 'w' if w is not None else None
    h.assume('v >= 0 and %s > 0' % _var('x', n, wn), v=v, x=x, w=w)
    _well_conditioned(h, n, x, w, wn)
    x0 = h.snapshot(x)
    y = h.call(h.get(F + '::impose_variance'), v, x, w)
    e = dict(y=y, x0=x0, w=w, v=v, n=n)
    h.check('same-number-of-points', 'len(y) == n', **e)
    h.check('requested-variance-reached', '%s == v' % _var('y', n, wn), **e)
    h.check('mean-unchanged', '%s == %s' % (_mean('y', n, wn), _mean('x0', n, wn)), **e)


@contract('C18/impose_std', ['C18'], F + '::impose_std', samples=200)
def impose_std(h):
    n, x, w = _inputs(h)
    if n == 1:
        return
    s = h.real('s')
    wn = 'w' if w is not None else None
    h.assume('s >= 0 and %s > 0' % _var('x', n, wn), s=s, x=x, w=w)
    _well_conditioned(h, n, x, w, wn)
    x0 = h.snapshot(x)
    y = h.call(h.get(F + '::impose_std'), s, x, w)
    e = dict(y=y, x0=x0, w=w, s=s, n=n)
    h.check('requested-std-reached', '%s == s * s' % _var('y', n, wn), **e)
    h.check('mean-unchanged', '%s == %s' % (_mean('y', n, wn), _mean('x0', n, wn)), **e)


@contract('C18/impose_spread', ['C18'], F + '::impose_spread', samples=200)
def impose_spread(h):
    """points given in ascending order (so max - min = x[n-1] - x[0]; the transform is order preserving for r >= 0),
    spread > 0"""
    n, x, w = _inputs(h)
    if n == 1:
        return
    r = h.real('r')
    wn = 'w' if w is not None else None
    h.assume('r >= 0 and ' + ' and '.join('x[%d] <= x[%d]' % (i, i + 1) for i in range(n - 1)) + ' and x[0] < x[%d]' % (n - 1), r=r, x=x)
    x0 = h.snapshot(x)
    y = h.call(h.get(F + '::impose_spread'), r, x, w)
    e = dict(y=y, x0=x0, w=w, r=r, n=n)
    h.check('requested-spread-reached', 'y[%d] - y[0] == r and ' % (n - 1) + ' and '.join('y[%d] <= y[%d]' % (i, i + 1) for i in range(n - 1)), **e)
    h.check('mean-unchanged', '%s == %s' % (_mean('y', n, wn), _mean('x0', n, wn)), **e)


@contract('C18/normalize', ['C18'], F + '::normalize', samples=200)
def normalize(h):
    """numeric mass, weights of ANY sign with a non-zero total: the result sums to the requested mass"""
    n = h.choice('n', SIZES if THOROUGH else [1, 2, 3])
    w = h.vec('w', n)
    h.assume(' + '.join('w[%d]' % i for i in range(n)) + ' != 0', w=w)
    import itertools
    signs = h.choice('negative_weights', list(itertools.product([False, True], repeat=n)))     # a sign pattern per path
    h.assume(' and '.join('w[%d] %s 0' % (i, '<' if neg else '>=') for i, neg in enumerate(signs)), w=w)
    mass = h.real('mass')
    h.assume('mass != 0', mass=mass)
    which = h.choice('fn', ['normalize', 'impose_sum'])
    y = h.call(h.get(F + '::normalize'), w, mass) if which == 'normalize' else h.call(h.get(F + '::impose_sum'), mass, w)
    h.check('requested-total-reached', 'len(y) == n and %s == mass' % _sum('y', n), y=y, n=n, mass=mass)
    h.check('proportions-kept', ' and '.join('y[%d] * %s == w[%d] * mass' % (i, _sum('w', n), i) for i in range(n)), y=y, w=w, mass=mass)


@contract('C18/impose_weight_norm', ['C18'], F + '::impose_weight_norm', samples=200)
def impose_weight_norm(h):
    n, x, w = _inputs(h, weighted_opt=False)
    mass = h.real('mass')
    h.assume('mass > 0', mass=mass)
    y, w2 = h.call(h.get(F + '::impose_weight_norm'), x, w, mass)
    e = dict(y=y, w2=w2, x=x, w=w, mass=mass, n=n)
    h.check('requested-total-weight-reached', 'len(w2) == n and %s == mass' % _sum('w2', n), **e)
    h.check('weighted-mean-unchanged', '%s == %s' % (_mean('y', n, 'w2'), _mean('x', n, 'w')), **e)


def _index_sets(n):
    import itertools
    return [c for k in range(0, n + 1) for c in itertools.combinations(range(n), k)]


@contract('C18/impose_support', ['C18'], F + '::impose_support', samples=200)
def impose_support(h):
    """every index set (as given, and with negative indices), positive weights: exactly the weights outside the index
    set become zero, the total weight and the weighted mean are kept"""
    n = h.choice('n', INDEX_SIZES)
    x, w = h.vec('x', n), h.vec('w', n)
    h.assume(' and '.join('w[%d] > 0' % i for i in range(n)), w=w)
    keep = h.choice('index', [c for c in _index_sets(n) if c])
    neg = h.choice('negative_indices', [False, True])
    idx = h.clist([(i - n) if neg else i for i in keep])
    y, w2 = h.call(h.get(F + '::impose_support'), idx, x, w)
    e = dict(y=y, w2=w2, x=x, w=w, n=n)
    h.check('exactly-the-undesignated-weights-are-zero',
            ' and '.join(('w2[%d] > 0' if i in keep else 'w2[%d] == 0') % i for i in range(n)), **e)
    h.check('total-weight-kept', '%s == %s' % (_sum('w2', n), _sum('w', n)), **e)
    h.check('weighted-mean-kept', '%s == %s' % (_mean('y', n, 'w2'), _mean('x', n, 'w')), **e)


@contract('C18/impose_unweighted', ['C18'], F + '::impose_unweighted', samples=200)
def impose_unweighted(h):
    n = h.choice('n', INDEX_SIZES)
    x, w = h.vec('x', n), h.vec('w', n)
    h.assume(' and '.join('w[%d] > 0' % i for i in range(n)), w=w)
    drop = h.choice('index', [c for c in _index_sets(n) if len(c) < n])
    neg = h.choice('negative_indices', [False, True])
    idx = h.clist([(i - n) if neg else i for i in drop])
    y, w2 = h.call(h.get(F + '::impose_unweighted'), idx, x, w)
    e = dict(y=y, w2=w2, x=x, w=w, n=n)
    h.check('exactly-the-designated-weights-are-zero',
            ' and '.join(('w2[%d] == 0' if i in drop else 'w2[%d] > 0') % i for i in range(n)), **e)
    h.check('total-weight-kept', '%s == %s' % (_sum('w2', n), _sum('w', n)), **e)
    h.check('weighted-mean-kept', '%s == %s' % (_mean('y', n, 'w2'), _mean('x', n, 'w')), **e)


@contract('C18/expectation', ['C18', 'C19'], F + '::expectation', samples=200)
def expectation(h):
    """E[f] = sum(w_i f(x_i)) / sum(w_i) for ANY real weights with a non-zero total (signed weights are legal: point
    masses accept them), f an arbitrary function; unweighted: the plain average"""
    n = h.choice('n', [1, 2, 3])
    weighted = h.choice('weighted', [False, True])
    f = h.fn('F', ret='real')
    x = h.vec('x', n)
    if weighted:
        w = h.vec('w', n)
        h.assume(' + '.join('w[%d]' % i for i in range(n)) + ' != 0', w=w)
        r = h.call(h.get(F + '::expectation'), f, x, w)
        fx = [h.call(f, h.ev('x[%d]' % i, x=x)) for i in range(n)]
        env = {'f%d' % i: v for i, v in enumerate(fx)}
        h.check('textbook-weighted-expectation',
                'r * (%s) == %s' % (' + '.join('w[%d]' % i for i in range(n)), ' + '.join('w[%d] * f%d' % (i, i) for i in range(n))),
                r=r, w=w, **env)
    else:
        r = h.call(h.get(F + '::expectation'), f, x)
        fx = [h.call(f, h.ev('x[%d]' % i, x=x)) for i in range(n)]
        env = {'f%d' % i: v for i, v in enumerate(fx)}
        h.check('textbook-expectation', 'r * %d == %s' % (n, ' + '.join('f%d' % i for i in range(n))), r=r, **env)


PAIR_SETS = [((0, 1),), ((0, 1), (0, 2)), ((0, 1), (2, 3)), ((0, 1), (1, 2)), ((0, 2), (1, 2)), ((0, 1), (0, 2), (1, 2)),
             ((1, 3), (2, 3), (0, 3)), ((0, 1), (2, 3), (1, 2))]


def _groups(n, pairs):
    parent = list(range(n))

    def find(a):
        while parent[a] != a:
            a = parent[a]
        return a
    for a, b in pairs:
        ra, rb = find(a), find(b)
        if ra != rb:
            parent[rb] = ra
    out = {}
    for i in range(n):
        out.setdefault(find(i), []).append(i)
    return [g for g in out.values() if len(g) > 1]


@contract('C18/impose_collapse', ['C18', 'C11'], F + '::impose_collapse', samples=200)
def impose_collapse(h):
    """per pair structure (single pair, star, chain, two groups, shared second member, clique, late join of two groups)
    and for ALL positions and positive weights of 4 points: every connected group of the pairs ends with one carrier of
    the group's whole weight and zero weight elsewhere, all its positions coincide, points in no pair keep their weight,
    total weight and weighted mean are preserved"""
    pairs = h.choice('pairs', PAIR_SETS)
    as_list = h.choice('pairs_given_as', ['list', 'reversed-list'])
    n = 4
    x, w = h.vec('x', n), h.vec('w', n)
    h.assume(' and '.join('w[%d] > 0' % i for i in range(n)), w=w)
    ps = list(pairs) if as_list == 'list' else list(reversed(pairs))
    arg = h.clist([h.tup(a, b) for a, b in ps]) if h.is_sym() else list(ps)
    y, w2 = h.call(h.get(F + '::impose_collapse'), arg, x, w)
    groups = _groups(n, pairs)
    free = [i for i in range(n) if not any(i in g for g in groups)]
    e = dict(y=y, w2=w2, x=x, w=w)
    conj = []
    for g in groups:
        tot = ' + '.join('w[%d]' % i for i in g)
        conj.append('(%s)' % ' or '.join('(w2[%d] == %s and %s)' % (c, tot, ' and '.join('w2[%d] == 0' % o for o in g if o != c)) for c in g))
    h.check('each-group-has-one-carrier-of-its-whole-weight', ' and '.join(conj), **e)
    h.check('positions-of-a-group-coincide', ' and '.join('y[%d] == y[%d]' % (g[0], o) for g in groups for o in g[1:]), **e)
    if free:
        h.check('points-in-no-pair-keep-their-weight', ' and '.join('w2[%d] == w[%d]' % (i, i) for i in free), **e)
    h.check('total-weight-kept', '%s == %s' % (_sum('w2', n), _sum('w', n)), **e)
    h.check('weighted-mean-kept', '%s == %s' % (_mean('y', n, 'w2'), _mean('x', n, 'w')), **e)


@contract('C18/Lnorm', ['C18', 'C10'], 'mystic/math/distance.py::Lnorm', samples=200)
def lnorm(h):
    """the L-p norm of a vector for p = 1 (sum of magnitudes), 2 (root of the sum of squares), inf (largest magnitude)
    and 0 (number of non-zero entries): textbook definitions, any signs (p = -inf is outside the documented domain
    [0, inf]; the code path for it raises TypeError -- noted in DESIGN 5, not a finding against C18)"""
    n = h.choice('n', [1, 2, 3])
    p = h.choice('p', ['1', '2', 'inf', '0'])          # documented domain: p in [0, inf]
    w = h.vec('w', n)
    pv = {'1': 1, '2': 2, 'inf': h.inf(), '0': 0}[p]
    r = h.call(h.get('mystic/math/distance.py::Lnorm'), w, pv)
    a = ['(w[%d] if w[%d] >= 0 else -w[%d])' % (i, i, i) for i in range(n)]
    if p == '1':
        h.check('sum-of-magnitudes', 'r == ' + ' + '.join(a), r=r, w=w)
    elif p == '2':
        h.check('root-of-the-sum-of-squares', 'r >= 0 and r * r == ' + ' + '.join('w[%d] * w[%d]' % (i, i) for i in range(n)), r=r, w=w)
    elif p == 'inf':
        h.check('largest-magnitude', 'r == max(%s)' % ', '.join(a + ['0']) if n == 1 else 'r == max(%s)' % ', '.join(a), r=r, w=w)
    else:
        h.check('number-of-non-zero-entries', 'r == ' + ' + '.join('(1 if w[%d] != 0 else 0)' % i for i in range(n)), r=r, w=w)


@contract('C18/ess-extrema', ['C18', 'C19'], F + '::ess_minimum', samples=200)
def ess_extrema(h):
    """minimum / maximum / ptp of f over the sample points and their essential versions over the SUPPORT (points with
    weight > tol): the least / greatest value of f over exactly those points, ptp their difference (f arbitrary)"""
    n = h.choice('n', [1, 2, 3])
    which = h.choice('function', ['minimum', 'maximum', 'ptp', 'ess_minimum', 'ess_maximum', 'ess_ptp'])
    f = h.fn('F', ret='real')
    x = h.vec('x', n)
    fx = [h.call(f, h.ev('x[%d]' % i, x=x)) for i in range(n)]
    env = {'f%d' % i: v for i, v in enumerate(fx)}
    if which.startswith('ess_'):
        w, tol = h.vec('w', n), h.real('tol')
        env.update(w=w, tol=tol)
        h.assume(' or '.join('w[%d] > tol' % i for i in range(n)), **env)        # a non-empty support
        r = h.call(h.get(F + '::' + which), f, x, w, tol)
        sel = ['w[%d] > tol' % i for i in range(n)]
    else:
        r = h.call(h.get(F + '::' + which), f, x)
        sel = ['True'] * n
    lo = ' and '.join('(not (%s) or m <= f%d)' % (sel[i], i) for i in range(n)) + ' and (' + ' or '.join('((%s) and m == f%d)' % (sel[i], i) for i in range(n)) + ')'
    hi = ' and '.join('(not (%s) or M >= f%d)' % (sel[i], i) for i in range(n)) + ' and (' + ' or '.join('((%s) and M == f%d)' % (sel[i], i) for i in range(n)) + ')'
    base = which.replace('ess_', '')
    if base == 'minimum':
        h.check('least-value-of-f-over-the-selected-points', lo.replace('m ', 'r ').replace('m =', 'r ='), r=r, **env)
    elif base == 'maximum':
        h.check('greatest-value-of-f-over-the-selected-points', hi.replace('M ', 'r ').replace('M =', 'r ='), r=r, **env)
    else:
        # r = M - m for the extrema M, m: there are selected points i, j with r = f_i - f_j and every selected point lies between
        pairs = ' or '.join('((%s) and (%s) and r == f%d - f%d and %s)' % (
            sel[i], sel[j], i, j, ' and '.join('(not (%s) or (f%d <= f%d and f%d >= f%d))' % (sel[q], q, i, q, j) for q in range(n)))
            for i in range(n) for j in range(n))
        h.check('difference-of-the-extreme-values-of-f-over-the-selected-points', pairs, r=r, **env)


@contract('C18/moment-spread', ['C18'], F + '::moment', samples=200)
def moment_spread(h):
    """moment(x, w, order) = weighted mean of (x_i - mean)^order (1 for order 0, 0 for order 1); spread = max - min"""
    n = h.choice('n', [1, 2, 3])
    what = h.choice('function', ['moment0', 'moment1', 'moment2', 'moment3', 'spread'])
    x = h.vec('x', n)
    if what == 'spread':
        r = h.call(h.get(F + '::spread'), x)
        h.check('spread-is-max-minus-min', 'r == max(%s) - min(%s)' % ((', '.join(['x[%d]' % i for i in range(n)] + ['x[0]']),) * 2), r=r, x=x)
        return
    order = int(what[-1])
    weighted = h.choice('weighted', [False, True])
    w = None
    if weighted:
        w = h.vec('w', n)
        h.assume(' + '.join('w[%d]' % i for i in range(n)) + ' != 0', w=w)
    use_tol = h.choice('tol_given', [False, True]) if order >= 2 else False
    tol = h.real('tol') if use_tol else 0
    if use_tol:
        h.assume('tol >= 0', tol=tol)
        r = h.call(h.get(F + '::moment'), x, w, order, tol)
    else:
        r = h.call(h.get(F + '::moment'), x, w, order)
    wn = 'w' if weighted else None
    m = _mean('x', n, wn)
    if order == 0:
        h.check('zeroth-moment-is-one', 'r == 1', r=r)
    elif order == 1:
        h.check('first-central-moment-is-zero', 'r == 0', r=r)
    else:
        dev = ['(x[%d] - %s)' % (i, m) for i in range(n)]
        terms = [' * '.join([d] * order) for d in dev]
        if weighted:
            spec = '((%s) / (%s))' % (' + '.join('%s * w[%d]' % (t, i) for i, t in enumerate(terms)), ' + '.join('w[%d]' % i for i in range(n)))
        else:
            spec = '((%s) / %d)' % (' + '.join(terms), n)
        if use_tol:
            # tol applies to the RESULT ("any mean <= tol is zero"), the deviations are taken about the true mean
            if h.is_sym():
                h.check('central-moment-about-the-true-mean-zeroed-only-when-within-tol',
                        'r == (0 if abs(%s) <= tol else %s)' % (spec, spec), r=r, x=x, w=w, tol=tol)
            return
        if h.is_sym():
            h.check('weighted-mean-of-the-powered-deviations', 'r == ' + spec, r=r, x=x, w=w)
        else:
            # floats: odd central moments cancel (two points: exactly 0 in the reals), so the cross-check compares on
            # the scale of the summed magnitudes, not of the (possibly vanishing) result
            mag = ' + '.join('abs(%s)' % t for t in terms)
            h.check('weighted-mean-of-the-powered-deviations', 'abs(r - %s) <= 1e-9 * (1 + %s)' % (spec, mag), r=r, x=x, w=w)


# ---------------------------------------------------------------------------- medians (order statistics)
def _sorted_expr(names):
    """the i-th smallest of a few symbolic numbers, as contract text over min / max (n <= 4)"""
    n = len(names)
    if n == 1:
        return [names[0]]
    if n == 2:
        a, b = names
        return ['min(%s, %s)' % (a, b), 'max(%s, %s)' % (a, b)]
    if n == 3:
        a, b, c = names
        return ['min(%s, %s, %s)' % (a, b, c), 'max(min(%s, %s), min(max(%s, %s), %s))' % (a, b, a, b, c), 'max(%s, %s, %s)' % (a, b, c)]
    a, b, c, d = names
    lo1, hi1, lo2, hi2 = 'min(%s, %s)' % (a, b), 'max(%s, %s)' % (a, b), 'min(%s, %s)' % (c, d), 'max(%s, %s)' % (c, d)
    return ['min(%s, %s)' % (lo1, lo2), 'min(max(%s, %s), min(%s, %s))' % (lo1, lo2, hi1, hi2),
            'max(max(%s, %s), min(%s, %s))' % (lo1, lo2, hi1, hi2), 'max(%s, %s)' % (hi1, hi2)]


def _median_expr(names):
    s = _sorted_expr(names)
    n = len(names)
    return s[n // 2] if n % 2 else '((%s) + (%s)) / 2' % (s[n // 2 - 1], s[n // 2])


@contract('C18/median', ['C18'], F + '::median', samples=200)
def median(h):
    """unweighted (and equally weighted) samples: the middle order statistic, the mean of the two middle ones for an even
    number of points (n = 1..4, all values).  (Weighted with an even number of points: finding F38.)"""
    n = h.choice('n', SIZES)
    wk = h.choice('weights', ['None', 'equal', 'positive'])
    x = h.vec('x', n)
    w = None
    if wk == 'equal':
        c = h.real('w')
        h.assume('c > 0', c=c)
        w = h.clist([c] * n)
    elif wk == 'positive':
        if n % 2 == 0:
            return                  # (an even number of weighted points: finding F38)
        w = h.vec('w', n)
        h.assume(' and '.join('w[%d] > 0' % i for i in range(n)), w=w)
    r = h.call(h.get(F + '::median'), x, w)
    env = {'x%d' % i: h.ev('x[%d]' % i, x=x) for i in range(n)}
    if wk == 'positive':
        # the weighted (lower) median: a sample point with less than half of the mass strictly below it and at least half of
        # it at or below it
        tot = ' + '.join('w[%d]' % i for i in range(n))
        below = ' + '.join('(w[%d] if x[%d] < r else 0)' % (i, i) for i in range(n))
        upto = ' + '.join('(w[%d] if x[%d] <= r else 0)' % (i, i) for i in range(n))
        h.check('weighted-median-splits-the-mass', '(%s) and 2 * (%s) < (%s) and 2 * (%s) >= (%s)'
                % (' or '.join('r == x[%d]' % i for i in range(n)), below, tot, upto, tot), r=r, x=x, w=w)
        return
    h.check('textbook-median', 'r == %s' % _median_expr(sorted(env)), r=r, **env)


@contract('C18/impose_median', ['C18'], F + '::impose_median', samples=200)
def impose_median(h):
    """the points are shifted by one common amount and their median is the requested one (n = 1..4, unweighted)"""
    n = h.choice('n', SIZES)
    x = h.vec('x', n)
    m = h.real('target')
    y = h.call(h.get(F + '::impose_median'), m, x)
    env = {'y%d' % i: h.ev('y[%d]' % i, y=y) for i in range(n)}
    h.check('requested-median-reached', 'm == %s' % _median_expr(sorted(env)), m=m, **env)
    h.check('one-common-shift', ' and '.join('y[%d] - x[%d] == y[0] - x[0]' % (i, i) for i in range(n)), y=y, x=x)


@contract('C18/mad', ['C18'], F + '::mad', samples=200)
def mad(h):
    """median absolute deviation of unweighted points: the median of |x_i - median(x)| (n = 1..3)"""
    n = h.choice('n', [1, 2, 3])
    x = h.vec('x', n)
    r = h.call(h.get(F + '::mad'), x)
    env = {'x%d' % i: h.ev('x[%d]' % i, x=x) for i in range(n)}
    med = _median_expr(sorted(env))
    devs = ['abs(%s - (%s))' % (nm, med) for nm in sorted(env)]
    h.check('textbook-median-absolute-deviation', 'r == %s' % _median_expr(devs), r=r, **env)


@contract('C18/impose_mad', ['C18'], F + '::impose_mad', samples=200)
def impose_mad(h):
    """impose_mad(s, x) on points whose median absolute deviation is not zero: the result has the requested deviation (s >= 0)
    and the median of the input (n = 2, 3, unweighted)"""
    n = h.choice('n', [2, 3])
    x = h.vec('x', n)
    s = h.real('target')
    h.assume('s >= 0', s=s)
    env0 = {'x%d' % i: h.ev('x[%d]' % i, x=x) for i in range(n)}
    med0 = _median_expr(sorted(env0))
    devs0 = ['abs(%s - (%s))' % (nm, med0) for nm in sorted(env0)]
    h.assume('(%s) != 0' % _median_expr(devs0), **env0)
    if not h.is_sym():
        h.assume('(%s) > 1e-6' % _median_expr(devs0), **env0)        # floats: a deviation that is non-zero by rounding only
    y = h.call(h.get(F + '::impose_mad'), s, x)
    env = {'y%d' % i: h.ev('y[%d]' % i, y=y) for i in range(n)}
    med = _median_expr(sorted(env))
    devs = ['abs(%s - (%s))' % (nm, med) for nm in sorted(env)]
    h.check('median-preserved', '(%s) == (%s)' % (med, med0), **dict(env, **env0))
    h.check('requested-deviation-reached', 's == %s' % _median_expr(devs), s=s, **env)


TRIMS = [(0, False), (25, False), (25, True), ((25, 0), False), ((0, 25), True), (50, False), ((50, 25), False)]


def _trim_weights(n, k, clip):
    """textbook: each of the n sorted points carries 1/n of the mass; klo% of the mass is cut from below and khi% from above
    (a point straddling a cut keeps the part inside); winsorizing moves the cut mass onto the nearest kept point.  Exact
    rational weights per sorted point (scaled by n)."""
    from fractions import Fraction as Fr
    klo, khi = (k, k) if not isinstance(k, tuple) else k
    lo_cut, hi_cut = Fr(klo, 100), 1 - Fr(khi, 100)
    w = []
    for i in range(n):
        a, b = Fr(i, n), Fr(i + 1, n)
        w.append(max(Fr(0), min(b, hi_cut) - max(a, lo_cut)))
    if clip:
        kept = [i for i, v in enumerate(w) if v > 0]
        if kept:
            w[kept[0]] += lo_cut
            w[kept[-1]] += 1 - hi_cut
    return [v * n for v in w]


@contract('C18/tmean', ['C18'], F + '::tmean', samples=200)
def tmean(h):
    """trimmed / winsorized mean of four unweighted points for enumerated trimming fractions: the weighted mean of the sorted
    points with the textbook trimming weights"""
    n = 4
    k, clip = h.choice('trim', TRIMS)
    x = h.vec('x', n)
    w = _trim_weights(n, k, clip)
    tot = sum(w)
    if tot == 0:
        return                      # everything trimmed away: documented to give nan (no real number to compare)
    r = h.call(h.get(F + '::tmean'), x, None, k, clip)
    env = {'x%d' % i: h.ev('x[%d]' % i, x=x) for i in range(n)}
    srt = _sorted_expr(sorted(env))
    num = ' + '.join('(%d/%d) * (%s)' % (v.numerator, v.denominator, e) for v, e in zip(w, srt) if v)
    h.check('textbook-trimmed-mean', 'r * (%d/%d) == %s' % (tot.numerator, tot.denominator, num), r=r, **env)


@contract('C18/tvariance', ['C18'], F + '::tvariance', samples=200)
def tvariance(h):
    """trimmed / winsorized variance of four unweighted points (dyadic trimming weights: exact in binary floating point): the trimming-weighted mean of the squared deviations from the
    trimmed mean (tstd is its root)"""
    n = 4
    k, clip = h.choice('trim', TRIMS)
    x = h.vec('x', n)
    w = _trim_weights(n, k, clip)
    tot = sum(w)
    if tot == 0:
        return
    # the points are given in ascending order here (tmean's contract covers the sorting for every order; with the order
    # statistics written as min / max terms the quadratic identity is beyond the solvers' budget)
    h.assume('x[0] <= x[1] and x[1] <= x[2] and x[2] <= x[3]', x=x)
    r = h.call(h.get(F + '::tvariance'), x, None, k, clip)
    env = {'x%d' % i: h.ev('x[%d]' % i, x=x) for i in range(n)}
    srt = sorted(env)
    frac = lambda v: '(%d/%d)' % (v.numerator, v.denominator)       # noqa: E731
    tm = '((%s) / %s)' % (' + '.join('%s * (%s)' % (frac(v), e) for v, e in zip(w, srt) if v), frac(tot))
    num = ' + '.join('%s * ((%s) - %s) * ((%s) - %s)' % (frac(v), e, tm, e, tm) for v, e in zip(w, srt) if v)
    h.check('textbook-trimmed-variance', 'r * %s == %s' % (frac(tot), num), r=r, **env)
    sd = h.call(h.get(F + '::tstd'), x, None, k, clip)
    h.check('tstd-is-the-root-of-tvariance', 'sd >= 0 and sd * sd == r', sd=sd, r=r)


@contract('C18/impose_tmean', ['C18'], F + '::impose_tmean', samples=200)
def impose_tmean(h):
    """impose_tmean(m, x, k=, clip=) on four unweighted points: one common shift after which the trimmed / winsorized mean is
    the requested one"""
    n = 4
    k, clip = h.choice('trim', [t for t in TRIMS if sum(_trim_weights(4, t[0], t[1])) != 0])
    x = h.vec('x', n)
    m = h.real('target')
    y = h.call(h.get(F + '::impose_tmean'), m, x, None, k, clip)
    env = {'y%d' % i: h.ev('y[%d]' % i, y=y) for i in range(n)}
    srt = _sorted_expr(sorted(env))
    w = _trim_weights(n, k, clip)
    tot = sum(w)
    num = ' + '.join('(%d/%d) * (%s)' % (v.numerator, v.denominator, e) for v, e in zip(w, srt) if v)
    h.check('requested-trimmed-mean-reached', 'm * (%d/%d) == %s' % (tot.numerator, tot.denominator, num), m=m, **env)
    h.check('one-common-shift', ' and '.join('y[%d] - x[%d] == y[0] - x[0]' % (i, i) for i in range(n)), y=y, x=x)
