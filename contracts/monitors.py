"""C20: mystic.monitors.Monitor -- record / length / item access / extend / prepend / + (DESIGN Appendix A.9).

Histories of ANY length are covered with scalar records (a monitor accepts a scalar x: listify(x) is x); records whose
x is a list are covered for all list lengths one call at a time (`__call__`) and at fixed small history sizes for
extend / prepend / + (rows are heap objects: the symbolic-length list model holds scalars only).
`k` (the cost multiplier) ranges over None and every non-zero real; floats are reals, so the statement "cost scaling
by k is transparent" is proved exactly here and is "to rounding" in the bounded layer."""
from pyvc.contract import contract, loop

M = 'mystic/monitors.py'
MON = M + '::Monitor'
T = 'mystic/tools.py'


def _k(h, name='k'):
    kind = h.choice(name + '_kind', ['None', 'real'])
    if kind == 'None':
        return None
    k = h.real(name)
    h.assume('k != 0', k=k)
    return k


def _scalar_monitor(h, tag, k, ids_none=False):
    """a monitor holding n scalar records (n symbolic)"""
    n = h.int(tag + '_n')
    h.assume('n >= 0', n=n)
    xs, ys = h.list_real(tag + '_x', n=n), h.list_real(tag + '_y', n=n, inf=True)
    if ids_none:
        ids = h.clist([])        # ids are None: a symbolic list holds numbers only, so the id column starts empty here
    else:
        ids = h.list_int(tag + '_id')
        h.assume('len(ids) == n', ids=ids, n=n)
    info = h.clist([])
    m = h.obj(MON, _x=xs, _y=ys, _id=ids, _info=info, k=k, _npts=None, label='ChiSquare')
    return m, n, xs, ys, ids


@contract('C20/Monitor.__call__/scalar-record', ['C20'], MON + '.__call__', samples=300)
def record_scalar(h):
    """after a call the monitor is one record longer, the new record is (x, k*y, id), earlier records are unchanged"""
    k = _k(h)
    idk = h.choice('id_kind', ['None', 'int'])
    m, n, xs, ys, ids = _scalar_monitor(h, 'm', k, ids_none=(idk == 'None'))
    x, y = h.real('x'), h.real('y', inf=True)
    rid = None if idk == 'None' else h.int('id')
    xs0, ys0, ids0 = h.snapshot(xs), h.snapshot(ys), h.snapshot(ids)
    h.call(m, x, y, rid) if idk == 'int' else h.call(m, x, y)
    env = dict(m=m, n=n, x=x, y=y, k=k, xs=h.field(m, '_x'), ys=h.field(m, '_y'), xs0=xs0, ys0=ys0)
    h.check('one-record-longer', 'len(m) == n + 1 and len(xs) == n + 1 and len(ys) == n + 1', **env)
    h.check('new-record-holds-x', 'xs[n] == x', **env)
    h.check('new-record-holds-k-times-y', 'ys[n] == (y if k is None else y * k)', **env)
    h.check('earlier-records-unchanged', 'forall(0, n, lambda i: xs[i] == xs0[i] and ys[i] == ys0[i])', **env)
    if idk == 'None':
        h.check('new-record-holds-id', 'len(ids) == 1 and ids[0] is None', ids=h.field(m, '_id'))
    else:
        h.check('new-record-holds-id', 'len(ids) == n + 1 and ids[n] == rid and forall(0, n, lambda i: ids[i] == ids0[i])',
                ids=h.field(m, '_id'), ids0=ids0, rid=rid, n=n)


@contract('C20/Monitor.__call__/list-record', ['C20'], MON + '.__call__', samples=300)
def record_list(h):
    """x a list / array of any length, y a scalar, history of 0..2 earlier records: the stored parameters are an equal
    *list* (a copy: later changes of the caller's vector do not reach the monitor), everything else as above"""
    k = _k(h)
    nh = h.choice('history', [0, 1, 2])
    nd = h.choice('x_is_array', [False, True])
    rows = [h.list_real('old_x%d' % i) for i in range(nh)]
    xs, ys = h.clist(list(rows)), h.clist([h.real('old_y%d' % i, inf=True) for i in range(nh)])
    ids = h.clist([None] * nh)
    m = h.obj(MON, _x=xs, _y=ys, _id=ids, _info=h.clist([]), k=k, _npts=None, label='ChiSquare')
    x, y = h.list_real('x', nd=nd), h.real('y', inf=True)
    x0 = h.snapshot(x)
    olds = [h.snapshot(r) for r in rows]
    ys0 = h.snapshot(ys)
    h.call(m, x, y)
    env = dict(m=m, nh=nh, x=x, x0=x0, y=y, k=k, xs=h.field(m, '_x'), ys=h.field(m, '_y'), ys0=ys0)
    h.check('one-record-longer', 'len(m) == nh + 1 and len(xs) == nh + 1 and len(ys) == nh + 1', **env)
    h.check('new-record-holds-x', 'seq_eq(xs[nh], x0)', **env)
    h.check('stored-parameters-are-a-copy', 'not same(xs[nh], x)', **env)
    h.check('callers-vector-unchanged', 'seq_eq(x, x0)', **env)
    h.check('new-record-holds-k-times-y', 'ys[nh] == (y if k is None else y * k)', **env)
    for i in range(nh):
        h.check('earlier-records-unchanged', 'same(xs[i], r) and seq_eq(r, r0) and ys[i] == ys0[i]', i=i, r=rows[i], r0=olds[i], **env)


# ---------------------------------------------------------------------------- extend / prepend / + / item access
VIS = '(1 if %s is None else %s)'      # the divisor that turns a stored cost into the user-visible one
# both monitors show the same cost:  y_recv / k_recv == y_giver / k_giver,  written with the single ratio R = k_giver / k_recv
RATIO = '((1 if %s is None else %s) / (1 if %s is None else %s))'


def _two(h):
    ka, kb = _k(h, 'ka'), _k(h, 'kb')
    a, n, ax, ay, aid = _scalar_monitor(h, 'a', ka)
    b, p, bx, by, bid = _scalar_monitor(h, 'b', kb)
    return dict(a=a, b=b, n=n, p=p, ka=ka, kb=kb, ax0=h.snapshot(ax), ay0=h.snapshot(ay), aid0=h.snapshot(aid),
                bx0=h.snapshot(bx), by0=h.snapshot(by), bid0=h.snapshot(bid), bx=bx, by=by, bid=bid)


def _other_unchanged(h, e):
    h.check('argument-monitor-unchanged',
            'len(bx) == p and len(by) == p and len(bid) == p and '
            'forall(0, p, lambda i: bx[i] == bx0[i] and by[i] == by0[i] and bid[i] == bid0[i]) and same(b._x, bx) and same(b._y, by)', **e)


@contract('C20/Monitor.extend', ['C20'], MON + '.extend', samples=300)
def extend(h):
    """a.extend(b): a's records followed by b's; the user-visible costs (stored cost / k) of b are preserved whatever
    the two multipliers are; b is not altered.  Any two history lengths."""
    e = _two(h)
    h.call(h.getattr(e['a'], 'extend'), e['b'])
    e.update(x=h.field(e['a'], '_x'), y=h.field(e['a'], '_y'), ids=h.field(e['a'], '_id'))
    h.check('length-is-the-sum', 'len(a) == n + p and len(x) == n + p and len(y) == n + p and len(ids) == n + p', **e)
    h.check('own-records-first-and-unchanged', 'forall(0, n, lambda i: x[i] == ax0[i] and y[i] == ay0[i] and ids[i] == aid0[i])', **e)
    h.check('then-the-other-monitors-parameters-and-ids', 'forall(0, p, lambda i: x[n + i] == bx0[i] and ids[n + i] == bid0[i])', **e)
    h.check('then-the-other-monitors-visible-costs',
            'forall(0, p, lambda i: y[n + i] * %s == by0[i])' % (RATIO % ('kb', 'kb', 'ka', 'ka')), **e)
    _other_unchanged(h, e)


def _prepend_loops():
    def lp(k, field, src, cmp_):
        hdr = '[self.%s.insert(*i) for i in enumerate(%s)]' % (field, src)
        inv = ['len(self.%s) == entry(len(self.%s)) + _i_' % (field, field),
               'forall(0, _i_, lambda q: %s)' % cmp_,
               'forall(0, entry(len(self.%s)), lambda q: self.%s[_i_ + q] == entry(self.%s)[q])' % (field, field, field)]
        return loop(M, 'Monitor.prepend', k, hdr, inv, modifies=['self.%s' % field])
    return dict([
        lp(0, '_x', 'monitor._x', 'self._x[q] == monitor._x[q]'),
        lp(1, '_y', 'self._get_y(monitor)',
           'self._y[q] * %s == monitor._y[q]' % (RATIO % ('monitor.k', 'monitor.k', 'self.k', 'self.k'))),
        lp(2, '_id', 'monitor._id', 'self._id[q] == monitor._id[q]'),
        lp(3, '_info', 'monitor._info', 'True'),
    ])


@contract('C20/Monitor.prepend', ['C20'], MON + '.prepend', loops=_prepend_loops(), samples=300,
          small=[dict(a_n=0, b_n=2), dict(a_n=2, b_n=1)])
def prepend(h):
    """a.prepend(b): b's records followed by a's (the four list comprehensions of insert(i, item) are loops with the
    invariant  a = b[:i] ++ old(a)); visible costs preserved; b is not altered.  Any two history lengths."""
    e = _two(h)
    h.call(h.getattr(e['a'], 'prepend'), e['b'])
    e.update(x=h.field(e['a'], '_x'), y=h.field(e['a'], '_y'), ids=h.field(e['a'], '_id'))
    h.check('length-is-the-sum', 'len(a) == n + p and len(x) == n + p and len(y) == n + p and len(ids) == n + p', **e)
    h.check('the-other-monitors-parameters-and-ids-first', 'forall(0, p, lambda i: x[i] == bx0[i] and ids[i] == bid0[i])', **e)
    h.check('the-other-monitors-visible-costs-first',
            'forall(0, p, lambda i: y[i] * %s == by0[i])' % (RATIO % ('kb', 'kb', 'ka', 'ka')), **e)
    h.check('then-own-records-unchanged', 'forall(0, n, lambda i: x[p + i] == ax0[i] and y[p + i] == ay0[i] and ids[p + i] == aid0[i])', **e)
    _other_unchanged(h, e)


@contract('C20/Monitor.__add__', ['C20'], MON + '.__add__', samples=300)
def add(h):
    """a + b: a fresh monitor holding a's records then b's (visible costs); neither operand is altered"""
    e = _two(h)
    r = h.call(h.getattr(e['a'], '__add__'), e['b'])
    e.update(r=r, x=h.field(r, '_x'), y=h.field(r, '_y'), ids=h.field(r, '_id'),
             ax=h.field(e['a'], '_x'), ay=h.field(e['a'], '_y'), aid=h.field(e['a'], '_id'))
    h.check('result-is-a-new-monitor', 'not same(r, a) and not same(r, b) and not same(x, ax) and not same(y, ay)', **e)
    h.check('result-keeps-the-left-multiplier', 'same(r.k, a.k) if a.k is None else r.k == a.k', **e)
    h.check('length-is-the-sum', 'len(r) == n + p and len(x) == n + p and len(y) == n + p and len(ids) == n + p', **e)
    h.check('left-records-first', 'forall(0, n, lambda i: x[i] == ax0[i] and y[i] == ay0[i] and ids[i] == aid0[i])', **e)
    h.check('then-right-records', 'forall(0, p, lambda i: x[n + i] == bx0[i] and ids[n + i] == bid0[i])', **e)
    h.check('then-right-visible-costs', 'forall(0, p, lambda i: y[n + i] * %s == by0[i])' % (RATIO % ('kb', 'kb', 'ka', 'ka')), **e)
    h.check('left-operand-unchanged', 'len(ax) == n and len(ay) == n and len(aid) == n and '
            'forall(0, n, lambda i: ax[i] == ax0[i] and ay[i] == ay0[i] and aid[i] == aid0[i])', **e)
    _other_unchanged(h, e)


@contract('C20/Monitor.item-access', ['C20'], MON + '.__getitem__', samples=300)
def item(h):
    """m[i], m.x[i], m.y[i], m.id[i], len(m) for an integer i (negative allowed): the i-th recorded parameters, the i-th
    recorded cost as the user gave it (k divided out), the i-th id"""
    k = _k(h)
    m, n, xs, ys, ids = _scalar_monitor(h, 'm', k)
    i = h.int('i')
    h.assume('-n <= i and i < n', i=i, n=n)
    j = h.ev('i if i >= 0 else n + i', i=i, n=n)
    r = h.call(h.getattr(m, '__getitem__'), i)
    e = dict(m=m, r=r, i=i, j=j, n=n, k=k, xs=h.snapshot(xs), ys=h.snapshot(ys), ids=h.snapshot(ids))
    h.check('length-is-the-number-of-records', 'len(m) == n', **e)
    h.check('item-is-the-recorded-pair', 'len(r) == 2 and r[0] == xs[j] and r[1] * %s == ys[j]' % (VIS % ('k', 'k')), **e)
    h.check('x-y-id-columns', 'm.x[i] == xs[j] and m.y[i] * %s == ys[j] and m.id[i] == ids[j] and len(m.y) == n' % (VIS % ('k', 'k')), **e)
    h.check('reading-does-not-alter-the-monitor', 'len(m._x) == n and len(m._y) == n and forall(0, n, lambda q: m._x[q] == xs[q] and m._y[q] == ys[q])', **e)


# ---------------------------------------------------------------------------- installing a monitor on a solver
AS = 'mystic/abstract_solver.py'


def _install(h, method, field):
    """solver.Set{Generation,Evaluation}Monitor(m) with new=False: the data collected so far is kept -- the installed
    monitor holds the old monitor's records followed by its own, and is the one the solver uses from now on"""
    e = _two(h)          # a = the monitor being installed, b = the solver's current monitor
    s = h.obj(AS + '::AbstractSolver', _energy_history=h.list_real('stale_energy_history'), _solution_history=None,
              **{field: e['b'], '_stepmon' if field != '_stepmon' else '_evalmon': None})
    h.call(h.getattr(s, method), e['a'])
    e.update(s=s, x=h.field(e['a'], '_x'), y=h.field(e['a'], '_y'), ids=h.field(e['a'], '_id'), cur=h.field(s, field))
    h.check('the-given-monitor-is-installed', 'same(cur, a)', **e)
    h.check('earlier-records-come-first', 'len(a) == n + p and forall(0, p, lambda i: x[i] == bx0[i] and ids[i] == bid0[i] and '
            'y[i] * %s == by0[i])' % (RATIO % ('kb', 'kb', 'ka', 'ka')), **e)
    h.check('then-the-monitors-own-records', 'forall(0, n, lambda i: x[p + i] == ax0[i] and y[p + i] == ay0[i] and ids[p + i] == aid0[i])', **e)
    _other_unchanged(h, e)
    if field == '_stepmon':
        h.check('cached-histories-resynchronised-with-the-new-monitor', 's._energy_history is None and s._solution_history is None', **e)


def _prepend_loops_for(qual):
    return _prepend_loops()


contract('C20/SetGenerationMonitor', ['C20', 'C04'], AS + '::AbstractSolver.SetGenerationMonitor', loops=_prepend_loops(),
         samples=200)(lambda h: _install(h, 'SetGenerationMonitor', '_stepmon'))
contract('C20/SetEvaluationMonitor', ['C20', 'C04'], AS + '::AbstractSolver.SetEvaluationMonitor', loops=_prepend_loops(),
         samples=200)(lambda h: _install(h, 'SetEvaluationMonitor', '_evalmon'))


# ---------------------------------------------------------------------------- C06 / C20: what pickling a logging monitor keeps
def _pickle_state(h, cls, nargs):
    """__reduce__ / __setstate__ of the logging monitors (the protocol pickle, dill and copy.deepcopy drive -- their
    driving it is an assumed contract of the standard library): the reconstructed monitor gets the SAME raw records
    (_x, _y as stored, i.e. k*cost -- not divided by k again), ids, info, k and label, is re-opened on the same file
    WITHOUT truncating it (new=False), and nothing else is put into its state"""
    if not h.is_sym():
        h.unsupported('symbolic only')
    k = _k(h)
    m, n, xs, ys, ids = _scalar_monitor(h, 'm', k)
    fields = dict(_yinterval=h.int('interval'), _filename='log.txt', _all=h.bool('all'), _vyinterval=h.int('yint'), _vxinterval=h.int('xint'))
    target = h.obj(cls, _x=xs, _y=ys, _id=ids, _info=h.field(m, '_info'), k=k, _npts=None, label='Chi', **fields)
    r = h.call(h.getattr(target, '__reduce__'))
    env = dict(r=r, m=target, xs=xs, ys=ys, ids=ids, n=n, k=k)
    h.check('reconstructor-is-the-monitors-own-class', 'len(r) == 3 and r[0] is m.__class__', **env)
    h.check('state-holds-the-raw-records', 'len(r[2]["_x"]) == n and len(r[2]["_y"]) == n and '
            'forall(0, n, lambda i: r[2]["_x"][i] == xs[i] and r[2]["_y"][i] == ys[i] and r[2]["_id"][i] == ids[i])', **env)
    h.check('state-holds-k-label-info',
            '(r[2]["k"] is None if k is None else r[2]["k"] == k) and r[2]["label"] == "Chi" and same(r[2]["_info"], m._info)', **env)
    h.check('reopened-on-the-same-file-without-truncating-it',
            'len(r[1]) == %d and r[1][%d] == "log.txt" and r[1][%d] is False and r[1][0] == m._yinterval' % (nargs, nargs - 4, nargs - 3), **env)
    fresh = h.obj(cls, _x=h.clist([]), _y=h.clist([]), _id=h.clist([]), _info=h.clist([]), k=None, _npts=None, label=None, **fields)
    h.call(h.getattr(fresh, '__setstate__'), h.ev('r[2]', r=r))
    h.check('setstate-installs-exactly-the-state',
            'same(f._x, r[2]["_x"]) and same(f._y, r[2]["_y"]) and same(f._id, r[2]["_id"]) and same(f._info, r[2]["_info"]) and f.label == "Chi" '
            'and (f.k is None if k is None else f.k == k) and f._filename == "log.txt"', f=fresh, **env)
    h.check('visible-costs-of-the-restored-monitor-are-the-recorded-costs',
            'len(f._y) == n and forall(0, n, lambda i: f._y[i] == ys[i])', f=fresh, **env)


contract('C06/LoggingMonitor.__reduce__', ['C06', 'C20'], M + '::LoggingMonitor.__reduce__', native=False)(
    lambda h: _pickle_state(h, M + '::LoggingMonitor', 5))
contract('C06/VerboseLoggingMonitor.__reduce__', ['C06', 'C20'], M + '::VerboseLoggingMonitor.__reduce__', native=False)(
    lambda h: _pickle_state(h, M + '::VerboseLoggingMonitor', 7))


@contract('C20/Monitor.slice', ['C20'], MON + '.__getitem__', native=False)
def monitor_slice(h):
    """m[a:b] for any history length and any integer bounds (negative / out of range as python slices them): a NEW monitor
    holding exactly the records a'..b'-1 in order, with the same k and label, sharing no list with m; m is unchanged"""
    if not h.is_sym():
        h.unsupported('symbolic only (slices of real monitors incl. steps and index lists: rtc/c20)')
    k = _k(h)
    m, n, xs, ys, ids = _scalar_monitor(h, 'm', k)
    form = h.choice('slice', ['a:b', 'a:', ':b'])
    a, b = h.int('a'), h.int('b')
    lo = h.ev('0', ) if form == ':b' else h.ev('min(max(a + n, 0), n) if a < 0 else min(a, n)', a=a, n=n)
    hi = n if form == 'a:' else h.ev('min(max(b + n, 0), n) if b < 0 else min(b, n)', b=b, n=n)
    r = h.ev('m[%s]' % form, m=m, a=a, b=b)
    e = dict(m=m, r=r, lo=lo, hi=hi, n=n, k=k, xs=h.snapshot(xs), ys=h.snapshot(ys), ids=h.snapshot(ids))
    h.check('a-new-monitor-of-the-sliced-length', 'not same(r, m) and len(r) == max(0, hi - lo)', **e)
    h.check('holds-exactly-the-sliced-records-in-order',
            'forall(0, max(0, hi - lo), lambda q: r._x[q] == xs[lo + q] and r._y[q] == ys[lo + q] and r._id[q] == ids[lo + q])', **e)
    h.check('same-multiplier-and-label', '(r.k is None if k is None else r.k == k) and r.label == m.label', **e)
    h.check('shares-no-list-with-the-original', 'not same(r._x, m._x) and not same(r._y, m._y) and not same(r._id, m._id)', **e)
    h.check('original-unchanged', 'len(m._x) == n and len(m._y) == n and forall(0, n, lambda q: m._x[q] == xs[q] and m._y[q] == ys[q] and m._id[q] == ids[q])', **e)


def _install_other(h, method, field):
    """the other documented ways of calling Set{Generation,Evaluation}Monitor with new=False: None / Null() / the Null
    class (the generation monitor then becomes a fresh Monitor that keeps every record collected so far -- generations
    are counted from it --, the evaluation monitor becomes the record-less Null), and the monitor that is already
    installed given again (nothing is prepended to itself: no record is duplicated)"""
    given = h.choice('given', ['None', 'Null()', 'Null', 'the-installed-monitor'])
    kb = _k(h, 'kb')
    b, p, bx, by, bid = _scalar_monitor(h, 'b', kb)
    bx0, by0, bid0 = h.snapshot(bx), h.snapshot(by), h.snapshot(bid)
    s = h.obj(AS + '::AbstractSolver', _energy_history=h.list_real('stale_energy_history'), _solution_history=None,
              **{field: b, '_stepmon' if field != '_stepmon' else '_evalmon': None})
    NullC = h.get(M + '::Null')
    arg = {'None': None, 'Null()': h.call(NullC), 'Null': NullC, 'the-installed-monitor': b}[given]
    h.call(h.getattr(s, method), arg)
    cur = h.field(s, field)
    e = dict(s=s, cur=cur, b=b, p=p, kb=kb, bx0=bx0, by0=by0, bid0=bid0, bx=bx, by=by, bid=bid)
    if given == 'the-installed-monitor':
        h.check('the-installed-monitor-stays-installed-with-its-records-once', 'same(cur, b) and len(b) == p and len(bx) == p and '
                'forall(0, p, lambda i: bx[i] == bx0[i] and by[i] == by0[i] and bid[i] == bid0[i])', **e)
    elif field == '_stepmon':
        e.update(x=h.field(cur, '_x'), y=h.field(cur, '_y'), ids=h.field(cur, '_id'))
        h.check('a-fresh-monitor-is-installed', 'not same(cur, b) and cur.k is None', **e)
        h.check('every-record-collected-so-far-is-kept', 'len(cur) == p and len(x) == p and len(y) == p and '
                'forall(0, p, lambda i: x[i] == bx0[i] and ids[i] == bid0[i] and y[i] * %s == by0[i])' % (VIS % ('kb', 'kb')), **e)
        _other_unchanged(h, e)
    else:
        h.check('the-record-less-Null-monitor-is-installed', 'len(cur) == 0 and not same(cur, b)', **e)
        _other_unchanged(h, e)
    if field == '_stepmon':
        h.check('cached-histories-resynchronised-with-the-new-monitor', 's._energy_history is None and s._solution_history is None', **e)


contract('C20/SetGenerationMonitor/None-Null-or-the-same-monitor', ['C20', 'C04', 'C05'], AS + '::AbstractSolver.SetGenerationMonitor',
         loops=_prepend_loops(), samples=200)(lambda h: _install_other(h, 'SetGenerationMonitor', '_stepmon'))
contract('C20/SetEvaluationMonitor/None-Null-or-the-same-monitor', ['C20', 'C04'], AS + '::AbstractSolver.SetEvaluationMonitor',
         loops=_prepend_loops(), samples=200)(lambda h: _install_other(h, 'SetEvaluationMonitor', '_evalmon'))
