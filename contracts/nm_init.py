"""C01 / C03 / C04 / C08: the first two iterations of NelderMeadSimplexSolver._Step at dimension 2 (Appendix A.5):
generation 0 (the initial evaluation) and generation 1 (the initial simplex around the start point).  The later
generations are in contracts/nm_step.py; the offsets `val` of the initial simplex come from
_setSimplexWithinRangeBoundary, under contract in contracts/initial_points.py (here: an arbitrary vector)."""
import itertools
from pyvc.contract import contract
from contracts._shared import save_probe, check_dump_after_record

SO = 'mystic/scipy_optimize.py'
AS = 'mystic/abstract_solver.py'
MONF = 'mystic/monitors.py'
MON = MONF + '::Monitor'
NM = SO + '::NelderMeadSimplexSolver'
N = 2


def _common(h, nrec, pop, popE, extra_summaries=None, cons_ret='same_nd'):
    cons = h.fn('CONS', ret=cons_ret, inplace=h.choice('constraints_in_place', [False, True]) if cons_ret == 'same_nd' else False)
    cost = h.fn('OBJECTIVE', ret='real', log='evals')
    cb = h.fn('CALLBACK', ret='none', log='callback', truthy=h.bool('callback_object_is_truthy'))
    term = h.fn('TERMINATION', ret='bool', log='termination')
    stepmon = h.obj(MON, _x=h.clist([0.0] * nrec), _y=h.clist([0.0] * nrec), _id=h.clist([]), _info=h.clist([]), k=None, _npts=None, label='s')
    s = h.obj(NM, nDim=N, nPop=N + 1, population=pop, popEnergy=popE, _bestSolution=None, _bestEnergy=None, _stepmon=stepmon,
              _useStrictRange=False, _constraints=cons, _strictbounds=cons, radius=0.05, adaptive=False, id=None,
              _termination=term, _energy_history=None, _solution_history=None, _init_popEnergy=h.inf())
    order = {'processed': False}

    def process_inputs(I, c, args, kwargs):
        order['processed'] = True
        return I.st.alloc('dict', {'callback': cb})

    def bootstrap(I, c, args, kwargs):
        I.st.check('C03/step-settings-processed-before-the-objective-is-bootstrapped', order['processed'] is True)
        return cost

    def mon_call(I, c, args, kwargs):
        from pyvc import models as Mo
        I.st.ghost.setdefault('records', []).append((Mo.snapshot(I, args[1]), args[2]))
        m = args[0]
        for f in ('_x', '_y'):
            I.st.heap[I.st.heap[m][f]].append(0.0)
        return None
    table = {(SO, 'NelderMeadSimplexSolver._process_inputs'): process_inputs, (AS, 'AbstractSolver._bootstrap_objective'): bootstrap,
             (AS, 'AbstractSolver.__save_state'): save_probe, (MONF, 'Monitor.__call__'): mon_call}
    table.update(extra_summaries or {})
    h.set_summaries(table)
    return s, cons, cost


@contract('C01/NM._Step/generation=0,N=2', ['C01', 'C03', 'C04', 'C08', 'C06'], NM + '._Step', native=False)
def nm_gen0(h):
    """the guess is constrained, evaluated exactly once and exactly there; vertex 0 is that point with that energy, the
    other vertices carry the initial +inf; one record, one callback, termination initialised"""
    if not h.is_sym():
        h.unsupported('symbolic only')
    x0 = h.clist([h.real('x0_0'), h.real('x0_1')], nd=True)
    pop = h.clist([x0, h.clist([0.0, 0.0], nd=True), h.clist([0.0, 0.0], nd=True)], nd=True)
    popE = h.clist([h.inf(), h.inf(), h.inf()], nd=True)
    # the constraints function may return an INTEGER-typed vector (e.g. constraints.integers(); deterministic, idempotent)
    cons_ret = h.choice('constraints_return', ['same_nd', 'same_nd_int'])
    s, cons, cost = _common(h, 0, pop, popE, cons_ret=cons_ret)
    g0 = h.snapshot(x0)
    h.call(h.getattr(s, '_Step'))
    c = h.call(h.fn('CONS', ret=cons_ret), g0)
    fc = h.call(h.fn('OBJECTIVE', ret='real'), c)
    evals, recs, cbs, terms = h.log('evals'), h.log('records'), h.log('callback'), h.log('termination')
    e = dict(s=s, c=c, fc=fc, evals=evals, recs=recs, cbs=cbs, terms=terms)
    h.check('C03/objective-evaluated-once-at-the-constrained-guess', 'len(evals) == 1 and seq_eq(evals[0][0], c)', **e)
    h.check('C01/vertex-0-is-the-evaluated-point-with-its-energy-others-inf',
            'seq_eq(s.population[0], c) and s.popEnergy[0] == fc and isinf(s.popEnergy[1]) and isinf(s.popEnergy[2]) '
            'and seq_eq(s.bestSolution, c) and s.bestEnergy == fc', **e)
    h.check('C04/one-step-monitor-record-of-the-best', 'len(recs) == 1 and seq_eq(recs[0][0], c) and recs[0][1] == fc', **e)
    h.check('C04/callback-once-with-the-best', 'len(cbs) == 1 and seq_eq(cbs[0][0], c)', **e)
    h.check('C05/termination-condition-initialised', 'len(terms) == 1', **e)
    check_dump_after_record(h)
    # representation invariant the later generations rely on (their contracts take population / popEnergy as arrays of
    # reals): whatever the constraints return, the simplex must be able to hold any real trial point unchanged
    h.check('C01/simplex-and-energies-are-float-arrays-whatever-the-constraints-return',
            's.population.dtype == float and s.popEnergy.dtype == float', **e)


@contract('C08/NM._Step/generation=1,N=2', ['C08', 'C01', 'C04', 'C06'], NM + '._Step', native=False)
def nm_gen1(h):
    """the initial simplex: vertex k+1 is vertex 0 with coordinate k replaced by val[k], each evaluated once in that order;
    afterwards the vertices are sorted by energy (vertex 0 the best, passed through the constraints), one record,
    one callback.  Identity constraints (reference algorithm)."""
    if not h.is_sym():
        h.unsupported('symbolic only')
    s0 = [h.real('s0_0'), h.real('s0_1')]
    f0 = h.real('f0')
    val = [h.real('val_0'), h.real('val_1')]
    pop = h.clist([h.clist(list(s0), nd=True), h.clist([0.0, 0.0], nd=True), h.clist([0.0, 0.0], nd=True)], nd=True)
    popE = h.clist([f0, h.inf(), h.inf()], nd=True)
    valv = h.clist(list(val), nd=True)
    s, cons, cost = _common(h, 1, pop, popE, {(SO, 'NelderMeadSimplexSolver._setSimplexWithinRangeBoundary'): lambda I, c, a, k: valv})
    ident = h.fn('IDENT', sym=lambda H, I, args, kwargs: args[0])
    h.set_field(s, '_constraints', ident)
    h.call(h.getattr(s, '_Step'))
    Fp = h.fn('OBJECTIVE', ret='real')
    V = lambda items: h.clist(list(items), nd=True)      # noqa: E731
    ys = [[val[0], s0[1]], [s0[0], val[1]]]
    fs = [f0] + [h.call(Fp, V(y)) for y in ys]
    verts = [s0] + ys
    evals, recs, cbs = h.log('evals'), h.log('records'), h.log('callback')
    h.check('C08/each-new-vertex-evaluated-once-in-order', 'len(evals) == 2 and seq_eq(evals[0][0], y0) and seq_eq(evals[1][0], y1)',
            evals=evals, y0=V(ys[0]), y1=V(ys[1]))
    pop1, popE1 = h.field(s, 'population'), h.field(s, 'popEnergy')
    P = [[h.ev('p[j][k]', p=pop1, j=j, k=k) for k in range(N)] for j in range(N + 1)]
    E = [h.ev('e[j]', e=popE1, j=j) for j in range(N + 1)]
    perms = []
    for perm in itertools.permutations(range(N + 1)):
        conj = []
        for j, pj in enumerate(perm):
            conj.append(h.ev('a0 == b0 and a1 == b1 and e == g', a0=P[j][0], a1=P[j][1], b0=verts[pj][0], b1=verts[pj][1], e=E[j], g=fs[pj]))
        perms.append(h.ev('c0 and c1 and c2', c0=conj[0], c1=conj[1], c2=conj[2]))
    h.check('C08/simplex-is-the-start-point-and-its-two-offset-points-sorted-by-energy', 'p0 or p1 or p2 or p3 or p4 or p5',
            **{'p%d' % i: p for i, p in enumerate(perms)})
    h.check('C08/energies-ascending', 'e0 <= e1 and e1 <= e2', e0=E[0], e1=E[1], e2=E[2])
    h.check('C04/best-energy-non-increasing', 'e0 <= f0', e0=E[0], f0=f0)
    h.check('C04/one-step-monitor-record-of-the-best', 'len(recs) == 1 and seq_eq(recs[0][0], p0) and recs[0][1] == e0',
            recs=recs, p0=h.ev('p[0]', p=pop1), e0=E[0])
    h.check('C04/callback-once-with-the-best', 'len(cbs) == 1 and seq_eq(cbs[0][0], p0)', cbs=cbs, p0=h.ev('p[0]', p=pop1))
    check_dump_after_record(h)
