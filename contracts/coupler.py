"""C17 (couplers and penalty combinators of mystic/coupler.py)."""
from pyvc.contract import contract

C = 'mystic/coupler.py::'
P = 'mystic/penalty.py::'


@contract('C17/inner', ['C17', 'C13'], C + 'inner.dec.func')
def inner(h):
    c = h.fn('c', ret='same', log='c_calls')
    f = h.fn('f', ret='real', log='f_calls')
    func = h.call(h.call(h.get(C + 'inner'), c), f)
    x = h.list_real('x')
    r = h.call(func, x)
    h.check('f-called-once-at-c(x)', 'len(fc) == 1 and len(cc) == 1 and seq_eq(cc[0][0], x)', fc=h.log('f_calls'), cc=h.log('c_calls'), x=x)
    if h.is_sym():
        cx = h.call(h.fn('c', ret='same'), x)
        h.check('inner(c)(f)(x)==f(c(x))', 'r == v and seq_eq(fc[0][0], cx)', r=r, v=h.call(h.fn('f', ret='real'), cx), fc=h.log('f_calls'), cx=cx)


@contract('C17/outer', ['C17'], C + 'outer.dec.func')
def outer(h):
    c = h.fn('c', ret='same', log='c_calls')
    f = h.fn('f', ret='same', log='f_calls')
    func = h.call(h.call(h.get(C + 'outer'), c), f)
    x = h.list_real('x')
    r = h.call(func, x)
    h.check('f-called-once-at-x', 'len(fc) == 1 and len(cc) == 1 and seq_eq(fc[0][0], x)', fc=h.log('f_calls'), cc=h.log('c_calls'), x=x)
    if h.is_sym():
        fx = h.call(h.fn('f', ret='same'), x)
        h.check('outer(c)(f)(x)==c(f(x))', 'seq_eq(r, v) and seq_eq(cc[0][0], fx)', r=r, v=h.call(h.fn('c', ret='same'), fx), cc=h.log('c_calls'), fx=fx)


@contract('C17/inner_proxy', ['C17'], C + 'inner_proxy.dec.func')
def inner_proxy(h):
    c = h.fn('c', ret='same', log='c_calls')
    f = h.fn('f', ret='real', log='f_calls')
    func = h.call(h.call(h.get(C + 'inner_proxy'), c), f)
    x = h.list_real('x')
    r = h.call(func, x)
    if h.is_sym():
        cx = h.call(h.fn('c', ret='same'), x)
        h.check('value-is-f(c(x))', 'r == v and len(fc) == 1 and seq_eq(fc[0][0], cx)', r=r, v=h.call(h.fn('f', ret='real'), cx), fc=h.log('f_calls'), cx=cx)
    else:
        h.check('one-call-each', 'len(fc) == 1 and len(cc) == 1', fc=h.log('f_calls'), cc=h.log('c_calls'))


@contract('C17/outer_proxy', ['C17'], C + 'outer_proxy.dec.func')
def outer_proxy(h):
    c = h.fn('c', ret='same', log='c_calls')
    f = h.fn('f', ret='same', log='f_calls')
    func = h.call(h.call(h.get(C + 'outer_proxy'), c), f)
    x = h.list_real('x')
    r = h.call(func, x)
    if h.is_sym():
        fx = h.call(h.fn('f', ret='same'), x)
        h.check('value-is-c(f(x))', 'seq_eq(r, v)', r=r, v=h.call(h.fn('c', ret='same'), fx))
    else:
        h.check('one-call-each', 'len(fc) == 1 and len(cc) == 1', fc=h.log('f_calls'), cc=h.log('c_calls'))


def _additive(h, name):
    p = h.fn('p', ret='real', log='p_calls')
    f = h.fn('f', ret='real', log='f_calls')
    func = h.call(h.call(h.get(C + name), p), f)
    x = h.list_real('x')
    r = h.call(func, x)
    h.check('each-called-once-at-x', 'len(fc) == 1 and len(pc) == 1 and seq_eq(fc[0][0], x) and seq_eq(pc[0][0], x)',
            fc=h.log('f_calls'), pc=h.log('p_calls'), x=x)
    if h.is_sym():
        h.check('additive(p)(f)(x)==f(x)+p(x)', 'r == a + b', r=r, a=h.call(h.fn('f', ret='real'), x), b=h.call(h.fn('p', ret='real'), x))


def _with_options(h, name):
    """the couplers' `args=` / `kwds=` options and call-time extra arguments: the configured ones go to the coupled
    function (inner / outer / penalty), the call-time ones to the decorated function -- the *_proxy variants the other
    way round, as documented -- and the identities hold with them"""
    if not h.is_sym():
        h.unsupported('symbolic only')
    kind = name.replace('_proxy', '')
    proxy = name.endswith('_proxy')
    a1, v, z, q = h.real('configured_arg'), h.real('configured_keyword'), h.real('call_arg'), h.real('call_keyword')
    cret = 'real' if kind == 'additive' else 'same'
    fret = 'same' if kind == 'outer' else 'real'
    c = h.fn('COUPLED', ret=cret, log='coupled_calls')
    f = h.fn('DECORATED', ret=fret, log='decorated_calls')
    # the configured positional arguments may be given as a tuple or as a list (one argument each way here)
    as_list = h.choice('args_given_as', ['tuple', 'list']) == 'list'
    func = h.call(h.call(h.get(C + name), c, (h.clist([a1]) if as_list else h.tup(a1)), h.dict(t=v)), f)
    x = h.vec('x', 2)
    r, exc = h.call_raises(func, x, z, u=q)
    # the configured arguments arrive as separate positional arguments (also when they were given as a list)
    got = h.log('decorated_calls' if proxy else 'coupled_calls')
    other = h.log('coupled_calls' if proxy else 'decorated_calls')
    h.check('configured-arguments-arrive-one-by-one-at-their-own-side', 'ok',
            ok=(exc is None and len(got) == 1 and len(got[0]) == 2 and got[0][1] is a1 and len(other) == 1 and len(other[0]) == 2 and other[0][1] is z))
    if exc is not None:
        return
    h.st.ghost.pop('coupled_calls', None)
    h.st.ghost.pop('decorated_calls', None)
    C_conf = lambda arg: h.call(c, arg, a1, t=v)          # noqa: E731
    C_call = lambda arg: h.call(c, arg, z, u=q)           # noqa: E731
    F_conf = lambda arg: h.call(f, arg, a1, t=v)          # noqa: E731
    F_call = lambda arg: h.call(f, arg, z, u=q)           # noqa: E731
    if kind == 'inner':
        want = F_conf(C_call(x)) if proxy else F_call(C_conf(x))
        h.check('f-of-c-of-x-with-each-sides-own-arguments', 'r == want', r=r, want=want)
    elif kind == 'outer':
        want = C_conf(F_call(x)) if not proxy else C_call(F_conf(x))
        h.check('c-of-f-of-x-with-each-sides-own-arguments', 'seq_eq(r, want)', r=r, want=want)
    else:
        want_f, want_p = (F_conf(x), C_call(x)) if proxy else (F_call(x), C_conf(x))
        h.check('f-plus-p-with-each-sides-own-arguments', 'r == a + b', r=r, a=want_f, b=want_p)


for _n in ('inner', 'outer', 'additive', 'inner_proxy', 'outer_proxy', 'additive_proxy'):
    contract('C17/%s/with-options' % _n, ['C17'], C + _n + '.dec.func', native=False)(lambda h, n=_n: _with_options(h, n))
contract('C17/additive', ['C17', 'C15'], C + 'additive.dec.func')(lambda h: _additive(h, 'additive'))
contract('C17/additive_proxy', ['C17'], C + 'additive_proxy.dec.func')(lambda h: _additive(h, 'additive_proxy'))


def _members(h, n):
    ps = [h.fn('p%d' % i, ret='real') for i in range(n)]
    return ps


def _combine(h, which, n):
    """and_/or_ with the default linear_equality ptype (k = 1) and with quadratic_equality: zero exactly where
    all / any member penalties are zero (member penalties are non-negative)"""
    pt = h.choice('ptype', [None, 'quadratic_equality', 'linear_equality'])
    ps = _members(h, n)
    kw = {}
    if pt is not None:
        kw['ptype'] = h.get(P + pt)
        k = h.real('k')
        h.assume('k > 0', k=k)
        kw['k'] = k
    pf = h.call(h.get(C + which), *ps, **kw)
    x = h.list_real('x')
    vals = [h.call(p, x) for p in ps]
    for v in vals:
        h.assume('v >= 0', v=v)
    r = h.call(pf, x)
    allz = ' and '.join('v%d == 0' % i for i in range(n))
    anyz = ' or '.join('v%d == 0' % i for i in range(n))
    env = {'v%d' % i: v for i, v in enumerate(vals)}
    env['r'] = r
    cond = allz if which == 'and_' else anyz
    h.cover('zero', cond, **env)
    h.cover('nonzero', 'not (%s)' % cond, **env)
    h.check('zero-iff-%s-members-zero' % ('all' if which == 'and_' else 'any'), 'iff(r == 0, %s)' % cond, **env)
    h.check('non-negative', 'r >= 0', **env)


for _w in ('and_', 'or_'):
    for _n in (1, 2, 3):
        contract('C17/penalty.%s/n=%d' % (_w, _n), ['C17'], C + _w)(lambda h, w=_w, n=_n: _combine(h, w, n))


def _not(h, member):
    k, hh = h.real('k'), h.real('h')
    h.assume('k > 0 and h > 0', k=k, h=hh)
    cond = h.fn('condition', ret='real')
    pen = h.call(h.call(h.get(P + member), cond, k=k, h=hh), h.fn('zero', ret='real'))
    pf = h.call(h.get(C + 'not_'), pen)
    x = h.list_real('x')
    c = h.call(cond, x)
    r = h.call(pf, x)
    if member.endswith('_inequality'):
        h.check('penalises-exactly-the-interior', 'iff(r > 0, c < 0) and r >= 0', r=r, c=c)
    else:
        h.check('penalises-exactly-the-accepted-set', 'iff(r > 0, c == 0) and r >= 0', r=r, c=c)


for _m in ('quadratic_inequality', 'linear_inequality', 'quadratic_equality', 'linear_equality'):
    contract('C17/penalty.not_/%s' % _m, ['C17'], C + 'not_')(lambda h, m=_m: _not(h, m))


@contract('C17/penalty.not_/raw-condition', ['C17'], C + 'not_')
def not_raw(h):
    cond = h.fn('condition', ret='real')
    pf = h.call(h.get(C + 'not_'), cond)
    x = h.list_real('x')
    c = h.call(cond, x)
    r = h.call(pf, x)
    h.check('raw-condition-penalised-where-zero', 'iff(r > 0, c == 0) and r >= 0', r=r, c=c)


def _not_explicit(h, ptype, member_is_penalty):
    """not_(member, ptype=<type>): the kind of inversion follows the *resolved* ptype, also for a raw condition"""
    k = h.real('k')
    h.assume('k > 0', k=k)
    cond = h.fn('condition', ret='real')
    if member_is_penalty:
        member = h.call(h.call(h.get(P + ptype), cond, k=k), h.fn('zero', ret='real'))
    else:
        member = cond
    pf = h.call(h.get(C + 'not_'), member, ptype=h.get(P + ptype), k=k)
    x = h.list_real('x')
    c = h.call(cond, x)
    r = h.call(pf, x)
    if ptype.endswith('_inequality'):
        # the member accepts c <= 0; its interior c < 0 is what not_ penalises
        h.check('penalises-exactly-the-interior', 'iff(r > 0, c < 0) and r >= 0', r=r, c=c)
    else:
        h.check('penalises-exactly-the-accepted-set', 'iff(r > 0, c == 0) and r >= 0', r=r, c=c)


for _pt in ('quadratic_inequality', 'linear_inequality', 'quadratic_equality', 'linear_equality'):
    for _pen in (False, True):
        contract('C17/penalty.not_/explicit-ptype=%s,%s' % (_pt, 'penalty' if _pen else 'raw-condition'), ['C17'], C + 'not_')(
            lambda h, p=_pt, m=_pen: _not_explicit(h, p, m))
