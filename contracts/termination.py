"""C10: contracts of the termination primitives and of When/And/Or (mystic/termination.py).

Spec vocabulary (Appendix A.1): H = energy history, L = len(H), G = 0 if generations is None else
int(generations), Hg = H[-G] with python index semantics (H[-0] is H[0]).
Postconditions are written from the documented inequality, not from the code.
"""
from pyvc.contract import contract

T = 'mystic/termination.py::'


def _inst(h, **fields):
    return h.obj(None, **fields)


def _gens(h):
    """generation window kinds: None, int (>= 0)"""
    kind = h.choice('generations_kind', ['None', 'int'])
    if kind == 'None':
        return None
    g = h.int('generations')
    h.assume('g >= 0', g=g)
    return g


HG = 'H[L - G] if G > 0 else H[0]'
# a tie counts as zero change (this is what makes plateaus of inf decidable: inf - inf is nan in IEEE)
TIE = '((%s) == H[L-1])' % HG


def _history_case(h, factory, kwargs, spec, needs_window=True):
    info = h.choice('info', [False, True])
    f = h.call(h.get(T + factory), **kwargs)
    H = h.list_real('H', inf=True)
    inst = _inst(h, energy_history=H)
    L = h.len(H)
    gens = kwargs.get('generations', 0)
    G = 0 if gens is None else gens
    r = h.call(f, inst, info)
    env = dict(kwargs)
    env.update(H=H, L=L, G=G, r=r, doc=h.getattr(f, '__doc__'))
    h.check('truthy-iff-spec', 'iff(truthy(r), L > 0 and (%s))' % spec, **env)
    if info:
        h.check('info-is-doc-or-empty', '(r is doc) if truthy(r) else (r == "")', **env)
    else:
        h.check('result-is-bool', 'r is True or r is False', **env)
    h.cover('satisfied', 'truthy(r)', **env)
    h.cover('unsatisfied', 'not truthy(r)', **env)


@contract('C10/VTR', ['C10'], T + 'VTR._VTR')
def vtr(h):
    tol, target = h.real('tolerance'), h.real('target')
    h.assume('tolerance >= 0', tolerance=tol)
    _history_case(h, 'VTR', dict(tolerance=tol, target=target), 'abs(H[L-1] - target) <= tolerance')


@contract('C10/ChangeOverGeneration', ['C10'], T + 'ChangeOverGeneration._ChangeOverGeneration')
def cog(h):
    tol = h.real('tolerance')
    h.assume('tolerance >= 0', tolerance=tol)
    g = _gens(h)
    _history_case(h, 'ChangeOverGeneration', dict(tolerance=tol, generations=g),
                  'L > G and ((%s) - H[L-1] <= tolerance or %s)' % (HG, TIE))


@contract('C10/NormalizedChangeOverGeneration', ['C10'],
          T + 'NormalizedChangeOverGeneration._NormalizedChangeOverGeneration')
def ncog(h):
    tol = h.real('tolerance')
    h.assume('tolerance >= 0', tolerance=tol)
    g = _gens(h)
    # documented: (cost[-g]-cost[-1]) / (0.5*(|cost[-g]|+|cost[-1]|)) <= tol, with the eta=1e-20 guard of the
    # implementation's docstring-equivalent form 2*(a-b) <= tol*(|a|+|b|) + 1e-20
    _history_case(h, 'NormalizedChangeOverGeneration', dict(tolerance=tol, generations=g),
                  'L > G and (%s or 2.0*((%s) - H[L-1]) <= tolerance*(abs(%s) + abs(H[L-1])) + 1e-20)' % (TIE, HG, HG))


@contract('C10/NormalizedCostTarget', ['C10'], T + 'NormalizedCostTarget._NormalizedCostTarget')
def nct(h):
    tol = h.real('tolerance')
    h.assume('tolerance >= 0', tolerance=tol)
    g = _gens(h)
    fk = h.choice('fval_kind', ['None', 'real'])
    fval = None if fk == 'None' else h.real('fval')
    if fval is None:
        spec = '(L > G and ((%s) - H[L-1] <= 0 or %s)) if G != 0 else True' % (HG, TIE)
    else:
        spec = 'abs(H[L-1] - fval) <= abs(tolerance * fval)'
    _history_case(h, 'NormalizedCostTarget', dict(fval=fval, tolerance=tol, generations=g), spec)


@contract('C10/VTRChangeOverGeneration', ['C10'], T + 'VTRChangeOverGeneration._VTRChangeOverGeneration')
def vtrcog(h):
    ftol, gtol, target = h.real('ftol'), h.real('gtol'), h.real('target')
    h.assume('ftol >= 0 and gtol >= 0', ftol=ftol, gtol=gtol)
    g = _gens(h)
    _history_case(h, 'VTRChangeOverGeneration', dict(ftol=ftol, gtol=gtol, generations=g, target=target),
                  '(L > G and ((%s) - H[L-1] <= gtol or %s)) or abs(H[L-1] - target) <= ftol' % (HG, TIE))


# ---------------------------------------------------------------------------- counters / flags
@contract('C10/EvaluationLimits', ['C10', 'C05'], T + 'EvaluationLimits._EvaluationLimits')
def evaluation_limits(h):
    gk = h.choice('generations_kind', ['None', 'int'])
    ek = h.choice('evaluations_kind', ['None', 'int'])
    g = None if gk == 'None' else h.int('generations')
    e = None if ek == 'None' else h.int('evaluations')
    info = h.choice('info', [False, True])
    f = h.call(h.get(T + 'EvaluationLimits'), generations=g, evaluations=e)
    gens, fcalls = h.int('solver_generations'), h.int('solver_fcalls')
    # (inf is modelled as a real constant >= 2**1024: counters are below it)
    h.assume('gens >= 0 and fcalls >= 0 and gens < inf and fcalls < inf', gens=gens, fcalls=fcalls)
    inst = _inst(h, generations=gens, _fcalls=h.clist([fcalls]))
    r = h.call(f, inst, info)
    spec = ' or '.join(x for x in ['fcalls >= e' if e is not None else '', 'gens >= g' if g is not None else ''] if x) or 'False'
    env = dict(r=r, gens=gens, fcalls=fcalls, g=g, e=e, doc=h.getattr(f, '__doc__'))
    h.check('truthy-iff-a-limit-is-reached', 'iff(truthy(r), %s)' % spec, **env)
    if info:
        h.check('info-is-doc-or-empty', '(r is doc) if truthy(r) else (r == "")', **env)
    else:
        h.check('result-is-bool', 'r is True or r is False', **env)
    if g is not None or e is not None:
        h.cover('satisfied', 'truthy(r)', **env)
    h.cover('unsatisfied', 'not truthy(r)', **env)


@contract('C10/SolverInterrupt', ['C10', 'C05'], T + 'SolverInterrupt._SolverInterrupt')
def solver_interrupt(h):
    info = h.choice('info', [False, True])
    f = h.call(h.get(T + 'SolverInterrupt'))
    flag = h.bool('EARLYEXIT')
    r = h.call(f, _inst(h, _EARLYEXIT=flag), info)
    env = dict(r=r, flag=flag, doc=h.getattr(f, '__doc__'))
    h.check('truthy-iff-exit-requested', 'iff(truthy(r), flag)', **env)
    if info:
        h.check('info-is-doc-or-empty', '(r is doc) if truthy(r) else (r == "")', **env)
    else:
        h.check('result-is-bool', 'r is True or r is False', **env)
    h.cover('satisfied', 'truthy(r)', **env)
    h.cover('unsatisfied', 'not truthy(r)', **env)


# ---------------------------------------------------------------------------- population based (fixed small shapes:
# the bodies are numpy pipelines over a 2-d array; every instance below is for all values at that shape)
def _matrix(h, name, nr, nc):
    rows = [[h.real('%s_%d_%d' % (name, j, k)) for k in range(nc)] for j in range(nr)]
    return rows, h.clist([h.clist(list(r)) for r in rows])


def _pop_case(h, f, inst, spec_terms, env):
    info = env['info']
    r = h.call(f, inst, info)
    env = dict(env, r=r, doc=h.getattr(f, '__doc__'))
    h.check('truthy-iff-spec', 'iff(truthy(r), %s)' % (' and '.join(spec_terms) or 'True'), **env)
    if info:
        h.check('info-is-doc-or-empty', '(r is doc) if truthy(r) else (r == "")', **env)
    else:
        h.check('result-is-bool', 'r is True or r is False', **env)
    h.cover('satisfied', 'truthy(r)', **env)
    h.cover('unsatisfied', 'not truthy(r)', **env)


def _population_spread(h, NP, D):
    tol = h.real('tolerance')
    h.assume('tolerance >= 0', tolerance=tol)
    info = h.choice('info', [False, True])
    f = h.call(h.get(T + 'PopulationSpread'), tolerance=tol)
    rows, pop = _matrix(h, 'p', NP, D)
    env = dict(info=info, tolerance=tol)
    terms = []
    for j in range(NP):
        for k in range(D):
            env['p%d%d' % (j, k)] = rows[j][k]
            terms.append('abs(p%d%d - p0%d) <= abs(tolerance * p0%d)' % (j, k, k, k))
    _pop_case(h, f, _inst(h, population=pop), terms, env)


def _candidate_relative_tolerance(h, NP, D):
    xtol, ftol = h.real('xtol'), h.real('ftol')
    h.assume('xtol >= 0 and ftol >= 0', xtol=xtol, ftol=ftol)
    info = h.choice('info', [False, True])
    f = h.call(h.get(T + 'CandidateRelativeTolerance'), xtol=xtol, ftol=ftol)
    rows, pop = _matrix(h, 'p', NP, D)
    es = [h.real('e%d' % j) for j in range(NP)]
    env = dict(info=info, xtol=xtol, ftol=ftol)
    terms = []
    for j in range(NP):
        env['e%d' % j] = es[j]
        for k in range(D):
            env['p%d%d' % (j, k)] = rows[j][k]
            if j:
                terms.append('abs(p%d%d - p0%d) <= xtol' % (j, k, k))
        if j:
            terms.append('abs(e0 - e%d) <= ftol' % j)
    _pop_case(h, f, _inst(h, population=pop, popEnergy=h.clist(list(es))), terms, env)


def _solution_improvement(h, D, NP):
    tol = h.real('tolerance')
    h.assume('tolerance >= 0', tolerance=tol)
    info = h.choice('info', [False, True])
    f = h.call(h.get(T + 'SolutionImprovement'), tolerance=tol)
    best = [h.real('b%d' % k) for k in range(D)]
    env = dict(info=info, tolerance=tol, **{'b%d' % k: best[k] for k in range(D)})
    if NP is None:
        trial = [h.real('t%d' % k) for k in range(D)]
        env.update({'t%d' % k: trial[k] for k in range(D)})
        terms = [' + '.join('abs(b%d - t%d)' % (k, k) for k in range(D)) + ' <= tolerance']
        tv = h.clist(list(trial))
    else:
        rows, tv = _matrix(h, 't', NP, D)
        sums = []
        for j in range(NP):
            for k in range(D):
                env['t%d%d' % (j, k)] = rows[j][k]
            sums.append('(' + ' + '.join('abs(b%d - t%d%d)' % (k, j, k) for k in range(D)) + ')')
        # for a trial population the documented reading is the maximum over its rows
        terms = ['%s <= tolerance' % s for s in sums]
    _pop_case(h, f, _inst(h, bestSolution=h.clist(list(best)), trialSolution=tv), terms, env)


for _np, _d in [(2, 1), (2, 2), (3, 2)]:
    contract('C10/PopulationSpread/nPop=%d,nDim=%d' % (_np, _d), ['C10'], T + 'PopulationSpread._PopulationSpread')(
        lambda h, a=_np, b=_d: _population_spread(h, a, b))
    contract('C10/CandidateRelativeTolerance/nPop=%d,nDim=%d' % (_np, _d), ['C10', 'C08'],
             T + 'CandidateRelativeTolerance._CandidateRelativeTolerance')(
        lambda h, a=_np, b=_d: _candidate_relative_tolerance(h, a, b))
for _d, _np in [(1, None), (3, None), (2, 2)]:
    contract('C10/SolutionImprovement/nDim=%d,trial=%s' % (_d, 'vector' if _np is None else 'population(%d)' % _np), ['C10'],
             T + 'SolutionImprovement._SolutionImprovement')(lambda h, a=_d, b=_np: _solution_improvement(h, a, b))


# ---------------------------------------------------------------------------- compound conditions
# Members are abstract callables obeying the member contract  truthy(m(solver, info)) <=> sat_m  for every
# value of info, with m(solver, True) a message string (non-empty iff sat_m).  A compound proved to obey the same
# contract is itself a legal member, so the all/any reading holds to any nesting depth by induction.
def _member(h, i):
    sat = h.bool('sat_%d' % i)
    if h.is_sym():
        from pyvc.values import SStr

        def sym(H, I, args, kwargs):
            info = args[1] if len(args) > 1 else kwargs.get('info', False)
            t = I.truth(sat)
            if info is True or (info and info not in ('self', 'not')):
                # the member's message: an opaque token (a compound's own message is a "; "-join of such tokens)
                return SStr('message-%d' % i, nonempty=True, parts=('atoms', '; ', ['message-%d' % i])) if t else ''
            return t
        m = h.fn('member_%d' % i, sym=sym, attrs={'__module__': 'mystic.termination'})
    else:
        def native(H, solver, info=False):
            if info is True:
                return ('message-%d' % i) if sat else ''
            return bool(sat)
        m = h.fn('member_%d' % i, native=native)
        m.__module__ = 'mystic.termination'
    return m, sat


def _compound(h, kind, n, info):
    ms = [_member(h, i) for i in range(n)]
    c = h.tuple_obj(T + kind, [m for m, _ in ms])
    solver = _inst(h)
    r = h.call(c, solver, info)
    sats = {'s%d' % i: s for i, (_, s) in enumerate(ms)}
    if kind == 'Or':
        spec = ' or '.join(sorted(sats))
    else:
        spec = ' and '.join(sorted(sats))
    if info in (False, True):
        h.check('%s-truthy-iff-%s-members-are' % (kind, 'any' if kind == 'Or' else 'all'), 'iff(truthy(r), %s)' % spec, r=r, **sats)
    if info is False:
        h.check('result-is-bool', 'r is True or r is False', r=r)
    if info is True:
        # the message is the "; "-join of exactly the satisfied members' messages (And/When: all of them, or "")
        if h.is_sym():
            from pyvc.models import _atoms
            named = set(_atoms(r)[1]) if _atoms(r) else (set() if r == '' else None)
        else:
            named = set(p for p in r.split('; ') if p)
        if named is None:
            h.unsupported('message is not a join of member messages')
        for i, (m, s) in enumerate(ms):
            want = 's' if kind == 'Or' else '(%s)' % spec
            h.check('info-names-only-and-all-satisfied-members', 'iff(named, %s)' % want, named=('message-%d' % i) in named, s=s, **sats)
        h.check('info-has-no-foreign-parts', 'n <= k', n=len(named), k=n)
    if info == 'self':
        # the returned members are exactly the satisfied ones (And/When: all of them, or none)
        for i, (m, s) in enumerate(ms):
            want = 's' if kind == 'Or' else '(%s)' % spec
            h.check('info-self-names-only-and-all-satisfied-members', 'iff(m in r, %s)' % want, m=m, r=r, s=s, **sats)
        h.check('info-self-has-no-foreign-entries', 'len(r) <= n', r=r, n=n)
    if info == 'not':
        for i, (m, s) in enumerate(ms):
            want = 'not s' if kind == 'Or' else 'not (%s)' % spec
            h.check('info-not-is-the-complement', 'iff(m in r, %s)' % want, m=m, r=r, s=s, **sats)
    h.cover('satisfied', 'truthy(r)', r=r)
    h.cover('unsatisfied', 'not truthy(r)', r=r)


for _kind, _ns in [('And', (1, 2, 3)), ('Or', (1, 2, 3)), ('When', (1,))]:
    for _n in _ns:
        for _info in (False, True, 'self', 'not'):
            contract('C10/%s/n=%d,info=%s' % (_kind, _n, _info), ['C10'], T + ('Or.__call__' if _kind == 'Or' else 'When.__call__'))(
                lambda h, k=_kind, n=_n, i=_info: _compound(h, k, n, i))


@contract('C10/TimeLimits', ['C10'], T + 'TimeLimits', native=False)
def time_limits(h):
    """TimeLimits(seconds, system): satisfied exactly when (reading of ITS clock now) - (reading at creation, or at the last
    reset()) >= seconds -- for every behaviour of a monotone clock; reset() restarts the count; info gives the doc or ''"""
    if not h.is_sym():
        h.unsupported('symbolic only (abstract clock)')
    system = h.choice('system', [None, True, False])
    clock = {None: 'time.time', True: 'time.perf_counter', False: 'time.process_time'}[system]
    secs = h.real('seconds')
    resets = h.choice('resets_before_evaluation', [0, 1, 2])
    info = h.choice('info', [False, True])
    c = h.call(h.get(T + 'TimeLimits'), secs, system)
    for _ in range(resets):
        h.call(h.getattr(c, 'reset'))
    r = h.call(c, _inst(h), info)
    readings = list(h.st.ghost.get('clock:' + clock, []))
    h.check('one-clock-reading-per-creation-reset-and-evaluation-all-from-the-chosen-clock', 'ok',
            ok=(len(readings) == resets + 2 and all(not h.st.ghost.get('clock:' + o) for o in ('time.time', 'time.perf_counter', 'time.process_time') if o != clock)))
    if len(readings) != resets + 2:
        return
    start, now = readings[-2], readings[-1]
    want = 'now - start >= (secs if secs >= 0 else -secs)'
    h.check('satisfied-iff-elapsed-since-creation-or-last-reset-reaches-the-limit', 'iff(truthy(r), %s)' % want, r=r, now=now, start=start, secs=secs)
    if info:
        h.check('info-is-doc-or-empty', '(r == "") == (not (%s))' % want if False else 'iff(r == "", not (%s))' % want, r=r, now=now, start=start, secs=secs)
    else:
        h.check('result-is-bool', 'r is True or r is False', r=r)


@contract('C10/GradientNormTolerance', ['C10', 'C07'], T + 'GradientNormTolerance', native=False)
def gradient_norm(h):
    """satisfied exactly when the p-norm of the gradient AT THE SOLVER IT IS ASKED ABOUT is <= tolerance -- the solver's own
    last recorded gradient, or (none recorded) the finite-difference gradient of its own cost at its own best solution.
    The condition keeps no state: asked about solver A and then about solver B (same history length, as for the members
    of an ensemble stepping in lockstep, which share the condition object) it judges B by B's gradient.
    The norm (mystic.math.distance.Lnorm) and the finite-difference estimate are abstract functions here."""
    if not h.is_sym():
        h.unsupported('symbolic only')
    tol = h.real('tolerance')
    p = h.choice('norm', ['inf', 1, 2])
    pv = h.inf() if p == 'inf' else p
    NORM = h.fn('LNORM', ret='real')
    FD = h.fn('FINITE_DIFFERENCE_GRADIENT', ret='same')
    h.set_summaries({('mystic/math/distance.py', 'Lnorm'): lambda I, c, a, k: I.call(NORM, [a[0]], {}),
                     ('mystic/_scipy060optimize.py', 'approx_fprime'): lambda I, c, a, k: I.call(FD, [a[0]], {})})
    cond = h.call(h.get(T + 'GradientNormTolerance'), tol, pv)
    info = h.choice('info', [False, True])
    solvers = []
    for tag in ('A', 'B'):
        recorded = h.choice('solver_%s_records_gradients' % tag, [False, True])
        best = h.vec('best_' + tag, 2)
        fields = dict(bestSolution=best, _cost=h.tup(None, h.fn('COST_' + tag, ret='real'), None), energy_history=h.clist([3.0, 2.0]))
        if recorded:
            fields['gradient'] = h.clist([h.vec('old_gradient_' + tag, 2), h.vec('gradient_' + tag, 2)])
        solvers.append((h.obj(None, **fields), recorded, best))
    for tag, (s, recorded, best) in zip('AB', solvers):
        r = h.call(cond, s, info)
        g = h.ev('s.gradient[1]', s=s) if recorded else h.call(FD, best)
        n = h.call(NORM, g)
        h.check('solver-%s-judged-by-its-own-gradient' % tag, 'iff(truthy(r), n <= tol)', r=r, n=n, tol=tol)
        if info:
            h.check('info-is-doc-or-empty-for-%s' % tag, 'iff(r == "", not (n <= tol))', r=r, n=n, tol=tol)


def _members_of(h, c):
    if h.is_sym():
        return list(h.st.heap[c]['__items__'])
    return list(c)


@contract('C10/compound-construction', ['C10'], T + 'And.__new__')
def compound_construction(h):
    """And(...) / Or(...) / When(.) built the public way (`__new__` executed): the members are exactly the conditions
    given, in order -- a SINGLE member that is itself a compound (of the same or the other kind) stays ONE member, a
    single tuple of conditions (the pickling form) is unpacked, and rebuilding `type(c)(*c)` gives an equal compound"""
    kind = h.choice('kind', ['And', 'Or', 'When'])
    form = h.choice('built_from', ['one-primitive', 'two-primitives', 'one-compound-of-the-other-kind', 'one-compound-of-the-same-kind',
                                   'one-tuple-of-two', 'compound-and-primitive'])
    if kind == 'When' and form in ('two-primitives', 'compound-and-primitive'):
        return
    a, b, c_ = [_member(h, i)[0] for i in range(3)]
    K = h.get(T + kind)
    other = h.get(T + ('Or' if kind != 'Or' else 'And'))
    same = h.get(T + (kind if kind != 'When' else 'And'))
    if form == 'one-primitive':
        args, want = [a], [a]
    elif form == 'two-primitives':
        args, want = [a, b], [a, b]
    elif form == 'one-compound-of-the-other-kind':
        inner = h.call(other, a, b)
        args, want = [inner], [inner]
    elif form == 'one-compound-of-the-same-kind':
        inner = h.call(same, a, b)
        args, want = [inner], [inner]
    elif form == 'one-tuple-of-two':
        if kind == 'When':
            args, want = [h.tup(a)], [a]
        else:
            args, want = [h.tup(a, b)], [a, b]
    else:
        inner = h.call(other, a, b)
        args, want = [inner, c_], [inner, c_]
    c = h.call(K, *args)
    got = _members_of(h, c)
    h.check('members-are-exactly-the-conditions-given-in-order', 'ok', ok=(len(got) == len(want) and all(g is w for g, w in zip(got, want))))
    again = h.call(K, *got)
    got2 = _members_of(h, again)
    h.check('rebuilding-from-its-members-gives-the-same-members', 'ok', ok=(len(got2) == len(want) and all(g is w for g, w in zip(got2, want))))


COLLAPSE_CONDS = {
    'CollapseAt': ('collapse_at', dict(target=1.5, tolerance=0.25, generations=4, mask=None), 'generations'),
    'CollapseAs': ('collapse_as', dict(offset=True, tolerance=0.25, generations=4, mask=None), 'generations'),
    'CollapseWeight': ('collapse_weight', dict(tolerance=0.25, generations=4, mask=None), 'generations'),
    'CollapsePosition': ('collapse_position', dict(tolerance=0.25, generations=4, mask=None), 'generations'),
    'CollapseCost': ('collapse_cost', dict(clip=True, limit=2.0, samples=4, mask=None), 'samples'),
}


def _collapse_condition(h, name):
    """the collapse termination conditions: satisfied exactly when the energy history is LONGER than the look-back window
    and the detector -- called once, on the solver's step monitor, with exactly the condition's own settings -- reports
    something; the message then names the condition and what collapsed (that text is what Collapsed() parses back)"""
    if not h.is_sym():
        h.unsupported('symbolic only')
    det, kw, win = COLLAPSE_CONDS[name]
    info = h.choice('info', [False, True])
    found = h.choice('detector_reports', ['something', 'nothing'])
    masked = h.choice('mask_given', [False, True])
    kw = dict(kw)
    mask = h.st.alloc('set', [1]) if masked else None
    kw['mask'] = mask
    report = h.st.alloc('set', [0, 2] if found == 'something' else [])
    calls = []

    def detector(I, c, args, kwargs):
        calls.append((list(args), dict(kwargs)))
        return report
    h.set_summaries({('mystic/collapse.py', det): detector})
    cond = h.call(h.get(T + name), **kw)
    H = h.list_real('energy_history', inf=True)
    mon = h.obj(None, tag='STEP-MONITOR')
    inst = _inst(h, energy_history=H, _stepmon=mon)
    r = h.call(cond, inst, info)
    L = h.len(H)
    long_enough = h.ev('L > W', L=L, W=kw[win])
    want = 'long_enough' if found == 'something' else 'False'
    h.check('satisfied-iff-history-longer-than-the-window-and-the-detector-reports', 'iff(truthy(r), %s)' % want, r=r, long_enough=long_enough)
    if info is False:
        h.check('result-is-bool', 'r is True or r is False', r=r)
    ok = len(calls) <= 1
    if calls:
        a, k = calls[0]
        given = dict(k)
        ok = ok and len(a) == 1 and a[0] is mon and sorted(given) == sorted(kw) and all(given[q] is kw[q] or given[q] == kw[q] for q in kw)
    h.check('detector-called-at-most-once-on-the-step-monitor-with-the-conditions-own-settings', 'ok', ok=ok)
    h.check('detector-consulted-exactly-when-the-history-is-long-enough', 'iff(n == 1, long_enough)', n=len(calls), long_enough=long_enough)
    doc = h.getattr(cond, '__doc__')
    lit = doc if isinstance(doc, str) else (doc.parts[0] if getattr(doc, 'parts', None) and isinstance(doc.parts[0], str) else '')
    h.check('description-names-the-condition', 'ok', ok=lit.startswith(name + ' with '))


for _c in COLLAPSE_CONDS:
    contract('C11/termination.%s' % _c, ['C11', 'C10'], T + _c, native=False)(lambda h, c=_c: _collapse_condition(h, c))


STATE_CASES = [
    ('VTR', dict(tolerance=0.01, target=1.0)),
    ('ChangeOverGeneration', dict(tolerance=1e-06, generations=5)),
    ('NormalizedChangeOverGeneration', dict(tolerance=0.0001, generations=10)),
    ('CandidateRelativeTolerance', dict(xtol=0.001, ftol=0.01)),
    ('SolutionImprovement', dict(tolerance=1e-05)),
    ('NormalizedCostTarget', dict(fval=None, tolerance=1e-06, generations=30)),
    ('VTRChangeOverGeneration', dict(ftol=0.005, gtol=1e-06, generations=30, target=0.0)),
    ('PopulationSpread', dict(tolerance=0.0001)),
    ('EvaluationLimits', dict(generations=7, evaluations=None)),
    ('CollapseAt', dict(target=None, tolerance=0.0001, generations=50, mask={1, 2})),
    ('CollapseAs', dict(offset=False, tolerance=0.0001, generations=50, mask=None)),
]


@contract('C10/state-type-round-trip', ['C10', 'C11'], T + 'state', native=False)
def state_round_trip(h):
    """state(c) of a condition made by a factory is {description of c: exactly the settings it was made with} (compound:
    the union over the members, to any depth), type(c) is the factory, and the condition rebuilt as
    type(c)(**state(c)[description]) has the same description -- hence, the primitives being functions of their settings
    and the solver (their own contracts), the same verdicts.  (The settings travel as python text in the description:
    concrete settings, text produced and parsed back by CPython's own repr / this interpreter's eval.)"""
    if not h.is_sym():
        h.unsupported('symbolic only')
    name, kw = h.choice('condition', STATE_CASES)
    nested = h.choice('wrapped_in', ['nothing', 'Or', 'And(Or)'])
    kwv = {k_: (h.st.alloc('set', sorted(v)) if isinstance(v, set) else v) for k_, v in kw.items()}
    c = h.call(h.get(T + name), **kwv)
    doc = h.getattr(c, '__doc__')
    h.check('description-is-concrete-text-naming-the-factory', 'ok', ok=isinstance(doc, str) and doc.startswith(name + ' with '))
    if not isinstance(doc, str):
        return
    other = h.call(h.get(T + 'VTR'), 0.5, 2.0)
    if nested == 'Or':
        top = h.call(h.get(T + 'Or'), other, c)
    elif nested == 'And(Or)':
        top = h.call(h.get(T + 'And'), h.call(h.get(T + 'Or'), c, other), other)
    else:
        top = c
    st = h.call(h.get(T + 'state'), top)
    cell = h.st.heap[st]
    from pyvc.models import _concrete_py
    got = _concrete_py(h.I, cell.get(doc)) if doc in cell else None
    h.check('state-holds-exactly-the-settings-under-the-description', 'ok', ok=(got == kw))
    h.check('state-has-one-entry-per-member', 'ok', ok=(len(cell) == (1 if nested == 'nothing' else 2)))
    ty = h.call(h.get(T + 'type'), c)
    h.check('type-is-the-factory', 'same(ty, f)', ty=ty, f=h.get(T + name))
    if doc in cell:
        again = h.call(ty, **dict(h.st.heap[cell[doc]]))
        h.check('rebuilt-condition-has-the-same-description', 'ok', ok=(h.getattr(again, '__doc__') == doc))
