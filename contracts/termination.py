"""C10: contracts of the termination primitives and of When/And/Or (mystic/termination.py).

Spec vocabulary (Appendix A.1): H = energy history, L = len(H), G = 0 if generations is None else
int(generations), Hg = H[-G] with python index semantics (H[-0] is H[0]).
Postconditions are written from the documented inequality, not from the code.
"""
from pyvc.contract import contract

T = 'mystic/termination.py::'


def _inst(h, **fields):
    return h.obj(None, **fields)


def _gens(h):
    """generation window kinds: None, int (>= 0)"""
    kind = h.choice('generations_kind', ['None', 'int'])
    if kind == 'None':
        return None
    g = h.int('generations')
    h.assume('g >= 0', g=g)
    return g


HG = 'H[L - G] if G > 0 else H[0]'
# a tie counts as zero change (this is what makes plateaus of inf decidable: inf - inf is nan in IEEE)
TIE = '((%s) == H[L-1])' % HG


def _history_case(h, factory, kwargs, spec, needs_window=True):
    info = h.choice('info', [False, True])
    f = h.call(h.get(T + factory), **kwargs)
    H = h.list_real('H', inf=True)
    inst = _inst(h, energy_history=H)
    L = h.len(H)
    gens = kwargs.get('generations', 0)
    G = 0 if gens is None else gens
    r = h.call(f, inst, info)
    env = dict(kwargs)
    env.update(H=H, L=L, G=G, r=r, doc=h.getattr(f, '__doc__'))
    h.check('truthy-iff-spec', 'iff(truthy(r), L > 0 and (%s))' % spec, **env)
    if info:
        h.check('info-is-doc-or-empty', '(r is doc) if truthy(r) else (r == "")', **env)
    else:
        h.check('result-is-bool', 'r is True or r is False', **env)
    h.cover('satisfied', 'truthy(r)', **env)
    h.cover('unsatisfied', 'not truthy(r)', **env)


@contract('C10/VTR', ['C10'], T + 'VTR._VTR')
def vtr(h):
    tol, target = h.real('tolerance'), h.real('target')
    h.assume('tolerance >= 0', tolerance=tol)
    _history_case(h, 'VTR', dict(tolerance=tol, target=target), 'abs(H[L-1] - target) <= tolerance')


@contract('C10/ChangeOverGeneration', ['C10'], T + 'ChangeOverGeneration._ChangeOverGeneration')
def cog(h):
    tol = h.real('tolerance')
    h.assume('tolerance >= 0', tolerance=tol)
    g = _gens(h)
    _history_case(h, 'ChangeOverGeneration', dict(tolerance=tol, generations=g),
                  'L > G and ((%s) - H[L-1] <= tolerance or %s)' % (HG, TIE))


@contract('C10/NormalizedChangeOverGeneration', ['C10'],
          T + 'NormalizedChangeOverGeneration._NormalizedChangeOverGeneration')
def ncog(h):
    tol = h.real('tolerance')
    h.assume('tolerance >= 0', tolerance=tol)
    g = _gens(h)
    # documented: (cost[-g]-cost[-1]) / (0.5*(|cost[-g]|+|cost[-1]|)) <= tol, with the eta=1e-20 guard of the
    # implementation's docstring-equivalent form 2*(a-b) <= tol*(|a|+|b|) + 1e-20
    _history_case(h, 'NormalizedChangeOverGeneration', dict(tolerance=tol, generations=g),
                  'L > G and (%s or 2.0*((%s) - H[L-1]) <= tolerance*(abs(%s) + abs(H[L-1])) + 1e-20)' % (TIE, HG, HG))


@contract('C10/NormalizedCostTarget', ['C10'], T + 'NormalizedCostTarget._NormalizedCostTarget')
def nct(h):
    tol = h.real('tolerance')
    h.assume('tolerance >= 0', tolerance=tol)
    g = _gens(h)
    fk = h.choice('fval_kind', ['None', 'real'])
    fval = None if fk == 'None' else h.real('fval')
    if fval is None:
        spec = '(L > G and ((%s) - H[L-1] <= 0 or %s)) if G != 0 else True' % (HG, TIE)
    else:
        spec = 'abs(H[L-1] - fval) <= abs(tolerance * fval)'
    _history_case(h, 'NormalizedCostTarget', dict(fval=fval, tolerance=tol, generations=g), spec)


@contract('C10/VTRChangeOverGeneration', ['C10'], T + 'VTRChangeOverGeneration._VTRChangeOverGeneration')
def vtrcog(h):
    ftol, gtol, target = h.real('ftol'), h.real('gtol'), h.real('target')
    h.assume('ftol >= 0 and gtol >= 0', ftol=ftol, gtol=gtol)
    g = _gens(h)
    _history_case(h, 'VTRChangeOverGeneration', dict(ftol=ftol, gtol=gtol, generations=g, target=target),
                  '(L > G and ((%s) - H[L-1] <= gtol or %s)) or abs(H[L-1] - target) <= ftol' % (HG, TIE))
