"""helpers shared by the step contracts (not a contract module: the loader skips names starting with `_`)"""


def save_probe(I, c, args, kwargs):
    """summary of AbstractSolver.__save_state inside a _Step contract: remember how many step-monitor records of this
    iteration had been written when the periodic restart dump was requested"""
    I.st.ghost.setdefault('saves', []).append(len(I.st.ghost.get('records', [])))
    return None


def check_dump_after_record(h):
    """C06 / C04: the periodic dump (SetSaveFrequency) taken in an iteration holds that iteration COMPLETE -- it is
    requested after the iteration's step-monitor record was written -- so a solver restored from it has a monitor that
    ends in the state it resumes from"""
    saves = list(h.st.ghost.get('saves', []))
    nrec = len(h.st.ghost.get('records', []))
    h.check('C06/periodic-state-dump-requested-once-after-this-iterations-monitor-record', 'ok',
            ok=(len(saves) == 1 and saves[0] == nrec and nrec >= 1))
