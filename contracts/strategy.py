"""C08 (DE part): the ten mutation strategies of mystic/strategy.py and get_random_candidates (Appendix A.7).
D = nDim, F = scale, p = population, b = bestSolution, parent = population[candidate]."""
from pyvc.contract import contract, loop, exit_check

S = 'mystic/strategy.py'

# name -> (number of candidates, mutated component expression in k using r[0..], loop kind)
BEST1 = 'inst.bestSolution[k] + inst.scale * (inst.population[r1][k] - inst.population[r2][k])'
RAND1 = 'inst.population[r1][k] + inst.scale * (inst.population[r2][k] - inst.population[r3][k])'
RTB1 = 'P[k] + inst.scale * (inst.bestSolution[k] - P[k]) + inst.scale * (inst.population[r1][k] - inst.population[r2][k])'
BEST2 = 'inst.bestSolution[k] + inst.scale * (inst.population[r1][k] + inst.population[r2][k] - inst.population[r3][k] - inst.population[r4][k])'
RAND2 = 'inst.population[r1][k] + inst.scale * (inst.population[r2][k] + inst.population[r3][k] - inst.population[r4][k] - inst.population[r5][k])'
TABLE = {
    'Best1Exp': (2, BEST1, 'exp'), 'Best1Bin': (2, BEST1, 'bin'),
    'Rand1Exp': (3, RAND1, 'exp'), 'Rand1Bin': (3, RAND1, 'exp'),
    'RandToBest1Exp': (2, RTB1, 'exp'), 'RandToBest1Bin': (2, RTB1, 'exp'),
    'Best2Exp': (4, BEST2, 'exp'), 'Best2Bin': (4, BEST2, 'exp'),
    'Rand2Exp': (5, RAND2, 'exp'), 'Rand2Bin': (5, RAND2, 'exp'),
}
# (the four *Bin functions that run the exponential loop: DESIGN section 5, observation O1)

PARENT = 'inst.population[candidate]'
# position k has been mutated after i steps of a cyclic run that now stands at n:  ((n-1-k) mod D) < i
RUN = '((n - 1 - k) if (n - 1 - k) >= 0 else (n - 1 - k + inst.nDim)) < i'


def _specs(name):
    ncand, mut, kind = TABLE[name]
    m = mut.replace('P[k]', PARENT + '[k]')
    if kind == 'exp':
        inv = ['0 <= i and i <= inst.nDim and 0 <= n and n < inst.nDim',
               'len(trialSolution) == inst.nDim',
               'forall(0, inst.nDim, lambda k: trialSolution[k] == ((%s) if (%s) else %s[k]))' % (m, RUN, PARENT)]
        lp = loop(S, name, 0, 'while 1', inv, modifies=['trialSolution'])
        ex = exit_check(S, name, [
            ('crossover-is-a-cyclic-run', inv[0] + ' and ' + inv[2]),
            ('every-component-parent-or-mutation',
             'forall(0, inst.nDim, lambda k: trialSolution[k] == %s[k] or trialSolution[k] == (%s))' % (PARENT, m))])
    else:
        inv = ['len(trialSolution) == inst.nDim',
               'forall(0, inst.nDim, lambda k: trialSolution[k] == %s[k] or trialSolution[k] == (%s))' % (PARENT, m),
               'forall(_i_, inst.nDim, lambda k: trialSolution[k] == %s[k])' % PARENT,
               'implies(n < _i_, trialSolution[n] == (%s))' % m.replace('[k]', '[n]')]
        lp = loop(S, name, 0, 'for i in range(inst.nDim)', inv, modifies=['trialSolution'])
        ex = exit_check(S, name, [
            ('position-n-always-mutated', 'trialSolution[n] == (%s)' % m.replace('[k]', '[n]')),
            ('every-component-parent-or-mutation', inv[1])])
    return dict([lp, ex])


def _inst(h, map_solver):
    D = h.int('nDim')
    NP = h.int('nPop')
    h.assume('D >= 1 and NP >= 1', D=D, NP=NP)
    pop = h.matrix('population', NP, D)
    best = h.list_real('bestSolution', nd=True)
    h.assume('len(best) == D', best=best, D=D)
    if map_solver:
        trial = h.matrix('trialSolution', NP, D)
    else:
        trial = h.list_real('trialSolution', nd=False)
        h.assume('len(trial) == D', trial=trial, D=D)
    F, CR = h.real('scale'), h.real('probability')
    inst = h.obj(None, nDim=D, nPop=NP, population=pop, bestSolution=best, trialSolution=trial,
                 scale=F, probability=CR, _map_solver=map_solver)
    return inst, D, NP, pop, best, trial


def _strategy(h, name):
    ncand, mut, kind = TABLE[name]
    map_solver = h.choice('map_solver', [False, True])
    inst, D, NP, pop, best, trial = _inst(h, map_solver)
    cand = h.int('candidate')
    h.assume('0 <= cand and cand < NP and NP - 1 >= ncand', cand=cand, NP=NP, ncand=ncand)
    pop0 = h.snapshot(pop)
    best0 = h.snapshot(best)
    trial0 = h.snapshot(trial)
    h.call(h.get(S + '::' + name), inst, cand)
    rs = h.log('rand_sample')
    h.check('one-sample-of-candidates', 'len(rs) == 1 and len(rs[0]) == ncand', rs=rs, ncand=ncand)
    r = rs[0]
    env = {'r%d' % (j + 1): r[j] for j in range(ncand)}
    distinct = ' and '.join('r%d != r%d' % (a + 1, b + 1) for a in range(ncand) for b in range(a + 1, ncand))
    inrange = ' and '.join('0 <= r%d and r%d < NP and r%d != cand' % (j + 1, j + 1, j + 1) for j in range(ncand))
    h.check('candidates-distinct-in-range-not-parent', '%s and %s' % (distinct, inrange), NP=NP, cand=cand, **env)
    # frame: population and best untouched; for map solvers only row `candidate` of the trial population changes
    h.check('population-and-best-unchanged',
            'forall(0, NP, lambda a: seq_eq(pop[a], pop0[a])) and seq_eq(best, best0)', NP=NP, pop=pop, pop0=pop0, best=best, best0=best0)
    if map_solver:
        h.check('only-own-trial-row-modified', 'forall(0, NP, lambda a: a == cand or seq_eq(trial[a], trial0[a]))',
                NP=NP, cand=cand, trial=trial, trial0=trial0)


for _name in TABLE:
    contract('C08/strategy/%s' % _name, ['C08', 'C01'], S + '::' + _name, loops=_specs(_name), native=False)(
        lambda h, n=_name: _strategy(h, n))


@contract('C08/get_random_candidates', ['C08'], S + '::get_random_candidates', native=False)
def candidates(h):
    NP, ex = h.int('NP'), h.int('exclude')
    N = h.choice('N', [1, 2, 3, 5])
    h.assume('NP >= 1 and 0 <= ex and ex < NP and NP - 1 >= N', NP=NP, ex=ex, N=N)
    r = h.call(h.get(S + '::get_random_candidates'), NP, ex, N)
    items = [h.ev('r[%d]' % j, r=r) for j in range(N)]
    env = {'c%d' % j: v for j, v in enumerate(items)}
    h.check('N-candidates', 'len(r) == N', r=r, N=N)
    h.check('in-range-and-not-excluded', ' and '.join('0 <= c%d and c%d < NP and c%d != ex' % (j, j, j) for j in range(N)), NP=NP, ex=ex, **env)
    if N > 1:
        h.check('pairwise-distinct', ' and '.join('c%d != c%d' % (a, b) for a in range(N) for b in range(a + 1, N)), **env)
