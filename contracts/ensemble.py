"""C09 / C01: reduction of an ensemble to its best member (AbstractEnsembleSolver.__update_bestSolver,
__update_state) and the totals (`_total_evals`, `_all_*` getters).  Member solvers are arbitrary objects with
arbitrary energies; the number of members is fixed per instance (k = 1..3, optionally with an unused `None` slot):
the loop over the members then unrolls, every instance is for all energies / solutions."""
from pyvc.contract import contract

E = 'mystic/abstract_ensemble_solver.py'
ENS = E + '::AbstractEnsembleSolver'
MON = 'mystic/monitors.py::Monitor'


def _member(h, i):
    ev = h.int('evals_%d' % i)
    # (a member's `evaluations` is its shared counter `_fcalls[0]`: contract C04/AbstractSolver.evaluations)
    return h.obj(None, evaluations=ev, bestEnergy=h.real('energy_%d' % i, inf=True), bestSolution=h.vec('solution_%d' % i, 2),
                 population=h.clist([h.vec('pop_%d' % i, 2)]), popEnergy=h.clist([h.real('pe_%d' % i, inf=True)]),
                 trialSolution=h.vec('trial_%d' % i, 2), _fcalls=h.clist([ev]),
                 _maxiter=h.int('maxiter_%d' % i), _maxfun=h.int('maxfun_%d' % i),
                 _constraints=h.fn('CONS_%d' % i, ret='same'), _termination=h.fn('TERM_%d' % i, ret='bool'),
                 _stepmon=h.obj(MON, _x=h.clist([]), _y=h.clist([]), _id=h.clist([]), _info=h.clist([]), k=None, _npts=None, label='s%d' % i),
                 _evalmon=h.obj(MON, _x=h.clist([]), _y=h.clist([]), _id=h.clist([]), _info=h.clist([]), k=None, _npts=None, label='e%d' % i),
                 id=i)


def _ensemble(h, k, with_none, prev):
    members = [_member(h, i) for i in range(k)]
    slots = list(members)
    if with_none:
        slots.insert(1 if k > 1 else 1, None)
    best0 = None if prev is None else members[prev]
    s = h.obj(ENS, _allSolvers=h.clist(slots), _bestSolver=best0, _bestEnergy=None, _bestSolution=None,
              population=h.clist([h.vec('ens_pop', 2)]), popEnergy=h.clist([h.real('ens_pe', inf=True)]),
              trialSolution=h.vec('ens_trial', 2), _fcalls=h.clist([0]), _maxiter=None, _maxfun=None,
              _constraints=h.fn('ENS_CONS', ret='same'), _termination=h.fn('ENS_TERM', ret='bool'),
              _stepmon=h.obj(MON, _x=h.clist([]), _y=h.clist([]), _id=h.clist([]), _info=h.clist([]), k=None, _npts=None, label='es'),
              _evalmon=h.obj(MON, _x=h.clist([]), _y=h.clist([]), _id=h.clist([]), _info=h.clist([]), k=None, _npts=None, label='ee'),
              _energy_history=None, _solution_history=None, id=None)
    return s, members


def _update_state(h, k, with_none, prev):
    s, members = _ensemble(h, k, with_none, prev)
    h.call(h.getattr(s, '_AbstractEnsembleSolver__update_state'))
    best = h.field(s, '_bestSolver')
    h.check('best-solver-is-a-member', ' or '.join('same(best, m%d)' % i for i in range(k)), best=best,
            **{'m%d' % i: m for i, m in enumerate(members)})
    for i, m in enumerate(members):
        h.check('reported-energy-is-the-minimum-over-members', 'e <= me', e=h.getattr(s, 'bestEnergy'), me=h.field(m, 'bestEnergy'))
    h.check('reported-energy-and-solution-are-the-best-members', 'e == b.bestEnergy and same(x, b.bestSolution)',
            e=h.getattr(s, 'bestEnergy'), x=h.getattr(s, 'bestSolution'), b=best)
    h.check('state-handed-back-from-the-best-member',
            'same(s.population, b.population) and same(s.popEnergy, b.popEnergy) and same(s.trialSolution, b.trialSolution) '
            'and same(s._fcalls, b._fcalls) and same(s._stepmon, b._stepmon) and same(s._evalmon, b._evalmon) '
            'and s._maxiter == b._maxiter and s._maxfun == b._maxfun and same(s._constraints, b._constraints) '
            'and same(s._termination, b._termination)', s=s, b=best)


for _k, _none, _prev in [(1, False, None), (2, False, None), (2, False, 0), (2, False, 1), (3, False, None), (3, False, 2),
                         (2, True, None), (3, True, 1)]:
    contract('C09/ensemble.__update_state/members=%d%s,previous-best=%s' % (_k, '+None' if _none else '', _prev), ['C09', 'C01'],
             ENS + '.__update_state', native=False)(lambda h, k=_k, n=_none, p=_prev: _update_state(h, k, n, p))


@contract('C09/ensemble.totals', ['C09'], ENS + '.__total_evals', native=False)
def totals(h):
    k = h.choice('members', [1, 2, 3])
    s, members = _ensemble(h, k, False, None)
    tot = h.getattr(s, '_total_evals')
    h.check('total-evaluations-is-the-sum-over-members', 'tot == ' + ' + '.join('m%d._fcalls[0]' % i for i in range(k)),
            tot=tot, **{'m%d' % i: m for i, m in enumerate(members)})
    al = h.getattr(s, '_all_evals')
    h.check('per-member-evaluations', 'len(al) == k and ' + ' and '.join('al[%d] == m%d._fcalls[0]' % (i, i) for i in range(k)),
            al=al, k=k, **{'m%d' % i: m for i, m in enumerate(members)})
    ae = h.getattr(s, '_all_bestEnergy')
    h.check('per-member-best-energies', 'len(ae) == k and ' + ' and '.join('ae[%d] == m%d.bestEnergy' % (i, i) for i in range(k)),
            ae=ae, k=k, **{'m%d' % i: m for i, m in enumerate(members)})
