"""C09 / C01: reduction of an ensemble to its best member (AbstractEnsembleSolver.__update_bestSolver,
__update_state) and the totals (`_total_evals`, `_all_*` getters).  Member solvers are arbitrary objects with
arbitrary energies; the number of members is fixed per instance (k = 1..3, optionally with an unused `None` slot):
the loop over the members then unrolls, every instance is for all energies / solutions."""
from pyvc.contract import contract

E = 'mystic/abstract_ensemble_solver.py'
ENS = E + '::AbstractEnsembleSolver'
MON = 'mystic/monitors.py::Monitor'


def _member(h, i):
    ev = h.int('evals_%d' % i)
    # (a member's `evaluations` is its shared counter `_fcalls[0]`: contract C04/AbstractSolver.evaluations)
    return h.obj(None, evaluations=ev, bestEnergy=h.real('energy_%d' % i, inf=True), bestSolution=h.vec('solution_%d' % i, 2),
                 population=h.clist([h.vec('pop_%d' % i, 2)]), popEnergy=h.clist([h.real('pe_%d' % i, inf=True)]),
                 trialSolution=h.vec('trial_%d' % i, 2), _fcalls=h.clist([ev]),
                 _maxiter=h.int('maxiter_%d' % i), _maxfun=h.int('maxfun_%d' % i),
                 _constraints=h.fn('CONS_%d' % i, ret='same'), _termination=h.fn('TERM_%d' % i, ret='bool'),
                 _stepmon=h.obj(MON, _x=h.clist([]), _y=h.clist([]), _id=h.clist([]), _info=h.clist([]), k=None, _npts=None, label='s%d' % i),
                 _evalmon=h.obj(MON, _x=h.clist([]), _y=h.clist([]), _id=h.clist([]), _info=h.clist([]), k=None, _npts=None, label='e%d' % i),
                 id=i)


def _ensemble(h, k, with_none, prev):
    members = [_member(h, i) for i in range(k)]
    slots = list(members)
    if with_none:
        slots.insert(1 if k > 1 else 1, None)
    best0 = None if prev is None else members[prev]
    s = h.obj(ENS, _allSolvers=h.clist(slots), _bestSolver=best0, _bestEnergy=None, _bestSolution=None,
              population=h.clist([h.vec('ens_pop', 2)]), popEnergy=h.clist([h.real('ens_pe', inf=True)]),
              trialSolution=h.vec('ens_trial', 2), _fcalls=h.clist([0]), _maxiter=None, _maxfun=None,
              _constraints=h.fn('ENS_CONS', ret='same'), _termination=h.fn('ENS_TERM', ret='bool'),
              _stepmon=h.obj(MON, _x=h.clist([]), _y=h.clist([]), _id=h.clist([]), _info=h.clist([]), k=None, _npts=None, label='es'),
              _evalmon=h.obj(MON, _x=h.clist([]), _y=h.clist([]), _id=h.clist([]), _info=h.clist([]), k=None, _npts=None, label='ee'),
              _energy_history=None, _solution_history=None, id=None)
    return s, members


def _update_state(h, k, with_none, prev):
    s, members = _ensemble(h, k, with_none, prev)
    h.call(h.getattr(s, '_AbstractEnsembleSolver__update_state'))
    best = h.field(s, '_bestSolver')
    h.check('best-solver-is-a-member', ' or '.join('same(best, m%d)' % i for i in range(k)), best=best,
            **{'m%d' % i: m for i, m in enumerate(members)})
    for i, m in enumerate(members):
        h.check('reported-energy-is-the-minimum-over-members', 'e <= me', e=h.getattr(s, 'bestEnergy'), me=h.field(m, 'bestEnergy'))
    h.check('reported-energy-and-solution-are-the-best-members', 'e == b.bestEnergy and same(x, b.bestSolution)',
            e=h.getattr(s, 'bestEnergy'), x=h.getattr(s, 'bestSolution'), b=best)
    h.check('state-handed-back-from-the-best-member',
            'same(s.population, b.population) and same(s.popEnergy, b.popEnergy) and same(s.trialSolution, b.trialSolution) '
            'and same(s._fcalls, b._fcalls) and same(s._stepmon, b._stepmon) and same(s._evalmon, b._evalmon) '
            'and s._maxiter == b._maxiter and s._maxfun == b._maxfun and same(s._constraints, b._constraints) '
            'and same(s._termination, b._termination)', s=s, b=best)


for _k, _none, _prev in [(1, False, None), (2, False, None), (2, False, 0), (2, False, 1), (3, False, None), (3, False, 2),
                         (2, True, None), (3, True, 1)]:
    contract('C09/ensemble.__update_state/members=%d%s,previous-best=%s' % (_k, '+None' if _none else '', _prev), ['C09', 'C01', 'C03', 'C05'],
             ENS + '.__update_state', native=False)(lambda h, k=_k, n=_none, p=_prev: _update_state(h, k, n, p))


@contract('C09/ensemble.totals', ['C09'], ENS + '.__total_evals', native=False)
def totals(h):
    k = h.choice('members', [1, 2, 3])
    s, members = _ensemble(h, k, False, None)
    tot = h.getattr(s, '_total_evals')
    h.check('total-evaluations-is-the-sum-over-members', 'tot == ' + ' + '.join('m%d._fcalls[0]' % i for i in range(k)),
            tot=tot, **{'m%d' % i: m for i, m in enumerate(members)})
    al = h.getattr(s, '_all_evals')
    h.check('per-member-evaluations', 'len(al) == k and ' + ' and '.join('al[%d] == m%d._fcalls[0]' % (i, i) for i in range(k)),
            al=al, k=k, **{'m%d' % i: m for i, m in enumerate(members)})
    ae = h.getattr(s, '_all_bestEnergy')
    h.check('per-member-best-energies', 'len(ae) == k and ' + ' and '.join('ae[%d] == m%d.bestEnergy' % (i, i) for i in range(k)),
            ae=ae, k=k, **{'m%d' % i: m for i, m in enumerate(members)})


# ---------------------------------------------------------------------------- collecting the members after a map
def _mon(h, tag, n, label):
    return h.obj(MON, _x=h.clist([h.real('%s_x%d' % (tag, i)) for i in range(n)]), _y=h.clist([h.real('%s_y%d' % (tag, i)) for i in range(n)]),
                 _id=h.clist([None] * n), _info=h.clist([]), k=None, _npts=None, label=label)


def _update_all(h, copying):
    """two member slots; slot i held `old` step records and `olde` evaluation records before the map; the map returns, per
    slot, the solver that ran (the same object for an in-process map, a copy for a process pool) and its monitors'
    contents (all records: the old ones followed by the new ones)"""
    if not h.is_sym():
        h.unsupported('symbolic only')
    shapes = h.choice('records', [((0, 0), (2, 5)), ((2, 4), (3, 6)), ((1, 3), (1, 3))])     # (old step, old eval), (all step, all eval)
    (ls, le), (ns, ne) = shapes
    slots, returned, results, olds = [], [], [], []
    for i in range(2):
        sm, em = _mon(h, 'm%d_s' % i, ls, 's'), _mon(h, 'm%d_e' % i, le, 'e')
        fc = h.int('fcalls_%d' % i)
        h.assume('fc >= 1', fc=fc)
        member = h.obj(None, _stepmon=sm, _evalmon=em, _fcalls=h.clist([fc]), id=i)
        slots.append(member)
        olds.append((h.snapshot(h.field(sm, '_x')), h.snapshot(h.field(em, '_x'))))
        if copying:
            # the worker's copy: its monitors start as copies of the slot's and have grown
            rs = h.obj(MON, _x=h.clist(list(h.st.heap[h.field(sm, '_x')]) + [h.real('r%d_sx%d' % (i, j)) for j in range(ns - ls)]),
                       _y=h.clist(list(h.st.heap[h.field(sm, '_y')]) + [h.real('r%d_sy%d' % (i, j)) for j in range(ns - ls)]),
                       _id=h.clist([None] * ns), _info=h.clist([]), k=None, _npts=None, label='s')
            re_ = h.obj(MON, _x=h.clist(list(h.st.heap[h.field(em, '_x')]) + [h.real('r%d_ex%d' % (i, j)) for j in range(ne - le)]),
                        _y=h.clist(list(h.st.heap[h.field(em, '_y')]) + [h.real('r%d_ey%d' % (i, j)) for j in range(ne - le)]),
                        _id=h.clist([None] * ne), _info=h.clist([]), k=None, _npts=None, label='e')
            ret = h.obj(None, _stepmon=rs, _evalmon=re_, _fcalls=h.clist([h.field(h.field(member, '_fcalls'), 0) if False else fc]), id=i)
        else:
            for mon_, tag, a, b in ((sm, 's', ls, ns), (em, 'e', le, ne)):
                for f in ('_x', '_y'):
                    h.st.heap[h.field(mon_, f)].extend(h.real('r%d_%s%s%d' % (i, tag, f, j)) for j in range(b - a))
                h.st.heap[h.field(mon_, '_id')].extend([None] * (b - a))
            ret, rs, re_ = member, sm, em
        returned.append(ret)
        allx = (h.snapshot(h.field(rs, '_x')), h.snapshot(h.field(re_, '_x')))
        results.append(h.tup(ret, h.tup(h.clist(list(h.st.heap[h.field(rs, '_x')])), h.clist(list(h.st.heap[h.field(rs, '_y')])),
                                         h.clist([None] * ns), h.clist([])),
                             h.tup(h.clist(list(h.st.heap[h.field(re_, '_x')])), h.clist(list(h.st.heap[h.field(re_, '_y')])),
                                   h.clist([None] * ne), h.clist([]))))
        olds[-1] = olds[-1] + allx
    s = h.obj(ENS, _allSolvers=h.clist(slots))
    h.call(h.getattr(s, '_AbstractEnsembleSolver__update_allSolvers'), h.clist(results))
    al = h.field(s, '_allSolvers')
    for i in range(2):
        e = dict(al=al, ret=returned[i], olds=olds[i][0], olde=olds[i][1], alls=olds[i][2], alle=olds[i][3], ls=ls, le=le, ns=ns, ne=ne)
        h.check('every-slot-holds-the-solver-returned-for-it', 'same(al[%d], ret)' % i, **e)
        h.check('step-monitor-is-the-old-records-followed-by-the-new-ones',
                'len(al[%d]._stepmon._x) == ns and seq_eq(al[%d]._stepmon._x, alls)' % (i, i), **e)
        h.check('evaluation-monitor-is-the-old-records-followed-by-the-new-ones',
                'len(al[%d]._evalmon._x) == ne and seq_eq(al[%d]._evalmon._x, alle)' % (i, i), **e)


contract('C09/ensemble.__update_allSolvers/in-process-map', ['C09', 'C07'], ENS + '.__update_allSolvers', native=False)(
    lambda h: _update_all(h, False))
contract('C09/ensemble.__update_allSolvers/copying-map', ['C09', 'C07'], ENS + '.__update_allSolvers', native=False)(
    lambda h: _update_all(h, True))


# ---------------------------------------------------------------------------- lattice starting points / gridpts
import itertools as _it


def _layouts():
    out = []
    for d in (1, 2, 3):
        for l in _it.product((1, 2, 3, 4), repeat=d):
            p = 1
            for v in l:
                p *= v
            if p <= 12:
                out.append(l)
    return out


@contract('C09/gridpts', ['C09'], 'mystic/math/grid.py::gridpts', samples=150)
def gridpts(h):
    """per bin layout (every layout with <= 3 dimensions, <= 4 bins each, <= 12 points) and for ALL bin values: the result
    is the full Cartesian product of the bins, every combination exactly once"""
    layout = h.choice('bins_per_dimension', _layouts())
    bins = [h.vec('bin%d' % i, n) for i, n in enumerate(layout)]
    q = h.clist(bins)
    pts = h.call(h.get('mystic/math/grid.py::gridpts'), q)
    combos = list(_it.product(*[range(n) for n in layout]))
    h.check('as-many-points-as-the-product-of-the-bins', 'len(pts) == n', pts=pts, n=len(combos))
    # each combination occurs at exactly one position: the points are, in documented order, the product with the first
    # dimension varying slowest
    conj = []
    for k, idx in enumerate(combos):
        conj.append('len(pts[%d]) == %d' % (k, len(layout)))
        conj += ['pts[%d][%d] == q[%d][%d]' % (k, d, d, j) for d, j in enumerate(idx)]
    h.check('full-cartesian-product-each-combination-once', ' and '.join(conj), pts=pts, q=q)


@contract('C09/LatticeSolver._InitialPoints', ['C09', 'C02'], 'mystic/ensemble.py::LatticeSolver._InitialPoints', samples=150)
def lattice_points(h):
    """per bin layout, for ALL strict ranges lower <= upper: one starting point per grid cell, at the centre of its cell
    (hence inside the strict ranges)"""
    layout = h.choice('nbins', [l for l in _layouts() if len(l) <= 2] + [(2, 1, 2), (1, 1, 3)])
    D = len(layout)
    lo, up = h.vec('lower', D), h.vec('upper', D)
    h.assume(' and '.join('lo[%d] <= up[%d]' % (i, i) for i in range(D)), lo=lo, up=up)
    nd = h.choice('ranges_as', ['list', 'array'])
    s = h.obj('mystic/ensemble.py::LatticeSolver', nDim=D, _nbins=tuple(layout), _npts=None, _dist=None,
              _strictMin=h.clist(list(h.st.heap[lo]) if h.is_sym() else list(lo), nd=(nd == 'array')),
              _strictMax=h.clist(list(h.st.heap[up]) if h.is_sym() else list(up), nd=(nd == 'array')),
              _defaultMin=h.clist([-1e3]), _defaultMax=h.clist([1e3]))
    pts = h.call(h.getattr(s, '_InitialPoints'))
    combos = list(_it.product(*[range(n) for n in layout]))
    h.check('one-member-per-cell', 'len(pts) == n', pts=pts, n=len(combos))
    conj = []
    for k, idx in enumerate(combos):
        for d, j in enumerate(idx):
            w = '(up[%d] - lo[%d]) / %d' % (d, d, layout[d])
            conj.append('pts[%d][%d] == lo[%d] + (%d + 0.5) * %s' % (k, d, d, j, w))
            conj.append('lo[%d] <= pts[%d][%d] and pts[%d][%d] <= up[%d]' % (d, k, d, k, d, d))
    h.check('each-member-starts-at-the-centre-of-its-own-cell-inside-the-ranges', ' and '.join(conj), pts=pts, lo=lo, up=up)


@contract('C07/ensemble.best-member-independent-of-history', ['C07', 'C09'], ENS + '.__update_bestSolver', native=False)
def best_independent_of_history(h):
    """the member reported as best is a function of the members alone: whatever member was the best before this update
    (i.e. whatever the history of the run: step-wise or run-to-completion), the same member comes out -- also when several
    members tie exactly.  Relational: the real method is executed twice on the same members with different previous bests."""
    if not h.is_sym():
        h.unsupported('symbolic only')
    k = h.choice('members', [2, 3])
    members = [_member(h, i) for i in range(k)]
    prev_a = h.choice('previous_best_in_run_A', [None] + list(range(k)))
    prev_b = h.choice('previous_best_in_run_B', [None] + list(range(k)))
    if prev_a == prev_b:
        return
    outs = []
    for prev in (prev_a, prev_b):
        s = h.obj(ENS, _allSolvers=h.clist(list(members)), _bestSolver=None if prev is None else members[prev], _bestEnergy=None,
                  _bestSolution=None, population=h.clist([h.vec('ens_pop', 2)]), popEnergy=h.clist([h.real('ens_pe', inf=True)]),
                  _stepmon=None, _evalmon=None, _energy_history=None, _solution_history=None, id=None)
        h.call(h.getattr(s, '_AbstractEnsembleSolver__update_bestSolver'))
        outs.append(h.field(s, '_bestSolver'))
    h.check('same-best-member-whatever-the-previous-best', 'same(a, b)', a=outs[0], b=outs[1])


@contract('C09/ensemble.__get_solver_instance', ['C09', 'C02', 'C03'], ENS + '.__get_solver_instance', native=False)
def member_instance(h):
    """a member built from a solver class is handed every setting of the ensemble through the matching setter: the
    strict ranges with their tight / clip mode (iff ranges are set), the limits, the termination, the constraints, the
    penalty, the reducer (iff set), the raw objective with its extra arguments, the save frequency"""
    if not h.is_sym():
        h.unsupported('symbolic only')
    strict = h.choice('useStrictRange', [False, True])
    red = h.choice('reducer', [None, 'set'])
    reset = h.choice('reset', [False, True])
    vals = dict(_strictMin=h.vec('min', 2), _strictMax=h.vec('max', 2), _useTightRange=h.choice('tight', [None, True]),
                _useClipRange=None, _maxiter=h.int('maxiter'), _maxfun=h.int('maxfun'),
                _termination=h.fn('TERM', ret='bool'), _constraints=h.fn('CONS', ret='same'), _penalty=h.fn('PEN', ret='real'),
                _reducer=h.fn('RED', ret='real') if red else None, _saveiter=h.int('saveiter'), _state='file.pkl')
    raw, extra = h.fn('RAW', ret='real'), h.tup(1.5)
    mon = lambda lab: h.obj(MON, _x=h.clist([]), _y=h.clist([]), _id=h.clist([]), _info=h.clist([]), k=None, _npts=None, label=lab)  # noqa: E731
    s = h.obj(ENS, nDim=2, _solver=h.get('mystic/scipy_optimize.py::NelderMeadSimplexSolver'), _useStrictRange=strict,
              _cost=h.tup(None, raw, extra), _evalmon=mon('e'), _stepmon=mon('s'), **vals)
    calls = []

    def rec(name):
        def f(I, c, args, kwargs):
            calls.append((name, list(args[1:]), dict(kwargs)))
            return None
        return f
    A_ = 'mystic/abstract_solver.py'
    table = {('mystic/scipy_optimize.py', 'NelderMeadSimplexSolver.__init__'): rec('init')}
    for m in ('SetRandomInitialPoints', 'SetStrictRanges', 'SetEvaluationMonitor', 'SetGenerationMonitor', 'SetEvaluationLimits',
              'SetTermination', 'SetConstraints', 'SetPenalty', 'SetReducer', 'SetObjective', 'SetSaveFrequency'):
        table[(A_, 'AbstractSolver.' + m)] = rec(m)
    h.set_summaries(table)
    member = h.call(h.getattr(s, '_AbstractEnsembleSolver__get_solver_instance'), reset)
    by = {}
    for name, a, k in calls:
        by.setdefault(name, []).append((a, k))

    def once(name):
        return len(by.get(name, [])) == 1
    ok_ranges = (once('SetStrictRanges') and by['SetStrictRanges'][0][1].get('min') is vals['_strictMin'] and
                 by['SetStrictRanges'][0][1].get('max') is vals['_strictMax'] and by['SetStrictRanges'][0][1].get('tight') is vals['_useTightRange']
                 and by['SetStrictRanges'][0][1].get('clip') is None) if strict else ('SetStrictRanges' not in by)
    h.check('member-is-an-instance-of-the-nested-solver-class-of-the-ensembles-dimension', 'ok',
            ok=(once('init') and by['init'][0][0] == [2]))
    h.check('strict-ranges-and-their-mode-handed-over-iff-set', 'ok', ok=ok_ranges)
    h.check('limits-handed-over', 'ok', ok=once('SetEvaluationLimits') and by['SetEvaluationLimits'][0][0][0] is vals['_maxiter'] and by['SetEvaluationLimits'][0][0][1] is vals['_maxfun']
            and len(by['SetEvaluationLimits'][0][0]) == 2 and not by['SetEvaluationLimits'][0][1].get('new'))      # as TOTALS: a member is bound by the ensemble's limits, not by them plus what its monitor already holds
    h.check('termination-constraints-penalty-handed-over', 'ok',
            ok=(once('SetTermination') and by['SetTermination'][0][0][0] is vals['_termination'] and
                once('SetConstraints') and by['SetConstraints'][0][0][0] is vals['_constraints'] and
                once('SetPenalty') and by['SetPenalty'][0][0][0] is vals['_penalty']))
    h.check('reducer-handed-over-iff-set', 'ok',
            ok=(once('SetReducer') and by['SetReducer'][0][0][0] is vals['_reducer']) if red else ('SetReducer' not in by))
    h.check('raw-objective-and-extra-arguments-handed-over', 'ok',
            ok=once('SetObjective') and by['SetObjective'][0][0][0] is raw and by['SetObjective'][0][0][1] is extra)


@contract('C09/ensemble.__init_allSolvers', ['C09'], ENS + '.__init_allSolvers', native=False)
def init_members(h):
    """exactly as many members as slots: every empty slot gets its OWN deep copy of the nested solver with its own id
    (slot index + ensemble id), members that already exist are kept"""
    if not h.is_sym():
        h.unsupported('symbolic only')
    k = h.choice('slots', [1, 2, 3])
    existing = h.choice('already_filled_slot', [None, 0]) if k > 1 else None
    ens_id = h.choice('ensemble_id', [None, 4])
    proto = h.obj(None, population=h.clist([h.vec('p', 2)]), id=None, _fcalls=h.clist([0]))
    old = h.obj(None, population=h.clist([h.vec('q', 2)]), id=77, _fcalls=h.clist([5]))
    slots = [None] * k
    if existing is not None:
        slots[existing] = old
    s = h.obj(ENS, _allSolvers=h.clist(slots), id=ens_id)
    h.set_summaries({(E, 'AbstractEnsembleSolver.__get_solver_instance'): lambda I, c, a, kw: proto})
    r = h.call(h.getattr(s, '_AbstractEnsembleSolver__init_allSolvers'))
    at = ens_id or 0
    conj, env = ['len(r) == %d' % k], dict(r=r, proto=proto, old=old)
    for i in range(k):
        if existing == i:
            conj.append('same(r[%d], old)' % i)
        else:
            conj.append('not same(r[%d], proto) and r[%d].id == %d and not same(r[%d].population, proto.population) '
                        'and not same(r[%d]._fcalls, proto._fcalls)' % (i, i, i + at, i, i))
            conj += ['not same(r[%d], r[%d])' % (i, j) for j in range(i)]
    h.check('one-independent-member-per-slot-with-its-own-id', ' and '.join(conj), **env)
    h.check('the-list-returned-is-the-ensembles-own-list', 'same(r, s._allSolvers)', r=r, s=s)


def _ens_run(h, method):
    """the member hand-off of _Step / _Solve (twins): on a NEW ensemble member i is started at the i-th point of
    _InitialPoints() (and gets its strict ranges re-applied in the ENSEMBLE's clip mode); on an ensemble that has run,
    no member is re-initialised; every member is advanced exactly once through the map with the caller's callback; the
    results go to __update_allSolvers and then __update_state"""
    if not h.is_sym():
        h.unsupported('symbolic only')
    new = h.choice('ensemble_is_new', [True, False])
    strict = h.choice('members_use_strict_ranges', [False, True])
    # a configured solver INSTANCE given as nested solver has no objective of its own (only _Solve hands one over)
    bare = h.choice('members_are_configured_instances_without_objective', [False, True]) if method == '_Solve' else False
    pts = [h.vec('start0', 2), h.vec('start1', 2)]
    log = []
    members = []
    for i in range(2):
        members.append(h.obj(None, id=i, _useStrictRange=strict, _strictMin=h.vec('mn%d' % i, 2), _strictMax=h.vec('mx%d' % i, 2),
                             _useTightRange=None, _useClipRange='member-clip-mode', _live=True,
                             _cost=h.tup(None, None if bare else h.fn('MEMBER_OBJECTIVE', ret='real'), None),
                             _stepmon=None, _evalmon=None))
    cb = h.fn('CALLBACK', ret='none')
    cost = h.fn('DECORATED_COST', ret='real')        # what _bootstrap_objective returns: bounds / penalty / monitors applied
    raw = h.fn('RAW_USER_COST', ret='real')
    s = h.obj(ENS, _allSolvers=h.clist([None, None] if new else list(members)), _useClipRange='ensemble-clip-mode', _mapconfig=h.dict(),
              _evalmon=None, _stepmon=None, _cost=h.tup(None, raw, None), _live=True, id=None)

    def member_method(name):
        def f(I, c, args, kwargs):
            log.append((name, args[0], list(args[1:]), dict(kwargs)))
            return False if name == 'Terminated' else None
        return f

    class _MemberCls:
        pass
    # members are plain objects: give them the methods the workers call, as abstract functions bound by hand
    for m in members:
        for nm in ('SetInitialPoints', 'SetStrictRanges', 'Terminated', 'Step', 'Solve', 'SetObjective'):
            h.set_field(m, nm, h.fn('%s_%d' % (nm, h.field(m, 'id')),
                                    sym=(lambda nm_, m_: (lambda H, I, args, kwargs: (log.append((nm_, m_, list(args), dict(kwargs))), False if nm_ == 'Terminated' else None)[1]))(nm, m)))

    def the_map(H, I, args, kwargs):
        f = args[0]
        cols = [I.models.concrete_iter(I, a) for a in args[1:]]
        return I.st.alloc('clist', [I.call(f, list(row), {}) for row in zip(*cols)])
    h.set_field(s, '_map', h.fn('MAP', sym=the_map))
    order = []
    A_ = 'mystic/abstract_solver.py'
    h.set_summaries({
        (E, 'AbstractEnsembleSolver._process_inputs'): lambda I, c, a, k: I.st.alloc('dict', {'callback': cb, 'disp': False}),
        (E, 'AbstractEnsembleSolver._InitialPoints'): lambda I, c, a, k: (order.append('points'), I.st.alloc('clist', list(pts)))[1],
        (E, 'AbstractEnsembleSolver.__init_allSolvers'): lambda I, c, a, k: (order.append('members'), I.st.heap.__setitem__(I.st.heap[a[0]]['_allSolvers'], list(members)), I.st.heap[a[0]]['_allSolvers'])[2],
        (E, 'AbstractEnsembleSolver.__update_allSolvers'): lambda I, c, a, k: order.append('collect'),
        (E, 'AbstractEnsembleSolver.__update_state'): lambda I, c, a, k: order.append('reduce'),
        (E, 'AbstractEnsembleSolver.Terminated'): lambda I, c, a, k: (order.append('stop-message'), '')[1],
        (A_, 'AbstractSolver._bootstrap_objective'): lambda I, c, a, k: cost,
        (A_, 'AbstractSolver.__save_state'): lambda I, c, a, k: order.append('forced-dump' if (k.get('force') is True or (len(a) > 1 and a[1] is True)) else 'periodic-dump'),
        ('mystic/tools.py', 'isNull'): lambda I, c, a, k: True,
    })
    if method == '_Step':
        h.call(h.getattr(s, '_Step'), cost, None, callback=cb)
    else:
        h.call(h.getattr(s, '_Solve'), cost, None, callback=cb, disp=False)
    adv = 'Step' if method == '_Step' else 'Solve'
    inits = [(m, a) for (nm, m, a, k) in log if nm == 'SetInitialPoints']
    ranges = [(m, a, k) for (nm, m, a, k) in log if nm == 'SetStrictRanges']
    advs = [(m, a, k) for (nm, m, a, k) in log if nm == adv]
    if new:
        h.check('C09/each-member-started-at-its-own-initial-point', 'ok',
                ok=(len(inits) == 2 and all(inits[i][0] is members[i] and inits[i][1][0] is pts[i] for i in range(2))))
        h.check('C07/ranges-re-applied-in-the-ensembles-clip-mode-in-both-run-modes', 'ok',
                ok=(len(ranges) == (2 if strict else 0) and all(r[2].get('clip') == 'ensemble-clip-mode' for r in ranges)))
    else:
        h.check('C09/members-of-a-running-ensemble-are-not-re-initialised', 'ok', ok=(not inits and not ranges))
    h.check('C09/every-member-advanced-once-with-the-callers-callback', 'ok',
            ok=(len(advs) == 2 and [a[0] for a in advs] == members and all(a[2].get('callback') is cb for a in advs)))
    core = [o for o in order if o in ('collect', 'reduce')]
    h.check('C09/results-collected-then-reduced-to-the-best-member', 'ok', ok=(core == ['collect', 'reduce']))
    if method == '_Solve':
        # the restart file written when the ensemble has run holds the ensemble as _Solve leaves it: members collected,
        # best member's state taken over, stop message logged -- all before the (forced) dump
        h.check('C06/the-forced-restart-dump-comes-last-after-the-state-is-reduced-and-the-stop-is-logged', 'ok',
                ok=(order.count('forced-dump') == 1 and order[-1] == 'forced-dump' and 'reduce' in order and 'stop-message' in order))
    objs = [(m, a) for (nm, m, a, k) in log if nm == 'SetObjective']
    if bare:
        # such members run on the ENSEMBLE's decorated objective: the only way the ensemble's strict ranges, penalty and
        # monitors reach them
        h.check('C02/members-without-objective-get-the-ensembles-decorated-objective', 'ok',
                ok=(len(objs) == 2 and [o[0] for o in objs] == members and all(o[1][0] is cost for o in objs)))
    else:
        h.check('C09/members-with-their-own-objective-keep-it', 'ok', ok=(not objs))


contract('C09/ensemble._Step/member-hand-off', ['C09', 'C07', 'C03'], ENS + '._Step', native=False)(lambda h: _ens_run(h, '_Step'))
contract('C09/ensemble._Solve/member-hand-off', ['C09', 'C07', 'C02', 'C01', 'C03', 'C06'], ENS + '._Solve', native=False)(lambda h: _ens_run(h, '_Solve'))


@contract('C09/BuckshotSolver._InitialPoints', ['C09', 'C02'], 'mystic/ensemble.py::BuckshotSolver._InitialPoints', native=False)
def buckshot_points(h):
    """exactly npts starting points, each of the problem's dimension and inside the strict ranges [lower, upper]
    (uniform sampling: whatever numbers in [0, 1) the generator yields)"""
    if not h.is_sym():
        h.unsupported('symbolic only (the random generator is abstract)')
    from pyvc.values import ModRef
    D = h.choice('dimension', [1, 2, 3])
    npts = h.choice('npts', [1, 2, 4])
    lo, up = h.vec('lower', D), h.vec('upper', D)
    h.assume(' and '.join('lo[%d] <= up[%d]' % (i, i) for i in range(D)), lo=lo, up=up)
    s = h.obj('mystic/ensemble.py::BuckshotSolver', nDim=D, _npts=npts, _dist=None,
              _strictMin=h.clist(list(h.st.heap[lo])), _strictMax=h.clist(list(h.st.heap[up])),
              _defaultMin=h.clist([-1e3] * D), _defaultMax=h.clist([1e3] * D))
    h.set_summaries({('mystic/tools.py', 'random_state'): lambda I, c, a, k: ModRef('numpy.random')})
    pts = h.call(h.getattr(s, '_InitialPoints'))
    h.check('exactly-as-many-members-as-requested', 'len(pts) == n', pts=pts, n=npts)
    h.check('each-member-starts-inside-the-strict-ranges',
            ' and '.join('len(pts[%d]) == %d and lo[%d] <= pts[%d][%d] and pts[%d][%d] <= up[%d]' % (k, D, d, k, d, k, d, d)
                         for k in range(npts) for d in range(D)), pts=pts, lo=lo, up=up)


@contract('C09/ensemble.accounting', ['C09', 'C04'], ENS + '.__all_evals', native=False)
def accounting(h):
    """the ensemble's per-member and total counters are exactly the members' own counters (evaluations, generations, best
    energy, best solution) and their sums -- whatever monitors the members carry; an empty slot counts 0"""
    if not h.is_sym():
        h.unsupported('symbolic only')
    k = h.choice('members', [1, 2, 3])
    hole = h.choice('one_slot_still_empty', [False, True]) if k > 1 else False
    members = []
    for i in range(k):
        if hole and i == 1:
            members.append(None)
            continue
        ev, gen = h.int('evals_%d' % i), h.int('gens_%d' % i)
        h.assume('ev >= 0 and gen >= 0', ev=ev, gen=gen)
        monlen = h.choice('evaluation_monitor_records_%d' % i, [0, 5])
        # the evaluation monitor may hold legacy records (a reused / pre-filled monitor): irrelevant for the counters
        mon = h.obj('mystic/monitors.py::Monitor', _x=h.clist([0.0] * monlen), _y=h.clist([0.0] * monlen), _id=h.clist([None] * monlen),
                    _info=h.clist([]), k=None, _npts=None, label='ChiSq')
        members.append(h.obj(None, evaluations=ev, generations=gen, bestEnergy=h.real('bestE_%d' % i), bestSolution=h.vec('best_%d' % i, 2),
                             _evalmon=mon, _stepmon=mon))
    s = h.obj(ENS, _allSolvers=h.clist(members))
    env = dict(s=s)
    conj_e, conj_g, conj_b = [], [], []
    for i, m in enumerate(members):
        env['m%d' % i] = m
        if m is None:
            conj_e.append('s._all_evals[%d] == 0' % i)
            conj_g.append('s._all_iters[%d] == 0' % i)
            conj_b.append('s._all_bestEnergy[%d] is None and s._all_bestSolution[%d] is None' % (i, i))
        else:
            conj_e.append('s._all_evals[%d] == m%d.evaluations' % (i, i))
            conj_g.append('s._all_iters[%d] == m%d.generations' % (i, i))
            conj_b.append('s._all_bestEnergy[%d] == m%d.bestEnergy and same(s._all_bestSolution[%d], m%d.bestSolution)' % (i, i, i, i))
    live = [i for i, m in enumerate(members) if m is not None]
    h.check('per-member-evaluation-counts-are-the-members-own', 'len(s._all_evals) == %d and ' % k + ' and '.join(conj_e), **env)
    h.check('per-member-generation-counts-are-the-members-own', 'len(s._all_iters) == %d and ' % k + ' and '.join(conj_g), **env)
    h.check('per-member-best-energy-and-solution-are-the-members-own', ' and '.join(conj_b), **env)
    h.check('total-evaluations-is-the-sum-over-members', 's._total_evals == ' + (' + '.join('m%d.evaluations' % i for i in live) or '0'), **env)
    h.check('total-generations-is-the-sum-over-members', 's._total_iters == ' + (' + '.join('m%d.generations' % i for i in live) or '0'), **env)


@contract('C05/ensemble.Terminated', ['C05', 'C09'], ENS + '.Terminated', native=False)
def ensemble_terminated(h):
    """the ensemble override: with all=None (what Step / Solve ask) the ensemble is NOT terminated while any member is
    still running or any slot is empty; once every member has stopped the verdict is the best member's (limits first,
    then the exit request, then its termination condition) and the message names a condition that is true of that
    member; with all=True one verdict per member"""
    if not h.is_sym():
        h.unsupported('symbolic only')
    from pyvc.values import SStr
    mode = h.choice('all', ['None', 'True', 'False'])
    info = h.choice('info', [False, True])
    k = 2
    hole = h.choice('one_slot_still_empty', [False, True])
    running = [h.bool('member_%d_terminated' % i) for i in range(k)]
    asked = []
    members = []
    for i in range(k):
        if hole and i == 1:
            members.append(None)
            continue
        def term(H, I, args, kwargs, i=i):
            asked.append(i)
            inf = kwargs.get('info', args[1] if len(args) > 1 else False)
            return (SStr('member-%d-message' % i) if I.st.branch(H.I.truth_term(running[i])) else '') if inf else running[i]
        members.append(h.obj(None, Terminated=h.fn('MEMBER_TERMINATED_%d' % i, sym=term)))
    fc, mf, mi, gens = h.int('best_evaluations'), h.int('best_maxfun'), h.int('best_maxiter'), h.int('best_generations')
    h.assume('fc >= 0 and gens >= 0 and mf >= 0 and mi >= 0', fc=fc, gens=gens, mf=mf, mi=mi)
    early = h.bool('best_exit_requested')
    tb = h.bool('best_termination_condition_holds')

    def best_term(H, I, args, kwargs):
        return SStr('best-termination-message') if I.st.branch(H.I.truth_term(tb)) else ''
    best = h.obj(None, _termination=h.fn('BEST_TERMINATION', sym=best_term), _fcalls=h.clist([fc]), _maxfun=mf, _maxiter=mi,
                 generations=gens, _EARLYEXIT=early, bestEnergy=h.real('bestE'))
    s = h.obj(ENS, _allSolvers=h.clist(members), _bestSolver=best, _termination=None, _total_evals=0)
    h.set_summaries({(E, 'AbstractEnsembleSolver.__update_state'): lambda I, c, a, kk: None,
                     ('mystic/abstract_solver.py', 'AbstractSolver._SetEvaluationLimits'): lambda I, c, a, kk: None})
    allv = {'None': None, 'True': True, 'False': False}[mode]
    r = h.call(h.getattr(s, 'Terminated'), False, info, None, allv)
    live = [i for i, m in enumerate(members) if m is not None]
    if mode == 'True':
        h.check('one-verdict-per-member-empty-slots-not-terminated', 'ok',
                ok=(len(h.st.heap[r]) == k and all((h.st.heap[r][i] in ('', False)) for i in range(k) if members[i] is None)))
        return
    env = dict(r=r, fc=fc, mf=mf, mi=mi, gens=gens, early=early, tb=tb, **{'t%d' % i: running[i] for i in range(k)})
    everyone = ' and '.join('t%d' % i for i in live) if not hole else 'False'
    stop_best = '(fc >= mf or gens >= mi or early or tb)'
    if mode == 'None':
        h.check('not-terminated-while-a-member-runs-or-a-slot-is-empty', 'implies(not (%s), not truthy(r))' % everyone, **env)
        h.check('once-all-members-stopped-the-verdict-is-the-best-members', 'implies(%s, iff(truthy(r), %s))' % (everyone, stop_best), **env)
    else:
        h.check('verdict-is-the-best-members', 'iff(truthy(r), %s)' % stop_best, **env)
    if info:
        kind = 'lim' if ((isinstance(r, SStr) and r.parts and 'EvaluationLimits' in str(r.parts[0])) or (isinstance(r, str) and r.startswith('EvaluationLimits'))) else \
               'sig' if ((isinstance(r, SStr) and r.parts and 'SolverInterrupt' in str(r.parts[0])) or (isinstance(r, str) and r.startswith('SolverInterrupt'))) else \
               'term' if (isinstance(r, SStr) or (isinstance(r, str) and r != '')) else 'none'
        h.check('message-names-a-condition-true-of-the-best-member',
                "implies(kind == 'lim', fc >= mf or gens >= mi) and implies(kind == 'sig', early) and implies(kind == 'term', tb)", kind=kind, **env)
    else:
        h.check('result-is-bool', 'r is True or r is False', r=r)


@contract('C09/LatticeSolver._InitialPoints/integer-nbins', ['C09'], 'mystic/ensemble.py::LatticeSolver._InitialPoints', native=False)
def lattice_points_integer_bins(h):
    """nbins given as ONE integer N (the total): exactly N members are started -- also for a prime N -- each at the centre
    of its own cell of some N-cell grid inside the ranges.  randomly_bin is replaced by its specification: a factorisation
    of N over the dimensions when exact=True, of N-1 for a prime N > 3 when exact=False."""
    if not h.is_sym():
        h.unsupported('symbolic only')
    N = h.choice('nbins', [1, 4, 5, 6, 7])
    D = 2
    lo, up = h.vec('lower', D), h.vec('upper', D)
    h.assume(' and '.join('lo[%d] <= up[%d]' % (i, i) for i in range(D)), lo=lo, up=up)
    fact = {1: (1, 1), 4: (2, 2), 5: (5, 1), 6: (2, 3), 7: (1, 7)}

    def randomly_bin(I, c, args, kwargs):
        n = args[0]
        exact = kwargs.get('exact', args[3] if len(args) > 3 else True)
        if not exact and n > 3 and n in (5, 7):
            n = n - 1
        return I.st.alloc('clist', list(fact[n]))
    h.set_summaries({('mystic/math/grid.py', 'randomly_bin'): randomly_bin})
    s = h.obj('mystic/ensemble.py::LatticeSolver', nDim=D, _nbins=N, _npts=N, _dist=None,
              _strictMin=h.clist(list(h.st.heap[lo])), _strictMax=h.clist(list(h.st.heap[up])),
              _defaultMin=h.clist([-1e3] * D), _defaultMax=h.clist([1e3] * D))
    pts = h.call(h.getattr(s, '_InitialPoints'))
    h.check('exactly-as-many-members-as-bins-requested', 'len(pts) == n', pts=pts, n=N)
    h.check('every-member-starts-inside-the-ranges',
            'forall(0, len(pts), lambda k: lo[0] <= pts[k][0] and pts[k][0] <= up[0] and lo[1] <= pts[k][1] and pts[k][1] <= up[1])',
            pts=pts, lo=lo, up=up)


@contract('C07/ensemble.SetNestedSolver', ['C07', 'C09'], ENS + '.SetNestedSolver', native=False)
def set_nested_solver(h):
    """SetNestedSolver(solver) records the solver class or the configured instance and NOTHING else: whatever the ensemble
    was configured with before (strict ranges, limits, monitors) is neither read into the given object nor changed, so the
    call commutes with the other Set* calls; a configured instance is not modified"""
    if not h.is_sym():
        h.unsupported('symbolic only')
    kind = h.choice('nested_solver_given_as', ['configured-instance', 'class'])
    strict = h.choice('ensemble_has_strict_ranges', [True, False])
    calls = []
    inst_fields = dict(_useStrictRange=False, _strictMin=h.clist([]), _strictMax=h.clist([]), nDim=2, tag='NESTED')
    if kind == 'configured-instance':
        nested = h.obj(None, **inst_fields)
        for nm in ('SetStrictRanges', 'SetEvaluationLimits', 'SetConstraints', 'SetPenalty'):
            h.set_field(nested, nm, h.fn('NESTED_' + nm, sym=(lambda nm_: (lambda H, I, a, k: calls.append(nm_)))(nm)))
        before = dict(h.st.heap[nested])
    else:
        nested = h.get('mystic/scipy_optimize.py::PowellDirectionalSolver')
    mn, mx = h.vec('strictMin', 2, nd=True), h.vec('strictMax', 2, nd=True)
    fields = dict(_solver=h.get('mystic/scipy_optimize.py::NelderMeadSimplexSolver'), _useStrictRange=strict, _strictMin=mn, _strictMax=mx,
                  _useTightRange=None, _useClipRange=None, _maxiter=h.int('maxiter'), _maxfun=h.int('maxfun'), nDim=2, _live=h.bool('live'))
    s = h.obj(ENS, **fields)
    h.call(h.getattr(s, 'SetNestedSolver'), nested)
    h.check('the-given-solver-is-recorded', 'same(s._solver, n)', s=s, n=nested)
    cell = h.st.heap[s]
    h.check('nothing-else-of-the-ensemble-changes', 'ok', ok=all(cell[f] is fields[f] for f in fields if f != '_solver') and set(cell) == set(fields))
    if kind == 'configured-instance':
        now = h.st.heap[nested]
        h.check('the-configured-instance-is-not-touched', 'ok', ok=(not calls and set(now) == set(before) and all(now[f] is before[f] for f in before)))


@contract('C09/samples._random_samples', ['C09', 'C02'], 'mystic/math/samples.py::_random_samples', native=False)
def random_samples_uniform(h):
    """the uniform sampler behind random_samples / samplepts / BuckshotSolver._InitialPoints: one row of npts values per
    coordinate, every value inside that coordinate's range [lb[i], ub[i]] -- for ranges of any sign (two coordinates, three
    points; the draws are arbitrary numbers in [0, 1))"""
    if not h.is_sym():
        h.unsupported('symbolic only')
    from pyvc.values import ModRef
    lb, ub = h.vec('lb', 2), h.vec('ub', 2)
    h.assume('lb[0] <= ub[0] and lb[1] <= ub[1]', lb=lb, ub=ub)
    h.set_summaries({('mystic/tools.py', 'random_state'): lambda I, c, a, k: ModRef('numpy.random')})
    pts = h.call(h.get('mystic/math/samples.py::_random_samples'), lb, ub, 3)
    h.check('one-row-per-coordinate-npts-values-each', 'len(pts) == 2 and len(pts[0]) == 3 and len(pts[1]) == 3', pts=pts)
    for i in range(2):
        for j in range(3):
            h.check('every-sampled-value-inside-its-range', 'lb[%d] <= pts[%d][%d] and pts[%d][%d] <= ub[%d]' % (i, i, j, i, j, i), pts=pts, lb=lb, ub=ub)


@contract('C09/grid.samplepts', ['C09', 'C02'], 'mystic/math/grid.py::samplepts', native=False)
def samplepts(h):
    """samplepts(lb, ub, npts) without a distribution: a LIST of npts points, each with one coordinate per range and every
    coordinate inside its range (two coordinates, three points) -- what BuckshotSolver starts its members from"""
    if not h.is_sym():
        h.unsupported('symbolic only')
    from pyvc.values import ModRef
    lb, ub = h.vec('lb', 2), h.vec('ub', 2)
    h.assume('lb[0] <= ub[0] and lb[1] <= ub[1]', lb=lb, ub=ub)
    h.set_summaries({('mystic/tools.py', 'random_state'): lambda I, c, a, k: ModRef('numpy.random')})
    pts = h.call(h.get('mystic/math/grid.py::samplepts'), lb, ub, 3)
    h.check('npts-points-of-one-coordinate-per-range', 'len(pts) == 3 and len(pts[0]) == 2 and len(pts[1]) == 2 and len(pts[2]) == 2', pts=pts)
    for j in range(3):
        for i in range(2):
            h.check('every-coordinate-inside-its-range', 'lb[%d] <= pts[%d][%d] and pts[%d][%d] <= ub[%d]' % (i, j, i, j, i, i), pts=pts, lb=lb, ub=ub)
