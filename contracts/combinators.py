"""C17: constraints.and_ / or_ / not_ (inner _constraint).  Members are abstract, deterministic vector maps;
onexit / onfail are abstract and logged, so 'reports success' = 'returned through onexit'."""
from pyvc.contract import contract

K = 'mystic/constraints.py::'


def _vec(h, dim):
    return h.list_real('x') if dim is None else h.vec('x', dim)


def _and(h, n, dim, maxiter, inplace=False, earlier_call=False):
    # members: deterministic vector maps, pure (fresh result) or in place (result written into the argument)
    cs = [h.fn('c%d' % i, ret='same', inplace=inplace) for i in range(n)]
    onexit = h.fn('ONEXIT', ret='same', log='exit')
    onfail = h.fn('ONFAIL', ret='same', log='fail')
    cf = h.call(h.get(K + 'and_'), *cs, maxiter=maxiter, onexit=onexit, onfail=onfail)
    n_ex = n_fl = 0
    if earlier_call:
        # the combinator is an object that is called again and again (every trial point of a solver): the clauses hold for
        # each call, whatever an earlier call on another vector went through
        h.call(cf, h.vec('earlier_x', dim or 1))
        n_ex, n_fl = len(h.log('exit')), len(h.log('fail'))
    x = _vec(h, dim)
    x0 = h.snapshot(x)
    r = h.call(cf, x)
    ex, fl = h.log('exit')[n_ex:], h.log('fail')[n_fl:]
    h.check('exactly-one-of-success-or-failure-path', 'len(ex) + len(fl) == 1', ex=ex, fl=fl)
    h.check('input-not-modified', 'seq_eq(x, x0)', x=x, x0=x0)
    if len(ex) == 1:
        v = ex[0][0]
        for i, c in enumerate(cs):
            h.check('success-implies-fixed-point-of-every-member', 'seq_eq(cv, v)', cv=h.call(c, h.snapshot(v)), v=v)
    h.cover('success', 'len(ex) == 1', ex=ex)
    h.cover('failure', 'len(fl) == 1', fl=fl)


for _n, _d, _m in [(2, None, 1), (2, 1, 2)]:
    contract('C17/constraints.and_/in-place-members,n=%d,dim=%s,maxiter=%d' % (_n, _d or 'any', _m), ['C17', 'C03'],
             K + 'and_._constraint')(lambda h, n=_n, d=_d, m=_m: _and(h, n, d, m, inplace=True))
contract('C17/constraints.and_/n=3,dim=1,maxiter=2', ['C17'], K + 'and_._constraint')(lambda h: _and(h, 3, 1, 2))
contract('C17/constraints.and_/called-again,n=3,dim=1,maxiter=2', ['C17'], K + 'and_._constraint', native=False)(
    lambda h: _and(h, 3, 1, 2, earlier_call=True) if h.is_sym() else h.unsupported('symbolic only'))
contract('C17/constraints.or_/called-again,n=2,dim=1,maxiter=2', ['C17'], K + 'or_._constraint', native=False)(
    lambda h: _or(h, 2, 1, 2, earlier_call=True) if h.is_sym() else h.unsupported('symbolic only'))
contract('C17/constraints.and_/called-again,n=2,dim=1,maxiter=2', ['C17', 'C03'], K + 'and_._constraint', native=False)(
    lambda h: _and(h, 2, 1, 2, earlier_call=True) if h.is_sym() else h.unsupported('symbolic only'))


def _or(h, n, dim, maxiter, inplace=False, earlier_call=False):
    cs = [h.fn('c%d' % i, ret='same', inplace=inplace) for i in range(n)]
    onexit = h.fn('ONEXIT', ret='same', log='exit')
    onfail = h.fn('ONFAIL', ret='same', log='fail')
    cf = h.call(h.get(K + 'or_'), *cs, maxiter=maxiter, onexit=onexit, onfail=onfail)
    n_ex = n_fl = 0
    if earlier_call:
        h.call(cf, h.vec('earlier_x', dim or 1))
        n_ex, n_fl = len(h.log('exit')), len(h.log('fail'))
    x = _vec(h, dim)
    x0 = h.snapshot(x)
    r = h.call(cf, x)
    ex, fl = h.log('exit')[n_ex:], h.log('fail')[n_fl:]
    h.check('exactly-one-of-success-or-failure-path', 'len(ex) + len(fl) == 1', ex=ex, fl=fl)
    h.check('input-not-modified', 'seq_eq(x, x0)', x=x, x0=x0)
    if len(ex) == 1:
        v = ex[0][0]
        conds = [h.ev('seq_eq(cv, v)', cv=h.call(c, h.snapshot(v)), v=v) for c in cs]
        env = {'e%d' % i: e for i, e in enumerate(conds)}
        h.check('success-implies-fixed-point-of-some-member', ' or '.join('e%d' % i for i in range(n)), **env)
    h.cover('success', 'len(ex) == 1', ex=ex)
    h.cover('failure', 'len(fl) == 1', fl=fl)


def _not(h, dim, maxiter, inplace=False):
    c = h.fn('c', ret='same', inplace=inplace)
    onexit = h.fn('ONEXIT', ret='same', log='exit')
    onfail = h.fn('ONFAIL', ret='same', log='fail')
    cf = h.call(h.get(K + 'not_'), c, maxiter=maxiter, onexit=onexit, onfail=onfail)
    x = _vec(h, dim)
    x0 = h.snapshot(x)
    r = h.call(cf, x)
    ex, fl = h.log('exit'), h.log('fail')
    h.check('exactly-one-of-success-or-failure-path', 'len(ex) + len(fl) == 1', ex=ex, fl=fl)
    h.check('input-not-modified', 'seq_eq(x, x0)', x=x, x0=x0)
    if len(ex) == 1:
        v = ex[0][0]
        h.check('success-implies-member-changes-it', 'not seq_eq(cv, v)', cv=h.call(c, h.snapshot(v)), v=v)
    h.cover('success', 'len(ex) == 1', ex=ex)
    h.cover('failure', 'len(fl) == 1', fl=fl)


for _n, _d, _m in [(1, None, 2), (2, None, 1), (2, None, 2), (2, 1, 2), (3, 1, 1)]:
    contract('C17/constraints.and_/n=%d,dim=%s,maxiter=%d' % (_n, _d or 'any', _m), ['C17'], K + 'and_._constraint',
             native=(_d is not None or True))(lambda h, n=_n, d=_d, m=_m: _and(h, n, d, m))
for _n, _d, _m in [(1, None, 2), (2, None, 2), (2, 1, 2)]:
    contract('C17/constraints.or_/n=%d,dim=%s,maxiter=%d' % (_n, _d or 'any', _m), ['C17'], K + 'or_._constraint')(
        lambda h, n=_n, d=_d, m=_m: _or(h, n, d, m))
for _d, _m in [(None, 2), (1, 3)]:
    contract('C17/constraints.not_/dim=%s,maxiter=%d' % (_d or 'any', _m), ['C17'], K + 'not_._constraint')(
        lambda h, d=_d, m=_m: _not(h, d, m))

# members that update their argument in place and return it (everything symbolic.generate_constraint builds is one):
# the fixed-point test must compare two different vectors, never an object with itself
for _n, _d, _m in [(1, None, 2), (2, None, 2), (2, 1, 3)]:
    contract('C17/constraints.or_/in-place-members,n=%d,dim=%s,maxiter=%d' % (_n, _d or 'any', _m), ['C17', 'C03'],
             K + 'or_._constraint')(lambda h, n=_n, d=_d, m=_m: _or(h, n, d, m, inplace=True))
for _d, _m in [(None, 2), (1, 3)]:
    contract('C17/constraints.not_/in-place-member,dim=%s,maxiter=%d' % (_d or 'any', _m), ['C17', 'C03'],
             K + 'not_._constraint')(lambda h, d=_d, m=_m: _not(h, d, m, inplace=True))


def _one_handler(h, which, handler):
    """only ONE of onexit / onfail given (both are optional): with only `onfail`, a run that gives up still takes the
    failure path and a successful one returns a vector the members leave unchanged (all / some / for not_: changed by
    the member); with only `onexit`, success goes through it and a failed run just returns its last vector"""
    if not h.is_sym():
        h.unsupported('symbolic only')
    n, dim, maxiter = (1 if which == 'not_' else 2), 1, 2
    cs = [h.fn('c%d' % i, ret='same') for i in range(n)]
    hd = h.fn('HANDLER', ret='same', log='handled')
    cf = h.call(h.get(K + which), *cs, maxiter=maxiter, **{handler: hd})
    x = h.vec('x', dim)
    r = h.call(cf, x)
    hl = h.log('handled')
    h.check('the-handler-is-called-at-most-once', 'len(hl) <= 1', hl=hl)
    fixed = [h.ev('seq_eq(cv, v)', cv=h.call(c, h.snapshot(r)), v=r) for c in cs]
    env = {'e%d' % i: e for i, e in enumerate(fixed)}
    ok = {'and_': ' and '.join('e%d' % i for i in range(n)), 'or_': ' or '.join('e%d' % i for i in range(n)), 'not_': 'not e0'}[which]
    if handler == 'onfail':
        if len(hl) == 0:
            # not reported as failed  =>  it is a success: the returned vector satisfies the success clause
            h.check('a-run-that-does-not-take-the-failure-path-returns-a-vector-satisfying-the-success-clause', ok, **env)
        h.cover('failure-path-taken', 'n == 1', n=len(hl))
        h.cover('success', 'n == 0', n=len(hl))
    else:
        if len(hl) == 1:
            v = hl[0][0]
            fx = [h.ev('seq_eq(cv, v)', cv=h.call(c, h.snapshot(v)), v=v) for c in cs]
            env2 = {'e%d' % i: e for i, e in enumerate(fx)}
            h.check('success-path-only-at-a-vector-satisfying-the-success-clause', ok, **env2)


for _w in ('and_', 'or_', 'not_'):
    for _hd in ('onfail', 'onexit'):
        contract('C17/constraints.%s/only-%s' % (_w, _hd), ['C17'], K + _w + '._constraint', native=False)(
            lambda h, w=_w, d=_hd: _one_handler(h, w, d))
