"""C01 / C05: the one-line interfaces fmin, fmin_powell (scipy_optimize.py), diffev, diffev2 (differential_evolution.py).

Everything the wrapper calls on the solver it builds is abstract here (constructor, Set*, Solve: each under its own
contract elsewhere); Solve leaves the solver in an ARBITRARY final state (any best solution / energy, any counters,
any integer limits).  What is proved about the wrapper's own code:
  * it returns exactly the solver's reported best solution, best energy, generation count and evaluation count (C01);
  * warnflag is 1 iff evaluations >= the evaluation limit, 2 iff not that and generations >= the generation limit,
    0 otherwise -- i.e. the flag names a condition that is true of the final state (C05);
  * Solve is invoked exactly once, with the caller's cost and callback, after every setting has been applied."""
from pyvc.contract import contract

SO = 'mystic/scipy_optimize.py'
DE = 'mystic/differential_evolution.py'
AS = 'mystic/abstract_solver.py'
MONF = 'mystic/monitors.py'

SET_METHODS = ['SetInitialPoints', 'SetRandomInitialPoints', 'SetEvaluationLimits', 'SetEvaluationMonitor',
               'SetGenerationMonitor', 'SetPenalty', 'SetConstraints', 'SetStrictRanges', 'SetMapper',
               'enable_signal_handler', 'Solution', 'SetTermination']


def _wrapper(h, anchor, classes, call, nret=5, pairs=False):
    if not h.is_sym():
        h.unsupported('symbolic only (whole runs of the wrappers are compared natively by rtc/c01, c05, c08)')
    x0_form = h.choice('x0_given_as', ['point', 'min-max-pairs']) if pairs else 'point'
    best = h.list_real('best_solution', nd=True)
    h.assume('len(best) >= 2', best=best)
    bestE = h.real('best_energy', inf=True)
    gens, evals, maxiter, maxfun = h.int('generations'), h.int('evaluations'), h.int('maxiter_final'), h.int('maxfun_final')
    h.assume('gens >= 0 and evals >= 0', gens=gens, evals=evals)
    cost = h.fn('COST', ret='real')
    cb = h.fn('CALLBACK', ret='none')
    log = {'solve': [], 'sets_after_solve': 0, 'solver': None}

    def init(I, c, args, kwargs):
        s = args[0]
        log['solver'] = s
        cell = I.st.heap[s]
        cell.update(_stepmon=I.st.alloc('obj', {'_x': I.st.alloc('clist', [])}), id=None)
        return None

    def solve(I, c, args, kwargs):
        s = args[0]
        log['solve'].append((args[1] if len(args) > 1 else kwargs.get('cost'), kwargs.get('callback')))
        # arbitrary final state
        n = I.st.fresh('stepmon_records', 'int')
        I.st.assume(n.t == gens.t + 1)
        cell = I.st.heap[s]
        z3 = __import__('z3')
        mk = lambda nm: I.st.alloc('slist', {'len': n.t, 'arr': z3.Array(nm, z3.IntSort(), z3.RealSort()), 'ek': 'real'})      # noqa: E731
        cell.update(_bestSolution=best, _bestEnergy=bestE, _fcalls=I.st.alloc('clist', [evals]), _maxiter=maxiter, _maxfun=maxfun,
                    _energy_history=None, _solution_history=None, _direc=None,
                    _stepmon=I.st.alloc('obj', {'_x': mk('smx'), '_y': mk('smy'), 'k': None}))
        r = cell['_stepmon']
        r.cls = h.get(MONF + '::Monitor').info
        _ = r.cls.bases
        return None

    starts = []

    def setter(name):
        def f(I, c, args, kwargs):
            if log['solve'] and name != 'Solution':
                log['sets_after_solve'] += 1
            if name == 'SetRandomInitialPoints':
                # assumed contract (proved on the real method: C01/SetRandomInitialPoints/scalar-limits-are-rejected):
                # limits that are plain numbers raise TypeError -- the DE wrappers rely on it to recognise a 2-parameter
                # start POINT, which unpair() turns into two numbers
                from pyvc.values import numkind, PyExc
                lims = list(args[1:3]) + [kwargs[k_] for k_ in ('min', 'max') if k_ in kwargs]
                if any(numkind(v) is not None for v in lims):
                    raise PyExc('TypeError', "object of type 'float' has no len()")
                starts.append(('random', lims))
            if name == 'SetInitialPoints':
                starts.append(('point', list(args[1:2])))
            return None
        return f
    table = {}
    for rel, cls in classes:
        table[(rel, cls + '.__init__')] = init
    table[(AS, 'AbstractSolver.Solve')] = solve
    table[(SO, 'PowellDirectionalSolver.Solve')] = solve
    table[(SO, 'NelderMeadSimplexSolver.Solve')] = solve
    table[(DE, 'DifferentialEvolutionSolver.Solve')] = solve
    table[(DE, 'DifferentialEvolutionSolver2.Solve')] = solve
    for m in SET_METHODS:
        table[(AS, 'AbstractSolver.' + m)] = setter(m)
    table[(DE, 'DifferentialEvolutionSolver.SetConstraints')] = setter('SetConstraints')
    table[(DE, 'DifferentialEvolutionSolver2.SetConstraints')] = setter('SetConstraints')
    h.set_summaries(table)
    if x0_form == 'point':
        x0 = h.vec('x0', 2)
    else:
        lo, hi = [h.real('lo0'), h.real('lo1')], [h.real('hi0'), h.real('hi1')]
        x0 = h.clist([h.tup(lo[0], hi[0]), h.tup(lo[1], hi[1])])
    r = call(h.get(anchor), cost, x0, cb)
    if x0_form == 'point':
        h.check('C01/a-start-point-is-installed-as-the-initial-point-and-nothing-is-drawn-instead', 'ok',
                ok=(len(starts) == 1 and starts[0][0] == 'point' and starts[0][1][0] is x0))
    else:
        ok = len(starts) == 1 and starts[0][0] == 'random' and len(starts[0][1]) == 2
        h.check('C01/min-max-pairs-become-the-limits-of-a-random-start', 'ok', ok=ok)
        if ok:
            h.check('C01/min-max-pairs-become-the-limits-of-a-random-start', 'len(a) == 2 and len(b) == 2 and a[0] == l0 and a[1] == l1 and b[0] == h0 and b[1] == h1',
                    a=starts[0][1][0], b=starts[0][1][1], l0=lo[0], l1=lo[1], h0=hi[0], h1=hi[1])
    e = dict(r=r, best=best, bestE=bestE, gens=gens, evals=evals, maxiter=maxiter, maxfun=maxfun)
    h.check('C05/solve-invoked-once-with-the-callers-cost-and-callback-after-all-settings',
            'n == 1 and late == 0 and ok', n=len(log['solve']), late=log['sets_after_solve'],
            ok=bool(log['solve']) and log['solve'][0][0] is cost and log['solve'][0][1] is cb)
    h.check('C01/returns-the-reported-best-solution-energy-and-counters',
            'len(r) == nret and seq_eq(r[0], best) and r[1] == bestE and r[2] == gens and r[3] == evals', nret=nret, **e)
    h.check('C05/warnflag-names-a-limit-that-is-reached',
            'r[4] == (1 if evals >= maxfun else (2 if gens >= maxiter else 0))', **e)


@contract('C05/fmin', ['C05', 'C01'], SO + '::fmin', native=False)
def fmin(h):
    _wrapper(h, SO + '::fmin', [(SO, 'NelderMeadSimplexSolver')],
             lambda f, cost, x0, cb: h.call(f, cost, x0, full_output=1, disp=0, callback=cb))


@contract('C05/fmin_powell', ['C05', 'C01'], SO + '::fmin_powell', native=False)
def fmin_powell(h):
    _wrapper(h, SO + '::fmin_powell', [(SO, 'PowellDirectionalSolver')],
             lambda f, cost, x0, cb: h.call(f, cost, x0, full_output=1, disp=0, callback=cb), nret=6)


@contract('C05/diffev', ['C05', 'C01'], DE + '::diffev', native=False)
def diffev(h):
    _wrapper(h, DE + '::diffev', [(DE, 'DifferentialEvolutionSolver'), (DE, 'DifferentialEvolutionSolver2')],
             lambda f, cost, x0, cb: h.call(f, cost, x0, 4, full_output=1, disp=0, callback=cb), pairs=True)


@contract('C05/diffev2', ['C05', 'C01'], DE + '::diffev2', native=False)
def diffev2(h):
    _wrapper(h, DE + '::diffev2', [(DE, 'DifferentialEvolutionSolver'), (DE, 'DifferentialEvolutionSolver2')],
             lambda f, cost, x0, cb: h.call(f, cost, x0, 4, full_output=1, disp=0, callback=cb), pairs=True)


# ---------------------------------------------------------------------------- lattice / buckshot / sparsity
EN = 'mystic/ensemble.py'
AE = 'mystic/abstract_ensemble_solver.py'


def _ensemble_wrapper(h, fname, cls):
    """the ensemble one-liners return exactly the ensemble's reported best solution / energy / generation and evaluation
    counts, the TOTAL evaluation count summed over the members, and a warnflag that names a limit which is reached;
    Solve is invoked once with the caller's cost and callback after every setting (bounds, constraints, penalty)"""
    if not h.is_sym():
        h.unsupported('symbolic only')
    best = h.list_real('best_solution', nd=True)
    h.assume('len(best) >= 2', best=best)
    bestE = h.real('best_energy', inf=True)
    gens, evals, maxiter, maxfun = h.int('generations'), h.int('evaluations'), h.int('maxiter_final'), h.int('maxfun_final')
    e1, e2 = h.int('member_1_evaluations'), h.int('member_2_evaluations')
    h.assume('gens >= 0 and evals >= 0 and e1 >= 0 and e2 >= 0', gens=gens, evals=evals, e1=e1, e2=e2)
    cost = h.fn('COST', ret='real')
    cb = h.fn('CALLBACK', ret='none')
    cons, pen = h.fn('CONSTRAINTS', ret='same'), h.fn('PENALTY', ret='real')
    log = {'solve': [], 'sets': [], 'late': 0}

    def init(I, c, args, kwargs):
        I.st.heap[args[0]].update(_stepmon=I.st.alloc('obj', {'_x': I.st.alloc('clist', [])}), id=None)
        return None

    def solve(I, c, args, kwargs):
        s = args[0]
        log['solve'].append((args[1] if len(args) > 1 else kwargs.get('cost'), kwargs.get('callback')))
        n = I.st.fresh('stepmon_records', 'int')
        I.st.assume(n.t == gens.t + 1)
        z3 = __import__('z3')
        mk = lambda nm: I.st.alloc('slist', {'len': n.t, 'arr': z3.Array(nm, z3.IntSort(), z3.RealSort()), 'ek': 'real'})      # noqa: E731
        cell = I.st.heap[s]
        mon = I.st.alloc('obj', {'_x': mk('smx'), '_y': mk('smy'), 'k': None})
        mon.cls = h.get(MONF + '::Monitor').info
        _ = mon.cls.bases
        cell.update(_bestSolution=best, _bestEnergy=bestE, _fcalls=I.st.alloc('clist', [evals]), _maxiter=maxiter, _maxfun=maxfun,
                    _energy_history=None, _solution_history=None, _stepmon=mon,
                    _allSolvers=I.st.alloc('clist', [I.st.alloc('obj', {'evaluations': e1, 'generations': 1}),
                                                     I.st.alloc('obj', {'evaluations': e2, 'generations': 1})]))
        return None

    def setter(name):
        def f(I, c, args, kwargs):
            log['sets'].append((name, list(args[1:]), dict(kwargs)))
            if log['solve'] and name not in ('Solution', 'Terminated'):
                log['late'] += 1
            return '' if name == 'Terminated' else None
        return f
    table = {(EN, cls + '.__init__'): init, (AS, 'AbstractSolver.Solve'): solve, (AE, 'AbstractEnsembleSolver.Terminated'): setter('Terminated')}
    for m in SET_METHODS:
        table[(AS, 'AbstractSolver.' + m)] = setter(m)
    for m in ('SetNestedSolver', 'SetDistribution', 'SetInitialPoints', 'SetRandomInitialPoints'):
        table[(AE, 'AbstractEnsembleSolver.' + m)] = setter(m)
    h.set_summaries(table)
    bounds = h.clist([h.tup(0.0, 1.0), h.tup(-1.0, 2.0)])
    r = h.call(h.get(EN + '::' + fname), cost, 2, 2, bounds=bounds, full_output=1, disp=0, callback=cb, constraints=cons, penalty=pen)
    e = dict(r=r, best=best, bestE=bestE, gens=gens, evals=evals, maxiter=maxiter, maxfun=maxfun, e1=e1, e2=e2)
    h.check('C05/solve-invoked-once-with-the-callers-cost-and-callback-after-all-settings',
            'n == 1 and late == 0 and ok', n=len(log['solve']), late=log['late'],
            ok=bool(log['solve']) and log['solve'][0][0] is cost and log['solve'][0][1] is cb)
    names = [s_[0] for s_ in log['sets']]
    sr = [s_ for s_ in log['sets'] if s_[0] == 'SetStrictRanges']
    h.check('C09/bounds-constraints-and-penalty-given-to-the-ensemble', 'ok',
            ok=(names.count('SetStrictRanges') == 1 and any(s_[0] == 'SetConstraints' and s_[1][0] is cons for s_ in log['sets'])
                and any(s_[0] == 'SetPenalty' and s_[1][0] is pen for s_ in log['sets'])))
    if sr:
        h.check('C02/strict-ranges-are-the-callers-bounds', 'seq_eq(lo, wl) and seq_eq(hi, wh)', lo=sr[0][1][0], hi=sr[0][1][1],
                wl=h.clist([0.0, -1.0]), wh=h.clist([1.0, 2.0]))
    h.check('C01/returns-the-reported-best-solution-energy-and-counters',
            'len(r) == 6 and seq_eq(r[0], best) and r[1] == bestE and r[2] == gens and r[3] == evals', **e)
    h.check('C09/total-evaluation-count-is-the-sum-over-the-members', 'r[5] == e1 + e2', **e)
    h.check('C05/warnflag-names-a-limit-that-is-reached', 'r[4] == (1 if evals >= maxfun else (2 if gens >= maxiter else 0))', **e)


for _f, _c in (('lattice', 'LatticeSolver'), ('buckshot', 'BuckshotSolver'), ('sparsity', 'SparsitySolver')):
    contract('C09/' + _f, ['C09', 'C01', 'C05', 'C02'], EN + '::' + _f, native=False)(lambda h, f=_f, c=_c: _ensemble_wrapper(h, f, c))


@contract('C02/tools.unpair', ['C02', 'C09'], 'mystic/tools.py::unpair', samples=60)
def unpair(h):
    """unpair([(a0, b0), (a1, b1), ...]) == [a0, a1, ...], [b0, b1, ...]: parameter k keeps ITS OWN two limits, in the order
    given (the one-line interfaces turn `bounds=` into strict ranges, and diffev's x0-as-pairs into the limits of the
    random start, through this helper); a None entry stays None; all values, 1..3 parameters"""
    n = h.choice('parameters', [1, 2, 3])
    form = h.choice('pairs_given_as', ['tuples', 'lists', 'with-None'])
    lo = [h.real('lo%d' % k) for k in range(n)]
    hi = [h.real('hi%d' % k) for k in range(n)]
    if form == 'with-None':
        hi = [None] + hi[1:]
    mk = h.tup if form != 'lists' else (lambda a_, b_: h.clist([a_, b_]))
    r = h.call(h.get('mystic/tools.py::unpair'), h.clist([mk(a_, b_) for a_, b_ in zip(lo, hi)]))
    ok = 'len(r) == 2 and len(r[0]) == n and len(r[1]) == n'
    for k in range(n):
        ok += ' and r[0][%d] == lo%d and r[1][%d] %s' % (k, k, k, ('is None' if hi[k] is None else '== hi%d' % k))
    h.check('every-parameter-keeps-its-own-limits-in-the-order-given', ok, r=r, n=n,
            **{'lo%d' % k: lo[k] for k in range(n)}, **{'hi%d' % k: hi[k] for k in range(n) if hi[k] is not None})
