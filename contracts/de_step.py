"""C01 / C03 / C04 / C08: the generation loop of DifferentialEvolutionSolver._Step and
DifferentialEvolutionSolver2._Step (Appendix A.4).

Abstract (uninterpreted) callables, nothing else assumed about them:
  E     -- the decorated objective returned by _bootstrap_objective (bounds guard + penalty + reducer around the
           counted raw cost: its own algebra is proved in contracts/tools_wrap.py); finite or +inf
  CONS  -- the constraints callable in force (self._constraints, or and_(constraints, strictbounds) -- and_ is
           under contract in contracts/combinators.py); deterministic and idempotent: CONS(CONS(v)) == CONS(v)
  STRATEGY -- writes trialSolution (row `candidate` for the map solver) and nothing else (frame proved in
           contracts/strategy.py)
Ghost state: GH.evals = number of calls of E; EVALD(v) = "E has been called at a vector with the contents of v"
(monotone, so a static predicate: it is only ever *assumed* at a call of E).

Representation invariant Inv(self):
  members:  for every c:  popEnergy[c] is inf  or  (popEnergy[c] == E(population[c]) and CONS(population[c]) == population[c]
                                                    and EVALD(population[c]))
  best:     bestEnergy is inf  or  (bestEnergy == E(bestSolution) and CONS(bestSolution) == bestSolution and EVALD(bestSolution))
  order:    bestEnergy <= popEnergy[c] for every c
"""
import z3
from pyvc.contract import contract, loop
from pyvc.values import SV, Ref, PyExc
from pyvc import models as Mo

DE = 'mystic/differential_evolution.py'
AS = 'mystic/abstract_solver.py'
MONF = 'mystic/monitors.py'
MON = MONF + '::Monitor'

MEMBER = ('isinf(self.popEnergy[c]) or (self.popEnergy[c] == E(self.population[c]) and FIX(self.population[c]) '
          'and EVALD(self.population[c]))')
INV_MEMBERS = 'forall(0, self.nPop, lambda c: %s)' % MEMBER
INV_BEST = ('isinf(self.bestEnergy) or (self.bestEnergy == E(self.bestSolution) and FIX(self.bestSolution) '
            'and EVALD(self.bestSolution))')
INV_ORDER = 'forall(0, self.nPop, lambda c: self.bestEnergy <= self.popEnergy[c])'
SHAPES = 'len(self.popEnergy) == self.nPop and len(self.bestSolution) == self.nDim'


def _spec_functions(h):
    """E, CONS (with idempotence), FIX, EVALD as spec functions + the effectful versions handed to the code"""
    e_pure = h.fn('E', ret='xreal')
    cons_pure = h.fn('CONS', ret='same')
    gh = h.obj(None, evals=0, cb_calls=0, records=0, saved_at=-1, saves=0)

    def arr_of(I, v):
        ln, arr, ek = Mo.to_slist(I, v)
        return ln, Mo._coerce_arr(arr, ek, 'real')

    if h.is_sym():
        evald = z3.Function('EVALD', z3.IntSort(), z3.ArraySort(z3.IntSort(), z3.RealSort()), z3.BoolSort())

        def fix_sym(H, I, args, kwargs):
            ln, arr = arr_of(I, args[0])
            r = I.call(cons_pure, [args[0]], {})
            _, rarr = arr_of(I, r)
            return SV(rarr == arr, 'bool')

        def evald_sym(H, I, args, kwargs):
            ln, arr = arr_of(I, args[0])
            return SV(evald(ln, arr), 'bool')

        def cons_sym(H, I, args, kwargs):
            r = I.call(cons_pure, [args[0]], {})
            rr = I.call(cons_pure, [r], {})
            _, a1 = arr_of(I, r)
            _, a2 = arr_of(I, rr)
            I.st.assume(a1 == a2)           # idempotence, instantiated at this application
            I.st.assumptions.add('constraints are deterministic and idempotent: CONS(CONS(v)) == CONS(v) (hypothesis of C01/C03)')
            return r

        def cost_sym(H, I, args, kwargs):
            x = args[0]
            ln, arr = arr_of(I, x)
            fx = I.call(h.fn('FIX', sym=fix_sym), [x], {})
            I.st.check('objective-evaluated-only-at-constrained-points', I.truth_term(fx),
                       'every argument of the decorated objective is a fixed point of the constraints in force')
            cell = I.st.heap[gh]
            cell['evals'] = I.binop(__import__('ast').Add(), cell['evals'], 1)
            I.st.assume(evald(ln, arr))
            return I.call(e_pure, [x], {})

        def strategy_sym(H, I, args, kwargs):
            inst, cand = args[0], args[1]
            t = I.getattr(inst, 'trialSolution')
            if t.kind == 'rows':
                t = Mo.getitem(I, t, cand)
            I.st.note_write(t)
            if t.kind == 'clist':
                I.st.heap[t] = [I.st.fresh('strategy_trial', 'real') for _ in I.st.heap[t]]
                return None
            c = dict(I.st.heap[t])
            c['arr'] = z3.Array(I.st.fresh_name('strategy_trial'), z3.IntSort(), z3.RealSort())
            I.st.heap[t] = c
            return None

        def callback_sym(H, I, args, kwargs):
            cell = I.st.heap[gh]
            cell['cb_calls'] = I.binop(__import__('ast').Add(), cell['cb_calls'], 1)
            cell['cb_arg'] = args[0]
            return None
        return dict(E=e_pure, CONS=h.fn('CONS_', sym=cons_sym), FIX=h.fn('FIX', sym=fix_sym),
                    EVALD=h.fn('EVALD', sym=evald_sym), COST=h.fn('COST', sym=cost_sym),
                    STRATEGY=h.fn('STRATEGY', sym=strategy_sym), CALLBACK=h.fn('CALLBACK', sym=callback_sym, truthy=h.bool('callback_object_is_truthy')), GH=gh)
    raise NotImplementedError('native mode of the DE step contract is served by rtc (bounded layer)')


def _summaries(sp, with_callback):
    """contracts of the callees of _Step that are not part of the generation loop"""
    def process_inputs(I, c, args, kwargs):
        I.st.heap[sp['GH']]['settings_processed'] = True
        d = {}
        if with_callback:
            d['callback'] = sp['CALLBACK']
        d['strategy'] = sp['STRATEGY']
        return I.st.alloc('dict', d)

    def bootstrap(I, c, args, kwargs):
        # keyword settings of this very Step (constraints=, penalty=, monitors) must be in force for its evaluations
        I.st.check('C03/step-settings-processed-before-the-objective-is-bootstrapped',
                   I.st.heap[sp['GH']].get('settings_processed', False) is True)
        return sp['COST']

    def nothing(I, c, args, kwargs):
        return None

    def save_probe(I, c, args, kwargs):
        cell = I.st.heap[sp['GH']]
        cell['saved_at'] = cell['records']
        cell['saves'] = I.binop(__import__('ast').Add(), cell['saves'], 1)
        return None

    def and_(I, c, args, kwargs):
        return sp['CONS']           # contracts/combinators.py: success => common fixed point; the result is again
        #                             a deterministic idempotent map (hypothesis "compatible with the strict ranges")

    def mon_call(I, c, args, kwargs):
        cell = I.st.heap[sp['GH']]
        cell['records'] = I.binop(__import__('ast').Add(), cell['records'], 1)
        cell['rec_x'], cell['rec_y'] = args[1], args[2]
        cell['rec_x_snapshot'] = Mo.snapshot(I, args[1])
        m = args[0]
        for f in ('_x', '_y'):
            lst = I.st.heap[m][f]
            if lst.kind == 'clist':
                I.st.heap[lst] = list(I.st.heap[lst]) + [0.0]
                continue
            cc = dict(I.st.heap[lst])
            cc['len'] = cc['len'] + 1
            I.st.heap[lst] = cc
        return None
    return {
        (DE, 'DifferentialEvolutionSolver._process_inputs'): process_inputs,
        (DE, 'DifferentialEvolutionSolver2._process_inputs'): process_inputs,
        (AS, 'AbstractSolver._bootstrap_objective'): bootstrap,
        (AS, 'AbstractSolver.__save_state'): save_probe,
        (DE, 'DifferentialEvolutionSolver.UpdateGenealogyRecords'): nothing,
        (DE, 'DifferentialEvolutionSolver2.UpdateGenealogyRecords'): nothing,
        ('mystic/constraints.py', 'and_'): and_,
        (MONF, 'Monitor.__call__'): mon_call,
    }


LOOP1 = loop(DE, 'DifferentialEvolutionSolver._Step', 0, 'for candidate in range(self.nPop)', [
    SHAPES + ' and len(self.trialSolution) == self.nDim',
    INV_MEMBERS,
    INV_BEST,
    INV_ORDER,
    'self.bestEnergy <= entry(self.bestEnergy)',
    # selection (C08) and frame: a member changes only by a strictly lower trial, members not yet visited are untouched
    'forall(0, self.nPop, lambda c: (self.popEnergy[c] == entry(self.popEnergy)[c] and seq_eq(self.population[c], entry(self.population)[c]))'
    ' or (c < _i_ and self.popEnergy[c] < entry(self.popEnergy)[c]))',
    'GH.evals == entry(GH.evals) + _i_',
], modifies=['self.population', 'self.popEnergy', 'self.trialSolution', 'self._bestSolution', 'self._bestEnergy',
             'GH.evals'], name='DE1-candidate-loop')


SMALL = [dict(nDim=1, nPop=1, nsteps=1), dict(nDim=2, nPop=2, nsteps=1), dict(nDim=1, nPop=3, nsteps=2)]


def _solver(h, cls, sp, gen0, strict):
    D, NP = h.int('nDim'), h.int('nPop')
    h.assume('D >= 1 and NP >= 1', D=D, NP=NP)
    pop = h.matrix('population', NP, D)
    popE = h.list_real('popEnergy', inf=True, n=NP)
    best = h.list_real('bestSolution', nd=True, n=D)
    bestE = h.real('bestEnergy', inf=True)
    if cls.endswith('2'):
        trial = h.matrix('trialSolution', NP, D)
    else:
        trial = h.list_real('trialSolution', n=D)
    nrec = h.int('nsteps')
    h.assume('nrec == 0' if gen0 else 'nrec >= 1', nrec=nrec)
    xs, ys = h.list_real('stepmon_x', n=nrec), h.list_real('stepmon_y', inf=True, n=nrec)
    stepmon = h.obj(MON, _x=xs, _y=ys, _id=h.clist([]), _info=h.clist([]), k=None, _npts=None, label='ChiSquare')
    s = h.obj(DE + '::' + cls, nDim=D, nPop=NP, population=pop, popEnergy=popE, trialSolution=trial,
              _bestSolution=best, _bestEnergy=bestE, _stepmon=stepmon, _useStrictRange=strict,
              _constraints=sp['CONS'], _strictbounds=sp['CONS'], strategy='Best1Bin', id=None,
              _termination=h.fn('TERMINATION', ret='bool'), scale=h.real('scale'), probability=h.real('probability'),
              _map=None, _mapconfig=h.dict(), _evalmon=None, _fcalls=h.clist([h.int('fcalls')]))
    return s, D, NP, pop, popE, best, bestE, trial, stepmon


def _de1(h, gen0, reentered=False):
    sp = _spec_functions(h)
    for k, v in sp.items():
        h.spec(k, v, pure=k in ('E', 'FIX', 'EVALD'))
    cb = h.choice('callback', [True, False])
    strict = h.choice('useStrictRange', [False, True])
    h.set_summaries(_summaries(sp, cb))
    s, D, NP, pop, popE, best, bestE, trial, stepmon = _solver(h, 'DifferentialEvolutionSolver', sp, gen0, strict)
    env = dict(self=s)
    if gen0 and not reentered:
        # state left by SetInitialPoints / SetRandomInitialPoints: every energy is the initial inf
        h.assume('forall(0, self.nPop, lambda c: isinf(self.popEnergy[c]))', **env)
    elif reentered:
        # an evolved solver whose step monitor was replaced (SetGenerationMonitor(m, new=True)) runs the generation-0
        # branch again: the members are valid, the stored best is whatever it was
        h.assume(INV_MEMBERS, **env)
    else:
        h.assume(INV_MEMBERS, **env)
        h.assume(INV_BEST, **env)
        h.assume(INV_ORDER, **env)
    bestE0 = bestE
    popE0 = h.snapshot(popE)
    pop0 = h.snapshot(pop)
    h.call(h.getattr(s, '_Step'))
    gh = sp['GH']
    env.update(GH=gh, NP=NP, popE0=popE0, pop0=pop0, bestE0=bestE0)
    # ---- C01: after the iteration every stored energy is the objective at its member; the best likewise
    h.check('C01/member-energies-are-the-objective-at-the-members', INV_MEMBERS, **env)
    h.check('C01/best-energy-is-the-objective-at-an-evaluated-constrained-point', INV_BEST, **env)
    if reentered:
        h.cover('reached-end')
        return
    h.check('C01/best-not-worse-than-any-member', INV_ORDER, **env)
    # ---- C04: best never worsens, one evaluation per member, one monitor record (a copy), one callback
    if not gen0:
        h.check('C04/best-energy-non-increasing', 'self.bestEnergy <= bestE0', **env)
    h.check('C04/one-evaluation-per-member', 'GH.evals == NP', **env)
    h.check('C04/one-step-monitor-record-of-the-best',
            'GH.records == 1 and seq_eq(GH.rec_x_snapshot, self.bestSolution) and GH.rec_y == self.bestEnergy '
            'and not same(GH.rec_x, self.bestSolution)', **env)
    # C06 / C04: the periodic restart dump of this iteration holds the iteration complete (requested after its record)
    h.check('C06/periodic-state-dump-requested-once-after-this-iterations-monitor-record', 'GH.saves == 1 and GH.saved_at == 1', **env)
    if cb:
        h.check('C04/callback-once-with-the-best', 'GH.cb_calls == 1 and same(GH.cb_arg, self.bestSolution)', **env)
    # ---- C08: greedy one-to-one selection, strict
    if not gen0:
        h.check('C08/member-replaced-only-by-strictly-lower-trial',
                'forall(0, NP, lambda c: (self.popEnergy[c] == popE0[c] and seq_eq(self.population[c], pop0[c])) '
                'or self.popEnergy[c] < popE0[c])', **env)
    h.cover('reached-end')


@contract('C01/DE1._Step/generation>0', ['C01', 'C03', 'C04', 'C08'], DE + '::DifferentialEvolutionSolver._Step',
          loops=dict([LOOP1]), native=False, small=SMALL,
          note='precondition: Inv(self) (established by the generation-0 contract), bestSolution / trialSolution / '
               'population rows are separate objects')
def de1_step(h):
    _de1(h, False)


@contract('C01/DE1._Step/generation=0', ['C01', 'C03', 'C04'], DE + '::DifferentialEvolutionSolver._Step',
          loops=dict([LOOP1]), native=False, small=[dict(a, nsteps=0) for a in SMALL],
          note='precondition: all member energies are the initial inf (SetInitialPoints family)')
def de1_step0(h):
    _de1(h, True)


LOOP1R = loop(DE, 'DifferentialEvolutionSolver._Step', 0, 'for candidate in range(self.nPop)', [
    SHAPES + ' and len(self.trialSolution) == self.nDim',
    INV_MEMBERS,
    INV_BEST,
    'GH.evals == entry(GH.evals) + _i_',
], modifies=['self.population', 'self.popEnergy', 'self.trialSolution', 'self._bestSolution', 'self._bestEnergy',
             'GH.evals'], name='DE1-candidate-loop')


@contract('C01/DE1._Step/generation-0-branch-re-entered', ['C01'], DE + '::DifferentialEvolutionSolver._Step',
          loops=dict([LOOP1R]), native=False, small=[dict(a, nsteps=0) for a in SMALL],
          note='an evolved population with an empty step monitor (SetGenerationMonitor(m, new=True) between iterations): '
               'the reported best must again be an evaluated point with its own energy.  That the best is then not '
               'necessarily the best member (it restarts from member 0) is not claimed by C01 and not checked here.')
def de1_step0_reentered(h):
    _de1(h, True, reentered=True)


# ============================================================================ DifferentialEvolutionSolver2
# The map solver builds all trial vectors first, evaluates them through the user-supplied map and then selects.
# Contract of the map (C07: the only thing the step may rely on): it returns r with r[i] == f(items[i]) for
# every index i, whatever the order / interleaving / parallelism in which it evaluates; every item is evaluated
# exactly once (ghost: GH.evals grows by len(items), EVALD of every item); the evaluation monitor wrapped around
# the cost grows by one record per item.  The post-state of _Step is proved from that contract alone, hence it is a
# function of the indexed results only.
LOOP2A = loop(DE, 'DifferentialEvolutionSolver2._Step', 0, 'for candidate in range(self.nPop)', [
    SHAPES,
    'forall(0, _i_, lambda c: FIX(self.trialSolution[c]))',
], modifies=['self.trialSolution'], name='DE2-trial-loop')

TRIALS = ('forall(0, self.nPop, lambda c: trialEnergy[c] == E(self.trialSolution[c]) and FIX(self.trialSolution[c]) '
          'and EVALD(self.trialSolution[c]))')
LOOP2B = loop(DE, 'DifferentialEvolutionSolver2._Step', 1, 'for candidate in range(self.nPop)', [
    SHAPES + ' and len(trialEnergy) == self.nPop',
    TRIALS,
    INV_MEMBERS,
    INV_BEST,
    INV_ORDER,
    'self.bestEnergy <= entry(self.bestEnergy)',
    'forall(0, self.nPop, lambda c: (self.popEnergy[c] == entry(self.popEnergy)[c] and seq_eq(self.population[c], entry(self.population)[c]))'
    ' or (c < _i_ and self.popEnergy[c] < entry(self.popEnergy)[c] and self.popEnergy[c] == trialEnergy[c]'
    ' and seq_eq(self.population[c], self.trialSolution[c])))',
], modifies=['self.population', 'self.popEnergy', 'self._bestSolution', 'self._bestEnergy'], name='DE2-selection-loop')


def _map_contract(h, sp, holder):
    def sym(H, I, args, kwargs):
        f, items = args[0], args[1]
        st = I.st
        s = holder['s']
        NP = st.heap[s]['nPop']
        D = st.heap[s]['nDim']
        # precondition of the objective at every item (C03): fixed point of the constraints in force
        pre = I.call(I.builtins['forall'], [0, NP, _Lam(lambda I_, c: I_.call(sp['FIX'], [Mo.getitem(I_, items, c)], {}))], {})
        st.check('objective-evaluated-only-at-constrained-points', I.truth_term(pre),
                 'every work item handed to the map is a fixed point of the constraints in force')
        cell = st.heap[sp['GH']]
        cell['evals'] = I.binop(__import__('ast').Add(), cell['evals'], NP)
        ev = I.call(I.builtins['forall'], [0, NP, _Lam(lambda I_, c: I_.call(sp['EVALD'], [Mo.getitem(I_, items, c)], {}))], {})
        st.assume(I.truth_term(ev))
        # the evaluation monitor (wrapped around the cost) gets one record per item
        em = st.heap[s]['_evalmon']
        for fld in ('_x', '_y'):
            lst = st.heap[em][fld]
            if lst.kind == 'clist':
                st.heap[lst] = list(st.heap[lst]) + [0.0] * (NP if isinstance(NP, int) else 0)
            else:
                cc = dict(st.heap[lst])
                cc['len'] = cc['len'] + Mo.zint(NP)
                st.heap[lst] = cc
        # result: r[i] == E(items[i]) by index
        if isinstance(NP, int):
            vals = [I.call(sp['E'], [Mo.getitem(I, items, c)], {}) for c in range(NP)]
            return st.alloc('clist', vals, name='map_result')
        k = z3.Int(st.fresh_name('mapk'))
        st.push(k >= 0, k < Mo.zint(NP))
        try:
            body = I.call(sp['E'], [Mo.getitem(I, items, SV(k, 'int'))], {})
        finally:
            st.pop()
        r = st.alloc('slist', {'len': Mo.zint(NP), 'arr': z3.Lambda([k], Mo.zreal(body)), 'ek': 'real'}, name='map_result')
        # range facts of the results (finite or +inf), for every index
        from pyvc.values import INF
        kk = z3.Int(st.fresh_name('mapq'))
        sel = z3.Select(st.heap[r]['arr'], kk)
        st.assume(z3.ForAll([kk], z3.Implies(z3.And(kk >= 0, kk < Mo.zint(NP)), z3.And(-INF < sel, sel <= INF))))
        return r
    return h.fn('MAP', sym=sym)


def _Lam(f):
    """a python-level lambda usable where the contract vocabulary expects a callable (forall/exists bodies)"""
    from pyvc.values import Builtin
    return Builtin('spec-lambda', lambda I_, a, k: f(I_, a[0]))


def _de2(h, gen0, reentered=False):
    sp = _spec_functions(h)
    for k, v in sp.items():
        h.spec(k, v, pure=k in ('E', 'FIX', 'EVALD'))
    cb = h.choice('callback', [True, False])
    strict = h.choice('useStrictRange', [False, True])
    h.set_summaries(_summaries(sp, cb))
    s, D, NP, pop, popE, best, bestE, trial, stepmon = _solver(h, 'DifferentialEvolutionSolver2', sp, gen0, strict)
    holder = {'s': s}
    nev = h.int('evalmon_records')
    fc = h.field(h.field(s, '_fcalls'), 0) if False else None
    h.assume('nev >= 0', nev=nev)
    exs, eys = h.list_real('evalmon_x', n=nev), h.list_real('evalmon_y', inf=True, n=nev)
    evalmon = h.obj(MON, _x=exs, _y=eys, _id=h.clist([]), _info=h.clist([]), k=None, _npts=None, label='ChiSquare')
    h.set_field(s, '_evalmon', evalmon)
    h.set_field(s, '_map', _map_contract(h, sp, holder))
    env = dict(self=s)
    if gen0 and not reentered:
        h.assume('forall(0, self.nPop, lambda c: isinf(self.popEnergy[c]))', **env)
    elif reentered:
        h.assume(INV_MEMBERS, **env)
    else:
        h.assume(INV_MEMBERS, **env)
        h.assume(INV_BEST, **env)
        h.assume(INV_ORDER, **env)
    bestE0 = bestE
    popE0 = h.snapshot(popE)
    pop0 = h.snapshot(pop)
    h.call(h.getattr(s, '_Step'))
    gh = sp['GH']
    env.update(GH=gh, NP=NP, popE0=popE0, pop0=pop0, bestE0=bestE0, nev=nev, trial=trial)
    h.check('C01/member-energies-are-the-objective-at-the-members', INV_MEMBERS, **env)
    h.check('C01/best-energy-is-the-objective-at-an-evaluated-constrained-point', INV_BEST, **env)
    if reentered:
        h.cover('reached-end')
        return
    h.check('C01/best-not-worse-than-any-member', INV_ORDER, **env)
    if not gen0:
        h.check('C04/best-energy-non-increasing', 'self.bestEnergy <= bestE0', **env)
    h.check('C04/one-evaluation-per-member', 'GH.evals == NP', **env)
    h.check('C04/counter-follows-the-evaluation-monitor', 'self._fcalls[0] == nev + NP', **env)
    h.check('C04/one-step-monitor-record-of-the-best',
            'GH.records == 1 and seq_eq(GH.rec_x_snapshot, self.bestSolution) and GH.rec_y == self.bestEnergy '
            'and not same(GH.rec_x, self.bestSolution)', **env)
    # C06 / C04: the periodic restart dump of this iteration holds the iteration complete (requested after its record)
    h.check('C06/periodic-state-dump-requested-once-after-this-iterations-monitor-record', 'GH.saves == 1 and GH.saved_at == 1', **env)
    if cb:
        h.check('C04/callback-once-with-the-best', 'GH.cb_calls == 1 and same(GH.cb_arg, self.bestSolution)', **env)
    if not gen0:
        # C08 selection + C07: the new member is the trial of the same index, accepted only if strictly lower
        h.check('C08/member-replaced-only-by-strictly-lower-trial-of-its-own-index',
                'forall(0, NP, lambda c: (self.popEnergy[c] == popE0[c] and seq_eq(self.population[c], pop0[c])) '
                'or (self.popEnergy[c] < popE0[c] and seq_eq(self.population[c], trial[c]) and self.popEnergy[c] == E(trial[c])))',
                **env)
    h.cover('reached-end')


@contract('C01/DE2._Step/generation>0', ['C01', 'C03', 'C04', 'C07', 'C08'], DE + '::DifferentialEvolutionSolver2._Step',
          loops=dict([LOOP2A, LOOP2B]), native=False, small=SMALL,
          note='precondition: Inv(self), separate cells; an evaluation monitor is attached whose length equals the counter '
               '(the Null-monitor branch is finding F6, bounded layer); the map obeys the index contract (C07)')
def de2_step(h):
    _de2(h, False)


@contract('C01/DE2._Step/generation=0', ['C01', 'C03', 'C04', 'C07'], DE + '::DifferentialEvolutionSolver2._Step',
          loops=dict([LOOP2A, LOOP2B]), native=False, small=[dict(a, nsteps=0) for a in SMALL])
def de2_step0(h):
    _de2(h, True)


LOOP2BR = loop(DE, 'DifferentialEvolutionSolver2._Step', 1, 'for candidate in range(self.nPop)', [
    SHAPES + ' and len(trialEnergy) == self.nPop',
    TRIALS,
    INV_MEMBERS,
    INV_BEST,
], modifies=['self.population', 'self.popEnergy', 'self._bestSolution', 'self._bestEnergy'], name='DE2-selection-loop')


@contract('C01/DE2._Step/generation-0-branch-re-entered', ['C01'], DE + '::DifferentialEvolutionSolver2._Step',
          loops=dict([LOOP2A, LOOP2BR]), native=False, small=[dict(a, nsteps=0) for a in SMALL],
          note='as for DE1: evolved population, step monitor replaced between iterations')
def de2_step0_reentered(h):
    _de2(h, True, reentered=True)
