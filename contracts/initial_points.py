"""C02: clipping of guesses into the strict ranges and generation of initial points within requested limits
(AbstractSolver._clipGuessWithinRangeBoundary, SetRandomInitialPoints, SetInitialPoints)."""
from pyvc.contract import contract, loop

A = 'mystic/abstract_solver.py'
AS = A + '::AbstractSolver'

INBOX = 'forall(0, n, lambda k: mn[k] <= r[k] and r[k] <= mx[k])'


@contract('C02/_clipGuessWithinRangeBoundary', ['C02'], AS + '._clipGuessWithinRangeBoundary')
def clip_guess(h):
    """any dimension, any box (min <= max componentwise), at = True (clip at the bounds) or False (redraw inside)"""
    at = h.choice('at', [True, False])
    n = h.int('nDim')
    h.assume('n >= 1', n=n)
    x0 = h.list_real('x0', nd=True, n=n)
    mn, mx = h.list_real('strictMin', nd=True, n=n), h.list_real('strictMax', nd=True, n=n)
    h.assume('forall(0, n, lambda k: mn[k] <= mx[k])', n=n, mn=mn, mx=mx)
    s = h.obj(AS, nDim=n, _strictMin=mn, _strictMax=mx)
    old = h.snapshot(x0)
    r = h.call(h.getattr(s, '_clipGuessWithinRangeBoundary'), x0, at)
    env = dict(r=r, n=n, mn=mn, mx=mx, old=old)
    h.check('result-has-the-dimension', 'len(r) == n', **env)
    h.check('result-inside-the-box', INBOX, **env)
    h.check('coordinates-already-inside-are-kept',
            'forall(0, n, lambda k: implies(mn[k] <= old[k] and old[k] <= mx[k], r[k] == old[k]))', **env)
    if at:
        h.check('clipped-at-the-nearest-bound',
                'forall(0, n, lambda k: r[k] == (mn[k] if old[k] < mn[k] else (mx[k] if old[k] > mx[k] else old[k])))', **env)


@contract('C02/_clipGuessWithinRangeBoundary/no-ranges', ['C02'], AS + '._clipGuessWithinRangeBoundary')
def clip_guess_unbounded(h):
    x0 = h.list_real('x0', nd=True)
    s = h.obj(AS, nDim=h.len(x0), _strictMin=h.clist([], nd=True), _strictMax=h.clist([], nd=True))
    old = h.snapshot(x0)
    r = h.call(h.getattr(s, '_clipGuessWithinRangeBoundary'), x0, h.choice('at', [True, False]))
    h.check('identity-without-ranges', 'seq_eq(r, old)', r=r, old=old)


LOOPS_RANDOM = dict([
    loop(A, 'AbstractSolver.SetRandomInitialPoints', 0, 'for i in range(len(min))', ['True']),
    loop(A, 'AbstractSolver.SetRandomInitialPoints', 1, 'for i in range(len(self.population))',
         ['forall(0, _i_, lambda a: forall(0, self.nDim, lambda b: min[b] <= self.population[a][b] and self.population[a][b] <= max[b]))'],
         modifies=['self.population']),
    loop(A, 'AbstractSolver.SetRandomInitialPoints', 2, 'for j in range(self.nDim)',
         ['forall(0, _i_, lambda b: min[b] <= self.population[i][b] and self.population[i][b] <= max[b])',
          'forall(0, i, lambda a: forall(0, self.nDim, lambda b: min[b] <= self.population[a][b] and self.population[a][b] <= max[b]))'],
         modifies=['self.population']),
])


@contract('C02/SetRandomInitialPoints', ['C02'], AS + '.SetRandomInitialPoints', loops=LOOPS_RANDOM, native=False,
          small=[dict(nDim=1, nPop=1), dict(nDim=2, nPop=3)])
def random_points(h):
    """every member of the initial population lies within the requested limits, any dimension / population size"""
    D, NP = h.int('nDim'), h.int('nPop')
    h.assume('D >= 1 and NP >= 1', D=D, NP=NP)
    pop = h.matrix('population', NP, D, nd=False)
    mn, mx = h.list_real('min', n=D), h.list_real('max', n=D)
    h.assume('forall(0, D, lambda k: mn[k] <= mx[k])', D=D, mn=mn, mx=mx)
    s = h.obj(AS, nDim=D, nPop=NP, population=pop, _defaultMin=h.clist([-1e3]), _defaultMax=h.clist([1e3]))
    h.call(h.getattr(s, 'SetRandomInitialPoints'), mn, mx)
    h.check('initial-points-within-the-requested-limits',
            'forall(0, NP, lambda a: forall(0, D, lambda b: mn[b] <= pop[a][b] and pop[a][b] <= mx[b]))',
            NP=NP, D=D, pop=pop, mn=mn, mx=mx)


SOF = 'mystic/scipy_optimize.py::NelderMeadSimplexSolver'


@contract('C02/NelderMead._setSimplexWithinRangeBoundary', ['C02', 'C08'], SOF + '._setSimplexWithinRangeBoundary', native=False,
          small=[dict(nDim=1), dict(nDim=2)])
def simplex_within_ranges(h):
    """the offsets that span the initial simplex: without ranges x0*(1+radius) (0.00025 for a zero coordinate, the
    reference rule); with strict ranges every offset coordinate lies inside [min, max] and differs from the (clipped)
    start coordinate wherever the range has room"""
    strict = h.choice('useStrictRange', [False, True])
    n = h.int('nDim')
    h.assume('n >= 1', n=n)
    x0 = h.list_real('x0', nd=True, n=n)
    mn, mx = h.list_real('strictMin', nd=True, n=n), h.list_real('strictMax', nd=True, n=n)
    h.assume('forall(0, n, lambda k: mn[k] <= mx[k])', n=n, mn=mn, mx=mx)
    if strict:
        h.assume('forall(0, n, lambda k: mn[k] <= x0[k] and x0[k] <= mx[k])', n=n, mn=mn, mx=mx, x0=x0)
    s = h.obj(SOF, nDim=n, population=h.clist([x0]), _useStrictRange=strict, _strictMin=mn, _strictMax=mx)
    old = h.snapshot(x0)
    if h.is_sym():
        h.set_summaries({(A, 'AbstractSolver._clipGuessWithinRangeBoundary'): lambda I, c, a, k: a[1]})   # x0 is inside: identity (contract above)
    val = h.call(h.getattr(s, '_setSimplexWithinRangeBoundary'))
    e = dict(val=val, n=n, mn=mn, mx=mx, old=old)
    h.check('one-offset-per-dimension', 'len(val) == n', **e)
    if strict:
        h.check('offsets-inside-the-ranges', 'forall(0, n, lambda k: mn[k] <= val[k] and val[k] <= mx[k])', **e)
    else:
        h.check('reference-rule-without-ranges',
                'forall(0, n, lambda k: val[k] == (old[k] * 1.05 if old[k] != 0 else 0.05 * 0.05 * 0.1))', **e)


# SetInitialPoints itself (member 0 == x0) is under contract below (C01/SetInitialPoints): asarray(scalar) is modelled as
# a marked 0-d array.


@contract('C02/SetRandomInitialPoints/some-limits-None', ['C02'], AS + '.SetRandomInitialPoints', native=False)
def random_points_partial_limits(h):
    """limits given per coordinate with some of them None: a missing LOWER limit means the default minimum (-1e3), a
    missing UPPER limit the default maximum (+1e3); every coordinate of every member lies within its (completed) limits"""
    if not h.is_sym():
        h.unsupported('symbolic only')
    D, NP = 2, 2
    which = h.choice('none_entries', ['upper0', 'lower1', 'upper0+lower1', 'all-upper', 'all-lower'])
    m0, m1, M0, M1 = h.real('min0'), h.real('min1'), h.real('max0'), h.real('max1')
    h.assume('-1000 <= m0 and m0 <= M0 and M0 <= 1000 and -1000 <= m1 and m1 <= M1 and M1 <= 1000', m0=m0, m1=m1, M0=M0, M1=M1)
    lo = [m0, None if which in ('lower1', 'upper0+lower1', 'all-lower') else m1]
    hi = [None if which in ('upper0', 'upper0+lower1', 'all-upper') else M0, M1]
    if which == 'all-upper':
        hi = [None, None]
    if which == 'all-lower':
        lo = [None, None]
    pop = h.clist([h.clist([0.0, 0.0]), h.clist([0.0, 0.0])])
    s = h.obj(AS, nDim=D, nPop=NP, population=pop, _defaultMin=h.clist([-1e3]), _defaultMax=h.clist([1e3]))
    h.call(h.getattr(s, 'SetRandomInitialPoints'), h.clist(list(lo)), h.clist(list(hi)))
    L = [(-1000 if v is None else v) for v in lo]
    H = [(1000 if v is None else v) for v in hi]
    env = dict(pop=pop, L0=L[0], L1=L[1], H0=H[0], H1=H[1])
    h.check('every-coordinate-within-its-limits-missing-ones-completed-by-the-defaults',
            ' and '.join('L%d <= pop[%d][%d] and pop[%d][%d] <= H%d' % (b, a, b, a, b, b) for a in range(NP) for b in range(D)), **env)


@contract('C01/SetRandomInitialPoints/scalar-limits-are-rejected', ['C01', 'C05'], AS + '.SetRandomInitialPoints', native=False)
def random_points_scalar_limits(h):
    """limits given as plain numbers are NOT broadcast: the call raises TypeError and leaves the solver untouched.  The
    one-line interfaces diffev / diffev2 rely on this to tell a 2-parameter start point [a, b] (unpair() gives the two
    numbers a, b) from a list of (min, max) pairs -- were the numbers accepted as limits, the caller's start point would
    silently be replaced by random points drawn from [a, b]"""
    if not h.is_sym():
        h.unsupported('symbolic only')
    which = h.choice('scalar', ['both', 'min-only', 'max-only'])
    pop = h.clist([h.vec('p0', 2), h.vec('p1', 2)])
    s = h.obj(AS, nDim=2, nPop=2, population=pop, _defaultMin=h.clist([-1e3, -1e3]), _defaultMax=h.clist([1e3, 1e3]),
              _strictMin=h.clist([]), _strictMax=h.clist([]), _useStrictRange=False)
    p00 = h.snapshot(pop)
    a = h.real('a') if which != 'max-only' else h.clist([h.real('a0'), h.real('a1')])
    b = h.real('b') if which != 'min-only' else h.clist([h.real('b0'), h.real('b1')])
    r, exc = h.call_raises(h.getattr(s, 'SetRandomInitialPoints'), a, b)
    h.check('raises-TypeError', 'ok', ok=(exc == 'TypeError'))
    h.check('population-untouched', 'same(s.population, pop) and seq_eq(pop[0], q[0]) and seq_eq(pop[1], q[1])', s=s, pop=pop, q=p00)


@contract('C01/SetInitialPoints', ['C01', 'C08'], AS + '.SetInitialPoints', native=False)
def set_initial_points(h):
    """SetInitialPoints(x0): the guess itself is member 0 of the population (so it is evaluated and the best can never be
    worse than it), the other members are drawn -- by SetRandomInitialPoints, whose contract is above -- from a box around
    the guess that contains it (|x0[i]| * radius on each side, +-radius where x0[i] is 0), the caller's vector is not
    modified; a guess of the wrong length is refused (two parameters; list, tuple or array; default and given radius)"""
    if not h.is_sym():
        h.unsupported('symbolic only')
    form = h.choice('x0_given_as', ['list', 'array', 'wrong-length'])
    rk = h.choice('radius', ['default', 'given', 'one-per-parameter', 'vector-of-wrong-length'])
    zero0 = h.choice('x0_0_is_zero', [False, True])
    a, b = (0.0 if zero0 else h.real('x0_0')), h.real('x0_1')
    if not zero0:
        h.assume('a != 0', a=a)
    h.assume('b != 0', b=b)
    rad = h.real('radius')
    h.assume('rad > 0', rad=rad)
    x0 = h.clist([a, b] if form != 'wrong-length' else [a, b, 1.0], nd=(form == 'array'))
    p0, p1 = h.vec('old0', 2), h.vec('old1', 2)
    pop = h.clist([p0, p1])
    s = h.obj(AS, nDim=2, nPop=2, population=pop)
    calls = []

    def rnd(I, c, args, kwargs):
        calls.append((args[1], args[2]))
        for row in I.st.heap[I.st.heap[args[0]]['population']]:
            I.st.heap[row] = [I.st.fresh('drawn', 'real'), I.st.fresh('drawn', 'real')]
        return None
    h.set_summaries({(A, 'AbstractSolver.SetRandomInitialPoints'): rnd})
    rad1 = h.real('radius_1')
    h.assume('rad1 > 0', rad1=rad1)
    radarg = {'default': [], 'given': [rad], 'one-per-parameter': [h.clist([rad, rad1])], 'vector-of-wrong-length': [h.clist([rad, rad1, rad])]}[rk]
    r, exc = h.call_raises(h.getattr(s, 'SetInitialPoints'), x0, *radarg)
    if rk == 'vector-of-wrong-length' and form != 'wrong-length':
        h.check('a-radius-vector-of-the-wrong-length-is-refused', 'ok', ok=(exc == 'ValueError' and not calls))
        return
    if form == 'wrong-length':
        h.check('a-guess-of-the-wrong-length-is-refused', 'ok', ok=(exc == 'ValueError' and not calls))
        return
    h.check('no-exception', 'ok', ok=(exc is None))
    if exc is not None:
        return
    R = 0.05 if rk == 'default' else rad
    R1 = rad1 if rk == 'one-per-parameter' else R
    e = dict(s=s, a=a, b=b, R=R, R1=R1, x0=x0)
    h.check('the-guess-is-member-0-of-the-population', 's.population[0][0] == a and s.population[0][1] == b and len(s.population) == 2', **e)
    h.check('the-callers-vector-is-not-modified', 'len(x0) == 2 and x0[0] == a and x0[1] == b', **e)
    ok = len(calls) == 1
    h.check('other-members-drawn-once-around-the-guess', 'ok', ok=ok)
    if ok:
        mn, mx = calls[0]
        e.update(mn=mn, mx=mx)
        # the code hands x0*(1-radius) as 'min' and x0*(1+radius) as 'max': for a negative coordinate the two are the other
        # way round (random.uniform accepts either order), so 'contains' is stated order-free; radius >= 1 is left out
        # (there x0*(1-radius) can be 0 for a nonzero coordinate and is replaced by -radius)
        h.check('the-sampling-box-contains-the-guess',
                'R >= 1 or R1 >= 1 or (min(mn[0], mx[0]) <= a and a <= max(mn[0], mx[0]) and min(mn[1], mx[1]) <= b and b <= max(mn[1], mx[1]))', **e)
        h.check('the-sampling-box-is-the-radius-box',
                'R >= 1 or R1 >= 1 or (mn[1] == b * (1 - R1) and mx[1] == b * (1 + R1)' +
                (' and mn[0] == -R and mx[0] == R)' if zero0 else ' and mn[0] == a * (1 - R) and mx[0] == a * (1 + R))'), **e)


@contract('C01/SetInitialPoints/one-parameter', ['C01', 'C08'], AS + '.SetInitialPoints', native=False)
def set_initial_points_1d(h):
    """one parameter: the guess may be a plain number (a rank-0 array, reshaped to one element) or a one-element list;
    it becomes member 0, the rest is drawn once from x0*(1 -+ radius) (+-radius for a zero guess); a rank-2 guess is refused"""
    if not h.is_sym():
        h.unsupported('symbolic only')
    form = h.choice('x0_given_as', ['number', 'list', 'rank-2'])
    zero = h.choice('x0_is_zero', [False, True])
    a = 0.0 if zero else h.real('x0')
    if not zero:
        h.assume('a != 0', a=a)
    rad = h.real('radius')
    h.assume('rad > 0 and rad < 1', rad=rad)
    x0 = {'number': a, 'list': h.clist([a]), 'rank-2': h.clist([h.clist([a])])}[form]
    pop = h.clist([h.vec('old0', 1), h.vec('old1', 1)])
    s = h.obj(AS, nDim=1, nPop=2, population=pop)
    calls = []

    def rnd(I, c, args, kwargs):
        calls.append((args[1], args[2]))
        for row in I.st.heap[I.st.heap[args[0]]['population']]:
            I.st.heap[row] = [I.st.fresh('drawn', 'real')]
        return None
    h.set_summaries({(A, 'AbstractSolver.SetRandomInitialPoints'): rnd})
    r, exc = h.call_raises(h.getattr(s, 'SetInitialPoints'), x0, rad)
    if form == 'rank-2':
        h.check('a-rank-2-guess-is-refused', 'ok', ok=(exc == 'ValueError' and not calls))
        return
    h.check('no-exception', 'ok', ok=(exc is None))
    if exc is not None:
        return
    h.check('the-guess-is-member-0-of-the-population', 's.population[0][0] == a and len(s.population[0]) == 1 and len(s.population) == 2', s=s, a=a)
    ok = len(calls) == 1
    h.check('other-members-drawn-once-around-the-guess', 'ok', ok=ok)
    if ok:
        mn, mx = calls[0]
        h.check('the-sampling-box-is-the-radius-box', 'len(mn) == 1 and len(mx) == 1 and ' +
                ('mn[0] == -R and mx[0] == R' if zero else 'mn[0] == a * (1 - R) and mx[0] == a * (1 + R)'), mn=mn, mx=mx, a=a, R=rad)
