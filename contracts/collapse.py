"""C11: how a detected collapse is APPLIED -- AbstractSolver.__collapse_constraints builds the new constraints function
from the collapse report (keyed by the termination condition's info string) and the condition's settings.

The detectors (numpy pipelines) and the mask bookkeeping (eval of doc strings) are outside reach and stay bounded
(rtc/c11); this contract covers the clause "every point evaluated afterwards satisfies the collapsed relation exactly":
the constraints function returned for a CollapseAt / CollapseAs report maps EVERY vector to one whose collapsed
parameters sit exactly at the target (a given value, including 0.0, or -- target None -- their current best values),
resp. equal their partner, and leaves the other parameters to the user's constraints."""
from pyvc.contract import contract

AS = 'mystic/abstract_solver.py'
A = AS + '::AbstractSolver'
N = 4


@contract('C11/collapse-constraints/CollapseAt', ['C11'], A + '._AbstractSolver__collapse_constraints', native=False)
def collapse_at(h):
    if not h.is_sym():
        h.unsupported('symbolic only')
    idx = h.choice('collapsed_indices', [(1,), (0, 3), (2, 3, 0)])
    tk = h.choice('target', ['None', 'value', 'zero'])
    best = h.vec('best', N)
    t = None if tk == 'None' else (0.0 if tk == 'zero' else h.real('target'))
    key = 'CollapseAt with {...}'
    ident = h.fn('USER_CONSTRAINTS', sym=lambda H, I, args, kwargs: args[0])
    s = h.obj(A, _stepmon=h.obj(None, _npts=None), _constraints=ident, _bestSolution=h.clist(list(h.st.heap[best]), nd=True),
              _bestEnergy=h.real('bestE'), population=h.clist([best]), popEnergy=h.clist([h.real('e0')]))
    state = h.st.alloc('dict', {key: h.st.alloc('dict', {'target': t, 'tolerance': 0.01, 'generations': 50, 'mask': None})})
    collapses = h.st.alloc('dict', {key: h.st.alloc('set', list(idx))})
    c = h.call(h.getattr(s, '_AbstractSolver__collapse_constraints'), state, collapses)
    x = h.vec('x', N)
    x0 = h.snapshot(x)
    y = h.call(c, x)
    want = ['best[%d]' % i if t is None else 't' for i in idx]
    h.check('collapsed-parameters-exactly-at-their-target', ' and '.join('y[%d] == %s' % (i, w) for i, w in zip(idx, want)),
            y=y, t=t if t is not None else 0, best=best)
    rest = [q for q in range(N) if q not in idx]
    h.check('other-parameters-unchanged', ' and '.join('y[%d] == x0[%d]' % (q, q) for q in rest) or 'True', y=y, x0=x0)


@contract('C11/collapse-constraints/CollapseAs', ['C11'], A + '._AbstractSolver__collapse_constraints', native=False)
def collapse_as(h):
    if not h.is_sym():
        h.unsupported('symbolic only')
    pairs = h.choice('collapsed_pairs', [((0, 1),), ((0, 2), (1, 2)), ((0, 1), (2, 3)), ((0, 1), (0, 2), (1, 2))])
    key = 'CollapseAs with {...}'
    ident = h.fn('USER_CONSTRAINTS', sym=lambda H, I, args, kwargs: args[0])
    s = h.obj(A, _stepmon=h.obj(None, _npts=None), _constraints=ident)
    state = h.st.alloc('dict', {key: h.st.alloc('dict', {'offset': None, 'tolerance': 0.01, 'generations': 50, 'mask': None})})
    collapses = h.st.alloc('dict', {key: h.st.alloc('set', [h.tup(a, b) for a, b in pairs])})
    c = h.call(h.getattr(s, '_AbstractSolver__collapse_constraints'), state, collapses)
    x = h.vec('x', N)
    x0 = h.snapshot(x)
    y = h.call(c, x)
    h.check('every-collapsed-pair-is-tied-exactly', ' and '.join('y[%d] == y[%d]' % (a, b) for a, b in pairs), y=y)
    tied = set(v for p in pairs for v in p)
    rest = [q for q in range(N) if q not in tied]
    h.check('other-parameters-unchanged', ' and '.join('y[%d] == x0[%d]' % (q, q) for q in rest) or 'True', y=y, x0=x0)
