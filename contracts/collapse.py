"""C11: how a detected collapse is APPLIED -- AbstractSolver.__collapse_constraints builds the new constraints function
from the collapse report (keyed by the termination condition's info string) and the condition's settings.

The detectors (numpy pipelines) and the mask bookkeeping (eval of doc strings) are outside reach and stay bounded
(rtc/c11); this contract covers the clause "every point evaluated afterwards satisfies the collapsed relation exactly":
the constraints function returned for a CollapseAt / CollapseAs report maps EVERY vector to one whose collapsed
parameters sit exactly at the target (a given value, including 0.0, or -- target None -- their current best values),
resp. equal their partner, and leaves the other parameters to the user's constraints."""
from pyvc.contract import contract

AS = 'mystic/abstract_solver.py'
A = AS + '::AbstractSolver'
N = 4


@contract('C11/collapse-constraints/CollapseAt', ['C11'], A + '._AbstractSolver__collapse_constraints', native=False)
def collapse_at(h):
    if not h.is_sym():
        h.unsupported('symbolic only')
    idx = h.choice('collapsed_indices', [(1,), (0, 3), (2, 3, 0)])
    tk = h.choice('target', ['None', 'value', 'zero'])
    best = h.vec('best', N)
    t = None if tk == 'None' else (0.0 if tk == 'zero' else h.real('target'))
    key = 'CollapseAt with {...}'
    ident = h.fn('USER_CONSTRAINTS', sym=lambda H, I, args, kwargs: args[0])
    s = h.obj(A, _stepmon=h.obj(None, _npts=None), _constraints=ident, _bestSolution=h.clist(list(h.st.heap[best]), nd=True),
              _bestEnergy=h.real('bestE'), population=h.clist([best]), popEnergy=h.clist([h.real('e0')]))
    state = h.st.alloc('dict', {key: h.st.alloc('dict', {'target': t, 'tolerance': 0.01, 'generations': 50, 'mask': None})})
    collapses = h.st.alloc('dict', {key: h.st.alloc('set', list(idx))})
    c = h.call(h.getattr(s, '_AbstractSolver__collapse_constraints'), state, collapses)
    x = h.vec('x', N)
    x0 = h.snapshot(x)
    y = h.call(c, x)
    want = ['best[%d]' % i if t is None else 't' for i in idx]
    h.check('collapsed-parameters-exactly-at-their-target', ' and '.join('y[%d] == %s' % (i, w) for i, w in zip(idx, want)),
            y=y, t=t if t is not None else 0, best=best)
    rest = [q for q in range(N) if q not in idx]
    h.check('other-parameters-unchanged', ' and '.join('y[%d] == x0[%d]' % (q, q) for q in rest) or 'True', y=y, x0=x0)


@contract('C11/collapse-constraints/CollapseAs', ['C11'], A + '._AbstractSolver__collapse_constraints', native=False)
def collapse_as(h):
    if not h.is_sym():
        h.unsupported('symbolic only')
    pairs = h.choice('collapsed_pairs', [((0, 1),), ((0, 2), (1, 2)), ((0, 1), (2, 3)), ((0, 1), (0, 2), (1, 2))])
    key = 'CollapseAs with {...}'
    ident = h.fn('USER_CONSTRAINTS', sym=lambda H, I, args, kwargs: args[0])
    s = h.obj(A, _stepmon=h.obj(None, _npts=None), _constraints=ident)
    state = h.st.alloc('dict', {key: h.st.alloc('dict', {'offset': None, 'tolerance': 0.01, 'generations': 50, 'mask': None})})
    collapses = h.st.alloc('dict', {key: h.st.alloc('set', [h.tup(a, b) for a, b in pairs])})
    c = h.call(h.getattr(s, '_AbstractSolver__collapse_constraints'), state, collapses)
    x = h.vec('x', N)
    x0 = h.snapshot(x)
    y = h.call(c, x)
    h.check('every-collapsed-pair-is-tied-exactly', ' and '.join('y[%d] == y[%d]' % (a, b) for a, b in pairs), y=y)
    tied = set(v for p in pairs for v in p)
    rest = [q for q in range(N) if q not in tied]
    h.check('other-parameters-unchanged', ' and '.join('y[%d] == x0[%d]' % (q, q) for q in rest) or 'True', y=y, x0=x0)


STOPS = [('CollapseAt with {"tolerance": 0.01}',), ('CollapseAt with {}', 'CollapseAs with {}'), ('VTR with {"tolerance": 0.1}', 'CollapseAt with {}'),
         ('CollapseAs with {}', 'ChangeOverGeneration with {}'), ('CollapseAt with {}', 'NormalizedChangeOverGeneration with {}', 'CollapseAs with {}'),
         ('EvaluationLimits with {}', 'CollapsePosition with {}')]


@contract('C11/__get_collapses', ['C11'], A + '._AbstractSolver__get_collapses', native=False)
def get_collapses(h):
    """a detected collapse is handed on for application only when NOTHING BUT collapse conditions stopped the solver: if
    any other stop condition holds as well the run ends with the current best point, so a relation applied now would
    hold neither at a later evaluation nor in the reported solution -- then nothing may be applied ({} is returned).
    The stop message is `; `-joined condition descriptions (Terminated(info=True) or the cached __stop__)."""
    if not h.is_sym():
        h.unsupported('symbolic only')
    parts = h.choice('stop_message', STOPS)
    cached = h.choice('stop_message_cached_in___stop__', [True, False])
    found = h.choice('collapse_detected', [True, False])
    msg = '; '.join(parts)
    coll = h.dict()
    if found:
        coll = h.dict(**{p: h.clist([0]) for p in parts if p.startswith('Collapse')})
    fields = dict(_collapse=True)
    if cached:
        fields['__stop__'] = msg
    s = h.obj(A, **fields)
    h.set_summaries({(AS, 'AbstractSolver.Collapsed'): lambda I, c, a, k: coll,
                     (AS, 'AbstractSolver.Terminated'): lambda I, c, a, k: msg})
    r = h.call(h.getattr(s, '_AbstractSolver__get_collapses'))
    only_collapse = all(p.startswith('Collapse') for p in parts)
    if found and only_collapse:
        h.check('collapses-handed-on-when-only-collapse-conditions-stopped-the-solver', 'same(r, coll)', r=r, coll=coll)
    elif found:
        h.check('nothing-applied-when-another-stop-condition-holds-too', 'len(r) == 0', r=r)
    else:
        h.check('nothing-to-apply-when-nothing-was-detected', 'len(r) == 0', r=r)


@contract('C11/Collapse', ['C11'], A + '.Collapse', native=False)
def collapse(h):
    """Collapse(): what __get_collapses hands on is applied in full -- the constraints built for exactly that report are
    installed AND the termination whose masks were extended by exactly that report is installed -- and reported back;
    with nothing handed on the solver is left untouched"""
    if not h.is_sym():
        h.unsupported('symbolic only')
    found = h.choice('collapse_handed_on', [True, False])
    rep = h.dict(**({'CollapseAt with {}': h.clist([1])} if found else {}))
    state, newterm, newcons = h.dict(), h.fn('MASKED_TERMINATION', ret='bool'), h.fn('COLLAPSED_CONSTRAINTS', ret='same')
    calls = []
    s = h.obj(A, _collapse=True, _constraints=h.fn('OLD_CONSTRAINTS', ret='same'), _termination=h.fn('OLD_TERMINATION', ret='bool'))

    def rec(name, ret):
        def f(I, c, a, k):
            calls.append((name, list(a[1:])))
            return ret
        return f
    h.set_summaries({(AS, 'AbstractSolver.__get_collapses'): lambda I, c, a, k: rep,
                     (AS, 'AbstractSolver.__collapse_termination'): rec('termination-for', (state, newterm)),
                     (AS, 'AbstractSolver.__collapse_constraints'): rec('constraints-for', newcons),
                     (AS, 'AbstractSolver.SetConstraints'): rec('SetConstraints', None),
                     (AS, 'AbstractSolver.SetTermination'): rec('SetTermination', None)})
    r = h.call(h.getattr(s, 'Collapse'))
    h.check('the-report-is-returned', 'same(r, rep)', r=r, rep=rep)
    names = [c[0] for c in calls]
    if found:
        ok = (names.count('SetConstraints') == 1 and names.count('SetTermination') == 1 and
              [a for n, a in calls if n == 'SetConstraints'][0][0] is newcons and
              [a for n, a in calls if n == 'SetTermination'][0][0] is newterm and
              all(a[-1] is rep for n, a in calls if n in ('termination-for', 'constraints-for')) and
              [a for n, a in calls if n == 'constraints-for'][0][0] is state)
        h.check('constraints-and-masked-termination-built-from-this-report-are-both-installed', 'ok', ok=ok)
    else:
        h.check('solver-untouched-when-nothing-is-handed-on', 'ok', ok=('SetConstraints' not in names and 'SetTermination' not in names))


MK = 'mystic/mask.py'
SET_CASES = [((), (1,)), ((0,), (2, 3)), ((0, 2), (2,)), ((1,), ())]
DICT_CASES = [({}, {0: (1,)}), ({0: (1,)}, {0: (2,)}), ({0: (1,)}, {1: (0, 2)}), ({0: (1,), 2: (0,)}, {0: (1, 3), 1: (2,)}), ({0: (1, 2)}, {})]
PAIR_CASES = [(((0,), (1,)), ((2,), (0,))), (((), ()), ((1,), (3,)))]        # where-format masks: (rows, cols)


@contract('C11/mask._extend_mask', ['C11', 'C05'], MK + '::_extend_mask', native=False)
def extend_mask(h):
    """the termination rebuilt after a collapse has mask = old mask UNION what was applied (sets: union; per-measure dicts:
    union per measure, measures not masked before are added, measures not collapsed now are kept; where-format pairs:
    concatenation) and every other setting of the condition unchanged -- "the mask grows by what was applied" """
    if not h.is_sym():
        h.unsupported('symbolic only')
    kind = h.choice('mask_format', ['set', 'dict', 'pairs', 'none-yet'])
    tol = h.real('tolerance')
    if kind == 'set':
        old, new = h.choice('masks', SET_CASES)
        oldv, newv = h.st.alloc('set', list(old)), h.st.alloc('set', list(new))
        if not old:
            oldv = h.choice('empty_mask_spelled', ['None', 'set'])
            oldv = None if oldv == 'None' else h.st.alloc('set', [])
    elif kind == 'dict':
        old, new = h.choice('masks', DICT_CASES)
        oldv = h.st.alloc('dict', {k: h.st.alloc('set', list(v)) for k, v in old.items()})
        newv = h.st.alloc('dict', {k: h.st.alloc('set', list(v)) for k, v in new.items()})
    elif kind == 'pairs':
        old, new = h.choice('masks', PAIR_CASES)
        oldv, newv = (tuple(old[0]), tuple(old[1])), (tuple(new[0]), tuple(new[1]))
    else:
        old, new = None, (4,)
        oldv, newv = None, h.st.alloc('set', [4])
    kw = h.st.alloc('dict', {'tolerance': tol, 'generations': 50, 'mask': oldv})
    built = []

    def state(I, c, a, k):
        return I.st.alloc('dict', {'CollapseX with {...}': kw})

    def typ(I, c, a, k):
        from pyvc.values import AbsFun
        def ctor(I_, args, kwargs):
            built.append(dict(kwargs))
            return 'REBUILT-CONDITION'
        return AbsFun('CONDITION_TYPE', ctor)
    h.set_summaries({('mystic/termination.py', 'state'): state, ('mystic/termination.py', 'type'): typ})
    r = h.call(h.get(MK + '::_extend_mask'), h.fn('CONDITION', ret='bool'), newv)
    h.check('condition-rebuilt-once-from-its-own-type', 'ok', ok=(r == 'REBUILT-CONDITION' and len(built) == 1))
    if len(built) != 1:
        return
    b = built[0]
    h.check('other-settings-unchanged', 'ok', ok=(sorted(b) == ['generations', 'mask', 'tolerance'] and b['generations'] == 50 and b['tolerance'] is tol))
    m = b['mask']

    def as_set(v):
        return set(h.st.heap[v]) if not isinstance(v, (tuple, list, set, frozenset)) else set(v)
    if kind in ('set', 'none-yet'):
        want = set(old or ()) | set(new)
        h.check('mask-is-the-union-of-the-old-mask-and-what-was-applied', 'ok', ok=(m is not None and as_set(m) == want))
    elif kind == 'dict':
        want = {k: set(v) for k, v in old.items()}
        for k, v in new.items():
            want.setdefault(k, set()).update(v)
        cell = h.st.heap[m] if m is not None and not isinstance(m, dict) else (m or {})
        got = {k: as_set(v) for k, v in cell.items()}
        h.check('per-measure-mask-is-the-union-of-the-old-mask-and-what-was-applied', 'ok', ok=(got == want))
    else:
        want = (tuple(old[0]) + tuple(new[0]), tuple(old[1]) + tuple(new[1]))
        got = tuple(tuple(h.st.heap[x]) if not isinstance(x, tuple) else x for x in (m if isinstance(m, tuple) else tuple(h.st.heap[m])))
        h.check('where-format-mask-is-old-entries-followed-by-the-applied-ones', 'ok', ok=(got == want))


TM = 'mystic/termination.py::'
# (kind asked for, structure): leaves are doc strings; tuples are compound conditions (And / Or alternate by depth)
TREES = [('CollapseAt', ('CollapseAt with {}', 'VTR with {}')),
         ('CollapseAs', ('VTR with {}', ('CollapseAs with {}', 'CollapseAt with {}'))),
         ('CollapseAt', (('CollapseAt with {"mask": None}', 'CollapseAs with {}'), ('ChangeOverGeneration with {}', 'CollapseAt with {"target": 0}'))),
         ('CollapsePosition', ('CollapseWeight with {}', 'VTR with {}')),
         ('', ('CollapseAt with {}', 'CollapseAs with {}', 'VTR with {}'))]


@contract('C11/mask._update_masks', ['C11', 'C05'], MK + '::_update_masks', native=False)
def update_masks(h):
    """in a compound termination exactly the member conditions of the reported kind (to any nesting depth) get the mask;
    every other member is the SAME object as before and the And / Or structure is rebuilt with the same types and order"""
    if not h.is_sym():
        h.unsupported('symbolic only')
    kind, tree = h.choice('condition', TREES)
    leaves = {}

    def build(t, depth=0):
        if isinstance(t, tuple):
            return h.tuple_obj(TM + ('Or' if depth % 2 == 0 else 'And'), [build(x, depth + 1) for x in t])
        f = h.fn('LEAF_%d' % len(leaves), ret='bool', attrs={'__doc__': t})
        leaves[id(f)] = (f, t)
        return f
    cond = build(tree)
    ext = {}

    def extend(I, c, a, k):
        from pyvc.values import AbsFun
        g = AbsFun('EXTENDED', lambda I_, args, kwargs: False)
        ext[id(g)] = a[0]
        return g
    h.set_summaries({('mystic/mask.py', '_extend_mask'): extend})
    mask = h.st.alloc('set', [1])
    r = h.call(h.get(MK + '::_update_masks'), cond, mask, kind)
    want_kind = kind if kind else 'Collapse'
    ok = []

    def same_shape(new, old, t, depth=0):
        if isinstance(t, tuple):
            items_n = h.st.heap[new]['__items__'] if hasattr(new, 'kind') else None
            items_o = h.st.heap[old]['__items__']
            ok.append(items_n is not None and new.cls is old.cls and len(items_n) == len(items_o))
            if ok[-1]:
                for n_, o_, t_ in zip(items_n, items_o, t):
                    same_shape(n_, o_, t_, depth + 1)
        else:
            if t.startswith(want_kind):
                ok.append(id(new) in ext and ext[id(new)] is old)       # replaced by the extension of exactly this member
            else:
                ok.append(new is old)
    same_shape(r, cond, tree)
    h.check('exactly-the-members-of-the-reported-kind-are-extended-structure-kept', 'ok', ok=all(ok) and len(ok) > 0)


@contract('C11/mask.update_mask', ['C11', 'C05'], MK + '::update_mask', native=False)
def update_mask(h):
    """the termination rebuilt for a collapse report {condition description: what collapsed}: _update_masks is applied once
    per reported entry, each time to the result of the previous one, with that entry's description as the kind to look
    for and its collapse as the mask; no report (None) leaves the condition as it is"""
    if not h.is_sym():
        h.unsupported('symbolic only')
    n = h.choice('entries', ['None', 0, 1, 2])
    new = h.choice('new', ['omitted', True])
    cond = h.fn('CONDITION', ret='bool')
    calls, results = [], []

    def upd(I, c, a, k):
        calls.append((list(a), dict(k)))
        results.append(h.fn('UPDATED_%d' % len(calls), ret='bool'))
        return results[-1]
    h.set_summaries({('mystic/mask.py', '_update_masks'): upd})
    masks = [h.st.alloc('set', [i]) for i in range(2)]
    keys = ['CollapseAt with {...}', 'CollapseAs with {...}']
    rep = None if n == 'None' else h.st.alloc('dict', {keys[i]: masks[i] for i in range(n)})
    args = [cond, rep] + ([True] if new is True else [])
    r = h.call(h.get(MK + '::update_mask'), *args)
    m = 0 if n == 'None' else n
    ok = len(calls) == m and (r is (results[-1] if m else cond))
    for i in range(min(m, len(calls))):
        a, k = calls[i]
        flag = (a[3] if len(a) > 3 else k.get('new', False))
        ok = ok and a[0] is (cond if i == 0 else results[i - 1]) and a[1] is masks[i] and a[2] == keys[i] and bool(flag) == (new is True)
    h.check('one-mask-update-per-reported-entry-chained-in-order', 'ok', ok=ok)


@contract('C11/__collapse_termination', ['C11'], A + '._AbstractSolver__collapse_termination', native=False)
def collapse_termination(h):
    """what Collapse() installs: the state (settings per condition) is read from the termination BEFORE the masks are
    extended -- the constraints are built from the targets / offsets in force when the collapse was detected -- and the new
    termination is update_mask(current termination, the report)"""
    if not h.is_sym():
        h.unsupported('symbolic only')
    term = h.fn('CURRENT_TERMINATION', ret='bool')
    newterm = h.fn('MASKED_TERMINATION', ret='bool')
    state = h.dict()
    rep = h.dict(**{'CollapseAt with {}': h.clist([1])})
    log = []
    h.set_summaries({('mystic/termination.py', 'state'): lambda I, c, a, k: (log.append(('state', list(a))), state)[1],
                     ('mystic/mask.py', 'update_mask'): lambda I, c, a, k: (log.append(('update', list(a), dict(k))), newterm)[1]})
    s = h.obj(A, _termination=term)
    r = h.call(h.getattr(s, '_AbstractSolver__collapse_termination'), rep)
    ok = (isinstance(r, tuple) and len(r) == 2 and r[0] is state and r[1] is newterm and [e[0] for e in log] == ['state', 'update']
          and log[0][1][0] is term and log[1][1][0] is term and log[1][1][1] is rep and not log[1][2].get('new') and len(log[1][1]) == 2)
    h.check('state-of-the-current-termination-and-the-termination-with-extended-masks', 'ok', ok=ok)
    h.check('solver-not-modified', 'same(s._termination, term)', s=s, term=term)


@contract('C11/collapse-constraints/routing', ['C11'], A + '._AbstractSolver__collapse_constraints', native=False)
def collapse_constraints_routing(h):
    """every entry of the report is turned into its constraint -- CollapseAt: impose_at(indices, target) (target None: the
    current best values via select_params), CollapseAs: impose_as(pairs, offset), CollapseCost: impose_bounds(bounds,
    clip=the condition's clip), CollapsePosition / CollapseWeight: ONE impose_measure(npts, [position collapses], [weight
    collapses]) when the monitor watches a product measure -- and all of them are chained around the solver's current
    constraints: none is dropped, none is applied twice"""
    if not h.is_sym():
        h.unsupported('symbolic only')
    which = h.choice('report', [('CollapseAt',), ('CollapseAs', 'CollapseAt'), ('CollapseCost', 'CollapseAs'),
                                ('CollapsePosition', 'CollapseWeight'), ('CollapseWeight',), ('CollapseAt', 'CollapsePosition', 'CollapseCost')])
    npts = (2, 2) if any(w in ('CollapsePosition', 'CollapseWeight') for w in which) else None
    tgt, off, clip = h.real('target'), h.real('offset'), h.choice('cost_clip', [True, False])
    settings = {'CollapseAt': {'target': tgt, 'tolerance': 0.1, 'generations': 5, 'mask': None},
                'CollapseAs': {'offset': off, 'tolerance': 0.1, 'generations': 5, 'mask': None},
                'CollapseCost': {'clip': clip, 'limit': 1.0, 'samples': 5, 'mask': None},
                'CollapsePosition': {'tolerance': 0.1, 'generations': 5, 'mask': None},
                'CollapseWeight': {'tolerance': 0.1, 'generations': 5, 'mask': None}}
    keys = {w: w + ' with {...}' for w in which}
    reports = {w: h.st.alloc('set', [i]) if w != 'CollapseCost' else h.st.alloc('dict', {0: h.clist([h.tup(0.0, 1.0)])}) for i, w in enumerate(which)}
    state = h.st.alloc('dict', {keys[w]: h.st.alloc('dict', settings[w]) for w in which})
    collapses = h.st.alloc('dict', {keys[w]: reports[w] for w in which})
    made, chained = [], []

    def maker(kind):
        def f(I, c, a, k):
            fn = h.fn('%s_%d' % (kind, len(made) + 1), ret='same')
            made.append((kind, list(a), dict(k), fn))
            return fn
        return f

    def chain(I, c, a, k):
        chained.append(list(a))
        from pyvc.values import Builtin
        return Builtin('chained', lambda I_, aa, kk: (chained.append(('around', aa[0])), 'CHAINED-CONSTRAINTS')[1])
    user = h.fn('USER_CONSTRAINTS', ret='same')
    h.set_summaries({('mystic/constraints.py', 'impose_at'): maker('impose_at'), ('mystic/constraints.py', 'impose_as'): maker('impose_as'),
                     ('mystic/constraints.py', 'impose_bounds'): maker('impose_bounds'), ('mystic/constraints.py', 'impose_measure'): maker('impose_measure'),
                     ('mystic/tools.py', 'chain'): chain})
    s = h.obj(A, _stepmon=h.obj(None, _npts=npts), _constraints=user)
    r = h.call(h.getattr(s, '_AbstractSolver__collapse_constraints'), state, collapses)
    tests = {'impose_at': lambda a, k, w: a[0] is reports[w] and a[1] is tgt,
             'impose_as': lambda a, k, w: a[0] is reports[w] and a[1] is off,
             'impose_bounds': lambda a, k, w: a[0] is reports[w] and k.get('clip') is clip}
    kind_of = {'CollapseAt': 'impose_at', 'CollapseAs': 'impose_as', 'CollapseCost': 'impose_bounds'}
    plain = [w for w in which if w in kind_of]                     # built in the order of the report ...
    ok = [m[0] for m in made[:len(plain)]] == [kind_of[w] for w in plain] and all(tests[m[0]](m[1], m[2], w) for m, w in zip(made, plain))
    if npts:
        ok = ok and len(made) == len(plain) + 1 and made[-1][0] == 'impose_measure'
        if ok:
            a = made[-1][1]
            pos = list(h.st.heap[a[1]]) if hasattr(a[1], 'kind') else list(a[1])
            wts = list(h.st.heap[a[2]]) if hasattr(a[2], 'kind') else list(a[2])
            ok = (a[0] == npts and len(pos) == ('CollapsePosition' in which) and len(wts) == ('CollapseWeight' in which)
                  and all(p is reports['CollapsePosition'] for p in pos) and all(q is reports['CollapseWeight'] for q in wts))
    else:
        ok = ok and len(made) == len(plain)
    h.check('one-constraint-per-reported-collapse-built-from-its-report-and-the-conditions-settings', 'ok', ok=ok)
    if not ok:
        return
    # ... and every one of them (each once, in whatever order) is chained around the current constraints
    order = [m[3] for kind in ('impose_at', 'impose_as', 'impose_bounds', 'impose_measure') for m in made if m[0] == kind]
    h.check('all-of-them-chained-around-the-current-constraints', 'ok',
            ok=(r == 'CHAINED-CONSTRAINTS' and len(chained) == 2 and len(chained[0]) == len(order)
                and all(any(x is y for y in order) for x in chained[0]) and all(any(x is y for x in chained[0]) for y in order)
                and chained[1] == ('around', user)))


REPORTS = {'CollapseAt': [(0, 2), (1,)], 'CollapseAs': [((0, 1),), ((0, 2), (1, 2))],
           'CollapseWeight': [{0: (1,)}, {0: (0,), 1: (1,)}], 'CollapsePosition': [{1: ((0, 1),)}]}
DETECTOR = {'CollapseAt': 'collapse_at', 'CollapseAs': 'collapse_as', 'CollapseWeight': 'collapse_weight', 'CollapsePosition': 'collapse_position'}


@contract('C11/Collapsed/report-survives-the-message', ['C11'], A + '.Collapsed', native=False)
def collapsed_round_trip(h):
    """what a detector reports reaches Collapse() unchanged although it travels as TEXT: the condition writes
    `<its description> at <report>` into the stop message, Terminated joins the messages of the satisfied conditions with
    `; `, and Collapsed() parses the report back out -- keyed by the description of exactly the condition that reported it
    (the key _update_masks later looks for), equal to what the detector returned, nothing for conditions that are not
    collapse conditions.  (Concrete reports; text produced by CPython's str(), parsed by this interpreter's eval.)"""
    if not h.is_sym():
        h.unsupported('symbolic only')
    name = h.choice('condition', sorted(REPORTS))
    rep = h.choice('report', REPORTS[name])
    company = h.choice('also_satisfied', ['nothing', 'VTR', 'another-collapse-condition'])
    TM_ = 'mystic/termination.py::'
    if isinstance(rep, dict):
        report = h.st.alloc('dict', {k: h.st.alloc('set', list(v)) for k, v in rep.items()})
        want = {k: set(v) for k, v in rep.items()}
    else:
        report = h.st.alloc('set', list(rep))
        want = set(rep)
    other_rep = h.st.alloc('set', [(1, 2)])
    h.set_summaries({('mystic/collapse.py', DETECTOR[name]): lambda I, c, a, k: report,
                     ('mystic/collapse.py', 'collapse_as' if name != 'CollapseAs' else 'collapse_at'): lambda I, c, a, k: other_rep})
    cond = h.call(h.get(TM_ + name), generations=2)
    doc = h.getattr(cond, '__doc__')
    inst = h.obj(None, energy_history=h.clist([3.0, 2.0, 1.0, 1.0]), _stepmon=h.obj(None))
    msgs = [h.call(cond, inst, True)]
    docs = {doc: want}
    if company == 'VTR':
        msgs.append('VTR with {\'tolerance\': 0.005, \'target\': 0.0}')
    elif company == 'another-collapse-condition':
        c2 = h.call(h.get(TM_ + ('CollapseAs' if name != 'CollapseAs' else 'CollapseAt')), generations=2)
        msgs.append(h.call(c2, inst, True))
        docs[h.getattr(c2, '__doc__')] = {(1, 2)}
    ok = all(isinstance(m, str) for m in msgs) and isinstance(doc, str)
    h.check('the-stop-message-is-concrete-text', 'ok', ok=ok)
    if not ok:
        return
    stop = '; '.join(msgs)
    cached = h.choice('stop_message_cached_in___stop__', [True, False])
    s = h.obj(A, **({'__stop__': stop} if cached else {}))
    h.set_summaries({('mystic/collapse.py', DETECTOR[name]): lambda I, c, a, k: report,
                     (AS, 'AbstractSolver.Terminated'): lambda I, c, a, k: stop})
    r = h.call(h.getattr(s, 'Collapsed'), info=True)
    from pyvc.models import _concrete_py
    got = _concrete_py(h.I, r)
    h.check('every-report-comes-back-equal-under-the-description-of-its-condition', 'ok', ok=(got == docs))
    h.check('truth-value-form', 'ok', ok=(h.call(h.getattr(s, 'Collapsed')) is True))


@contract('C11/constraints.impose_measure', ['C11', 'C16'], 'mystic/constraints.py::impose_measure.dec.func', samples=120)
def impose_measure(h):
    """the constraint Collapse() builds for CollapsePosition / CollapseWeight reports: after it, EVERY collapsed weight is
    exactly zero and EVERY collapsed pair of positions coincides -- also when a weight collapse and a position collapse
    name the same point (reported in the same generation) --, the total weight of the measure is unchanged and the other
    measure is untouched (one 3-point and one 2-point measure, positive weights, all values)"""
    case = h.choice('collapses', ['positions-only', 'weights-only', 'both-on-the-same-point', 'both-on-different-points'])
    pos = {0: [(0, 1)]} if case != 'weights-only' else {}
    wts = {} if case == 'positions-only' else ({0: [0]} if case != 'both-on-different-points' else {0: [2]})
    w = [h.real('w%d' % i) for i in range(3)]
    x = [h.real('x%d' % i) for i in range(3)]
    w2 = [h.real('v%d' % i) for i in range(2)]
    x2 = [h.real('y%d' % i) for i in range(2)]
    for wi in w:
        h.assume('wi > 0', wi=wi)
    if not h.is_sym():
        for wi in w:
            h.assume('wi > 0.01', wi=wi)
    params = h.clist(w + x + w2 + x2)
    f = h.fn('F', ret='real', log='calls')
    if h.is_sym():
        mk = lambda d: h.st.alloc('dict', {k_: h.st.alloc('set', list(v_)) for k_, v_ in d.items()})       # noqa: E731
    else:
        mk = lambda d: {k_: set(v_) for k_, v_ in d.items()}                                               # noqa: E731
    func = h.call(h.call(h.get('mystic/constraints.py::impose_measure'), (3, 2), mk(pos), mk(wts)), f)
    h.call(func, params)
    calls = h.log('calls')
    h.check('decorated-function-called-once-with-a-vector-of-the-same-length', 'len(calls) == 1 and len(calls[0][0]) == 10', calls=calls)
    r = calls[0][0]
    e = dict(r=r, w0=w[0], w1=w[1], w2=w[2], v0=w2[0], v1=w2[1], y0=x2[0], y1=x2[1])
    for i in wts.get(0, []):
        h.check('collapsed-weights-are-exactly-zero', 'r[%d] == 0' % i, **e)
    for (i, j) in pos.get(0, []):
        h.check('collapsed-positions-coincide', 'r[%d] == r[%d]' % (3 + i, 3 + j), **e)
    h.check('total-weight-of-the-measure-unchanged', 'r[0] + r[1] + r[2] == w0 + w1 + w2', **e)
    h.check('the-other-measure-untouched', 'r[6] == v0 and r[7] == v1 and r[8] == y0 and r[9] == y1', **e)
