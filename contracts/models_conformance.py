"""Trusted base, exercised: the library models of pyvc (numpy / builtins / list methods / copy) against the real libraries.

Each case is a small python program over some inputs.  CPython runs it on concrete random inputs (seeded by VERIF_SEED)
with the REAL numpy / copy / builtins; the symbolic interpreter runs the same text on SYMBOLIC inputs constrained to be
equal to those concrete values, and the obligation `model result == CPython result` is discharged by the SMT back end.
A model that disagrees with the library on some sampled input is therefore a refuted obligation of this family
(reported under the properties listed in ALL; the models are part of every proof's trusted base).  This does not prove the models
(that would need a specification of numpy); it removes silent disagreement on the sampled inputs, through the same
encoding the proofs use."""
import os
import random
from fractions import Fraction
from pyvc.contract import contract

# run with the properties whose proofs lean most on these models (running it twenty times would add nothing)
ALL = ['C01', 'C02', 'C08', 'C10', 'C16', 'C18', 'C20']

# (name, program text assigning `r`, input spec: name -> kind)
CASES = [
    ('clip-method', 'r = numpy.asarray(x).clip(lo, hi).tolist()', dict(x='list', lo='real', hi='real_ge_lo')),
    ('clip-function', 'r = numpy.clip(x, lo, hi).tolist()', dict(x='list', lo='real', hi='real_ge_lo')),
    ('array-arithmetic', 'r = list(numpy.asarray(x) * a + numpy.asarray(y) - b)', dict(x='list', y='list_same', a='real', b='real')),
    ('list-append-insert-extend', 'z = list(x)\nz.append(a)\nz.insert(1, b)\nz.extend(y)\nr = z', dict(x='list', y='list', a='real', b='real')),
    ('slices', 'r = x[1:] + x[:-1] + x[-1:]', dict(x='list1')),
    ('negative-index', 'r = [x[-1], x[0], x[len(x) - 1]]', dict(x='list1')),
    ('max-min-sum-abs', 'r = [max(x), min(x), sum(x), abs(a)]', dict(x='list1', a='real')),
    ('comprehension-filter', 'r = [2 * v for v in x if v > a]', dict(x='list', a='real')),
    ('enumerate-zip', 'r = [i * v - w for (i, v), w in zip(enumerate(x), y)]', dict(x='list', y='list_same')),
    ('mask-assign-scalar', 'z = numpy.asarray(list(x))\nz[z < a] = a\nr = z.tolist()', dict(x='list', a='real')),
    ('mask-assign-selection', 'z = numpy.asarray(list(x))\nw = numpy.asarray(list(y))\nz[z > w] = w[z > w]\nr = z.tolist()', dict(x='list', y='list_same')),
    ('any-all', 'r = [bool(numpy.any(numpy.asarray(x) > a)), bool(numpy.all(numpy.asarray(x) > a))]', dict(x='list1', a='real')),
    ('deepcopy-independent', 'z = copy.deepcopy([x, y])\nz[0][0] = a\nr = [x[0], z[0][0], z[1] == y]', dict(x='list1', y='list', a='real')),
    ('int-floor-mod', 'r = [i % j, i // j, (-i) % j, (-i) // j]', dict(i='int', j='posint')),
    ('conditional-expression', 'r = [v if v > a else a for v in x]', dict(x='list', a='real')),
    ('list-repeat-concat', 'r = [a] * n + x + [b] * 2', dict(x='list', a='real', b='real', n='smallint')),
    ('tuple-unpack-swap', 'p, q = x[0], x[-1]\np, q = q, p\nr = [p, q]', dict(x='list1')),
    ('dict-update-get', "d = {'u': a}\nd.update({'w': b})\nd['u'] = d.get('u', 0) + d.get('missing', 1)\nr = [d['u'], d['w'], len(d)]", dict(a='real', b='real')),
    ('row-assignment-copies', 'm = numpy.asarray([list(x), list(y)])\nm[0] = m[1]\nm[1][0] = a\nr = [m[0][0], m[1][0]]', dict(x='list1', y='list_same', a='real')),
    ('int-array-store-truncates', 'z = numpy.asarray([i, j])\nz[0] = a\nz[1] = b\nr = z.tolist()', dict(i='int', j='posint', a='real', b='real')),
    ('float64-array-of-ints-keeps-reals', "z = numpy.asarray([i, j], dtype='float64')\nz[0] = a\nr = z.tolist() + [z[1] / 2]", dict(i='int', j='posint', a='real')),
    ('zeros-with-inherited-dtype', 'g = numpy.asarray([i, j])\nm = numpy.zeros((2, 2), dtype=g.dtype)\nm[0] = g\nm[1] = [a, b]\nm[0][1] = a\nr = m[0].tolist() + m[1].tolist()',
     dict(i='int', j='posint', a='real', b='real')),
    ('zeros-default-float', 'm = numpy.zeros(2)\nm[0] = i\nm[1] = a\nr = [m[0] / 2, m[1]]', dict(i='int', a='real')),
    ('generator-flatten', 'def fl(s, lev=0):\n    for it in s:\n        if isinstance(it, (list, tuple)) and lev < 2:\n            for sub in fl(it, lev + 1):\n                yield sub\n        else:\n            yield it\nr = list(fl([a, [b, (a, [b])], x])) [:3] + list(fl(x))', dict(x='list', a='real', b='real')),
    ('allclose', 'r = [bool(numpy.allclose(a, b, rtol=0.25, atol=0.5)), bool(numpy.allclose(x, y, rtol=0.5, atol=1.0)), bool(numpy.allclose(x, a, 0.5, 2.0))]',
     dict(x='list', y='list_same', a='real', b='real')),
    ('round-half-even', 'r = numpy.round([a, b, 0.5, 1.5, 2.5, -0.5, -1.5]).tolist() + [float(numpy.round(a, 1)), round(b), round(2.5), round(-3.5)]', dict(a='real', b='real')),
    ('choose-mask-astype', 'm = numpy.zeros(len(x), dtype=bool)\nm[[0]] = True\nr = numpy.choose(m, (x, numpy.round(x))).astype(float).tolist() + numpy.asarray(x).astype(int).tolist() + [m.size]', dict(x='list1')),
    ('sorted-key-abs', 'r = sorted([3, -1, 2, -5], key=abs) + sorted((4, -2, 0), key=abs, reverse=True) + [i]', dict(i='int')),
    ('sorted-symbolic', 'r = sorted(x) + sorted(x, reverse=True) + sorted([a, b, a])', dict(x='list1', a='real', b='real')),
    ('accumulate-itemgetter', 'import operator\nr = numpy.maximum.accumulate(x).tolist() + list(numpy.minimum.accumulate([a, b, a])) + list(operator.itemgetter(0, -1)(x)) + [operator.itemgetter(0)(x)]',
     dict(x='list1', a='real', b='real')),
    ('abs-tolerance', 'r = tol + abs(a) * rel', dict(a='real', tol='real', rel='real')),
    # ---- n-d arrays of concrete shape (collapse detectors, bounded, discrete)
    ('axis-reductions', 'm = numpy.array([[a, b], [c, d], [e, a]])\nr = numpy.ptp(m, axis=0).tolist() + m.max(axis=0).tolist() + m.min(axis=1).tolist() + '
     '[float(numpy.ptp(m)), float(m.max()), float(numpy.sum(m)), m.size, m.ndim] + numpy.sum(m, axis=0).tolist() + m.sum(axis=-1).tolist()', dict(a='real', b='real', c='real', d='real', e='real')),
    ('where-2d', 'm = numpy.array([[a, b], [c, d]])\nw = numpy.where(m > e)\nr = w[0].tolist() + [-1] + w[1].tolist() + [-1] + '
     'list(numpy.where(numpy.array([a, b, c]) <= d)[-1])', dict(a='real', b='real', c='real', d='real', e='real')),
    ('reshape-and-shape-assignment', 'm = numpy.array([a, b, c, d, e, a])\nn = m.reshape(-1, 2)\nt = numpy.asarray(b)\nt.shape = (-1, 1)\nm.shape = (2, 3)\n'
     'r = n.ravel().tolist() + m[1].tolist() + list(n.shape) + list(m.shape) + t.ravel().tolist() + list(t.shape) + [m.size, n.ndim] + m.T[0].tolist()', dict(a='real', b='real', c='real', d='real', e='real')),
    ('triu-outer-fancy', 'idx = numpy.triu_indices(3, k=1)\nz = numpy.subtract.outer(numpy.array([a, b, c]), numpy.array([a, b, c]))[idx]\n'
     'r = z.tolist() + [int(v) for pr in zip(*idx) for v in pr] + numpy.array([a, b, c, d])[[3, 0]].tolist() + numpy.array([[a, b], [c, d]])[:, [1]].ravel().tolist()', dict(a='real', b='real', c='real', d='real', e='real')),
    ('count-cumsum-split', 'k = numpy.cumsum((numpy.array([[a, b], [c, d]]) > e).sum(axis=-1))\nps = numpy.split(numpy.array([a, b, c, d]), [1, 3])\n'
     'r = k.tolist() + [len(p) for p in ps] + ps[1].tolist()', dict(a='real', b='real', c='real', d='real', e='real')),
    ('mask-2d-selection', 'P = numpy.array([[[0, 1], [0, 2]], [[1, 1], [1, 2]]])\nM = numpy.array([[a, b], [c, d]]) <= e\nsel = P[M]\n'
     'r = [len(sel)] + [int(v) for row in sel for v in row] + numpy.array([[a, b], [c, d]])[numpy.array([a, c]) <= e].ravel().tolist()', dict(a='real', b='real', c='real', d='real', e='real')),
    ('argmin-argmax', 'm = numpy.array([[a, b, c], [d, e, a]])\nr = m.argmin(axis=1).tolist() + m.argmax(axis=0).tolist() + [int(numpy.argmin(m)), int(abs(m - b).argmin(axis=1)[0])]', dict(a='real', b='real', c='real', d='real', e='real')),
    ('none-to-nan-to-inf', "q = numpy.asarray([(None, a), (b, None)], dtype='float64').T\nq[0][numpy.isnan(q[0])] = -numpy.inf\nq[1][numpy.isnan(q[1])] = numpy.inf\n"
     'r = [q[0][1], q[1][0], bool(q[0][0] < -1e300), bool(q[1][1] > 1e300), bool(numpy.isnan(a))]', dict(a='real', b='real')),
    ('intersect-choose-astype-bool', 'at = numpy.intersect1d(numpy.array([0, 2, 3]), (2, 0, 5))\n'
     'bs = numpy.sum([(numpy.array([a, b, c]) <= d), (numpy.array([a, b, c]) >= e)], axis=0).astype(bool)\n'
     'r = at.tolist() + numpy.choose(numpy.array([2, 0, 1]), [[a, b, c], [c, d, e], [e, a, b]]).tolist() + bs.tolist() + (bs == False).tolist()', dict(a='real', b='real', c='real', d='real', e='real')),
    ('flat-sort-broadcast-shape', 'z = numpy.empty((2, 2))\nz.flat = [a, b, c, d]\ns_ = numpy.asarray([c, a, b])\ns_.sort()\n'
     'bb = numpy.broadcast(numpy.atleast_1d(a), numpy.atleast_1d([b, c]))\n'
     'r = z.ravel().tolist() + s_.tolist() + list(bb.shape) + [len(numpy.shape(a))] + list(numpy.shape([a, b])) + numpy.atleast_1d(e).tolist()', dict(a='real', b='real', c='real', d='real', e='real')),
    ('set-operators-map', 'u = {1, 2, 3} - {2}\nv = {1} | {4}\nw = {1, 2} & {2, 3}\nr = sorted(u) + sorted(v) + sorted(w) + list(map(abs, [a, b])) + '
     '[v_ for t_ in map(tuple, map(reversed, [(1, 2), (3, 4)])) for v_ in t_] + [(1, 2) in zip((1, 3), (2, 4)), (2, 1) in zip((1, 3), (2, 4))]', dict(a='real', b='real')),
    ('columns-to-3d-max', 'X = numpy.array([[a, b, c, d], [e, a, b, c]])\nW = X[:, [0, 2, 3, 1]]\nW.shape = (2, 2, -1)\n'
     'r = numpy.array(W.tolist()).max(axis=0).ravel().tolist() + W[1].ravel().tolist() + list(W.shape)', dict(a='real', b='real', c='real', d='real', e='real')),
    ('sort-mean-vstack-rows-by-argsort', 'v = numpy.sort([c, a, b])\nm = numpy.vstack([[a, b, c], [d, e, a]]).T\nq = m[m[:, 0].argsort()].T\n'
     'r = v.tolist() + [float(numpy.mean(numpy.sort([a, b, c, d]))), float(numpy.mean(numpy.array([[a, b], [c, d]])))] + sorted(q[0].tolist()) + [float(q[0][0]), float(numpy.sum(q[1]))] + list(m.shape)', dict(a='real', b='real', c='real', d='real', e='real')),
    ('mask-selection-sliced-and-averaged', 'x = numpy.sort([a, b, c, d])\nw = numpy.ones(4)\nsel = x[2.0 - numpy.cumsum(w) <= 0][0:2 - x.size % 2]\n'
     'r = sel.tolist() + [float(numpy.mean(sel))] + x[numpy.array([True, False, True, False])].tolist()', dict(a='real', b='real', c='real', d='real')),
    ('ndarray-slice-assignment-and-round', 'w = numpy.array([a, b, c, d, e])\nw[:1] = 0\nw[3:] = [a, b]\nw[1:3] *= 2\n'
     'r = w.tolist() + numpy.array([a, 0.125, 2.5]).round(1).tolist() + (numpy.array([a, b]) - 0.25).round(15).tolist() + w[::-1][:2].tolist()', dict(a='real', b='real', c='real', d='real', e='real')),
    ('text-of-concrete-containers-and-eval', "d_ = {'tolerance': 0.005, 'target': None, 'mask': {1, 2}}\ntxt = 'VTR with %s' % d_\nkind, kw = txt.split(' with ', 1)\n"
     "back = eval(kw)\nmsg = txt + ' at %s' % str({(0, 1)})\nhead, tail = msg.rsplit(' at ', 1)\n"
     "r = [back['tolerance'], len(back['mask']), int(back['target'] is None), int(kind == 'VTR'), int(head == txt), len(eval(tail)), int((0, 1) in eval(tail)), a]", dict(a='real')),
    ('exec-compile-of-concrete-text', "ns = {'v': a}\ncode = compile('w = v * 2; from math import sqrt as root', '<string>', 'exec')\nexec(code, ns)\nr = [ns['w'], float(ns['root'](4.0))]", dict(a='real')),
    ('zero-d-array-of-a-scalar', 'q = numpy.asarray(a, dtype="float64")\nk = numpy.asarray(3)\nv = numpy.asarray([a, b]) * (1 - q)\n'
     'r = [len(q.shape), q.ndim, q.size, len(k.shape), int(hasattr(2.5, "shape")), float(-q), float(q.tolist())] + v.tolist()', dict(a='real', b='real')),
    ('negated-mask-selection-assigned', 'm = numpy.array([a, 0.0, b])\nq = numpy.array([c, d, e])\nm[m == 0] = -q[m == 0]\nr = m.tolist()', dict(a='real', b='real', c='real', d='real', e='real')),
    ('sort-rows-of-2d-and-object-array-keeps-None', 'm = numpy.sort(numpy.asarray([(a, b), (c, d)]).transpose())\no = numpy.asarray([(a, None), (b, 2.0)]).transpose()\n'
     'r = m.ravel().tolist() + [int(o.dtype == object), int(m.dtype != object), int(o.tolist()[1][0] is None), o.tolist()[0][1]]', dict(a='real', b='real', c='real', d='real')),
    ('symbolic-int-array-index', 'S = numpy.array([-1.0, 0.0, 2.0])\ncnt = numpy.sum(a > S)\nlo = max(0, cnt - 1)\nr = S[numpy.array([lo, lo])].tolist() + [int(cnt)]', dict(a='real')),
]


def _draw(rng, kind, env):
    # dyadic values only: + - * on them are exact in binary floating point, so CPython's result IS the real-number result
    pool = [0.0, 1.0, -1.0, 0.5, 2.0, -2.5, 3.0, 10.0, -7.25, 0.125, 4.75, -0.375, 6.0, -12.5]
    if kind == 'real':
        return rng.choice(pool)
    if kind == 'real_ge_lo':
        return env['lo'] + abs(rng.choice(pool))
    if kind in ('list', 'list1'):
        n = rng.choice([0, 1, 2, 3, 5]) if kind == 'list' else rng.choice([1, 2, 3, 5])
        return [rng.choice(pool) for _ in range(n)]
    if kind == 'list_same':
        return [rng.choice(pool) for _ in env['x']]
    if kind == 'int':
        return rng.randrange(-20, 21)
    if kind == 'posint':
        return rng.randrange(1, 8)
    if kind == 'smallint':
        return rng.randrange(0, 4)
    raise ValueError(kind)


def _native(text, env):
    import numpy
    import copy
    ns = dict(env, numpy=numpy, copy=copy)
    ns = {k: (list(v) if isinstance(v, list) else v) for k, v in ns.items()}
    exec(text, ns)
    return _plain(ns['r'])


def _plain(v):
    import numpy
    if isinstance(v, (list, tuple, numpy.ndarray)):
        return [_plain(x) for x in v]
    if isinstance(v, (bool, numpy.bool_)):
        return bool(v)
    if isinstance(v, (int, numpy.integer)):
        return int(v)
    return float(v)


def _flat(v):
    out = []
    for x in v:
        if isinstance(x, (list, tuple)):
            out.extend(_flat(x))
        else:
            out.append(x)
    return out


def _conformance(h, name, text, spec):
    if not h.is_sym():
        h.unsupported('symbolic only (the native side of this family IS CPython)')
    from pyvc.values import ModRef
    seed = int(os.environ.get('VERIF_SEED', '0') or 0)
    nsamples = 12 if os.environ.get('VERIF_TIER') == 'thorough' else 3
    k = h.choice('sample', list(range(nsamples)))
    rng = random.Random('%s/%d/%d' % (name, seed, k))
    env = {}
    for var, kind in spec.items():
        env[var] = _draw(rng, kind, env)
    want = _native(text, env)
    senv = {}
    for var, kind in spec.items():
        v = env[var]
        if isinstance(v, list):
            sv = h.list_real(var, n=len(v))
            for j, c in enumerate(v):
                h.assume('s[j] == c', s=sv, j=j, c=Fraction(c).limit_denominator(10 ** 6) if False else c)
            senv[var] = sv
        elif isinstance(v, int) and kind in ('int', 'posint'):
            sv = h.int(var)
            h.assume('s == c', s=sv, c=v)
            senv[var] = sv
        elif isinstance(v, int):
            senv[var] = v                  # a size: concrete
        else:
            sv = h.real(var)
            h.assume('s == c', s=sv, c=v)
            senv[var] = sv
    senv.update(numpy=ModRef('numpy'), copy=ModRef('copy'))
    holder = h.st.alloc('obj', {})
    h.exec_text(text + '\nHOLD.r = r', HOLD=holder, **senv)
    r = h.st.heap[holder]['r']
    flat = _flat(want) if isinstance(want, (list, tuple)) else [want]
    if isinstance(want, (list, tuple)):
        h.check('same-length-as-cpython', 'len(r) == n', r=r, n=len(want))
        conj = ' and '.join('r[%d] == w%d' % (j, j) for j in range(len(want))) or 'True'
        h.check('model-agrees-with-cpython', conj, r=r, **{'w%d' % j: (bool(w) if isinstance(w, bool) else w) for j, w in enumerate(want)})
    else:
        h.check('model-agrees-with-cpython', 'r == w', r=r, w=want)


for _name, _text, _spec in CASES:
    contract('models/%s' % _name, ALL, 'pyvc/models.py::(library model: %s)' % _name, native=False)(
        lambda h, n=_name, t=_text, s=_spec: _conformance(h, n, t, s))
