"""C02 / C03 / C04 / C05 / C07: configuration methods and the run loop of AbstractSolver.

  Finalize (base and Powell)      -- always leaves `_live == False`: the next Step re-decorates the objective, so ranges /
                                     constraints / penalties installed between iterations are in force at the next
                                     evaluation (C02, C03)
  _update_objective               -- Set* methods only *record* settings: no decoration, no clipping, no random draw, the
                                     population is untouched; the rebuild is deferred to the next Step (C07)
  _Solve                          -- every Step of the run gets the caller's settings (callback, ...) (C04); on return the
                                     last Step reported a stop (C05); the `__stop__` hack attribute is removed
"""
import z3
from pyvc.contract import contract, loop, exit_check
from pyvc.values import SStr

A = 'mystic/abstract_solver.py'
SO = 'mystic/scipy_optimize.py'
MON = 'mystic/monitors.py::Monitor'


def _base(h, cls, **extra):
    nrec = h.int('nsteps')
    h.assume('nrec >= 0', nrec=nrec)
    stepmon = h.obj(MON, _x=h.list_real('stepmon_x', n=nrec), _y=h.list_real('stepmon_y', inf=True, n=nrec),
                    _id=h.clist([]), _info=h.clist([]), k=None, _npts=None, label='ChiSquare')
    pop = h.clist([h.vec('p0', 2), h.vec('p1', 2)])
    fields = dict(_stepmon=stepmon, _live=h.bool('live'), population=pop, popEnergy=h.clist([h.real('e0', inf=True), h.real('e1', inf=True)]),
                  _bestEnergy=None, _bestSolution=None, _energy_history=None, _solution_history=None, id=None,
                  _saveiter=None, _state=None, nDim=2, nPop=2, _fcalls=h.clist([h.int('fcalls')]),
                  _cost=h.tup(h.fn('WRAPPED', ret='real'), h.fn('RAW', ret='real'), None), _useStrictRange=h.bool('strict'))
    fields.update(extra)
    s = h.obj(cls, **fields)
    return s, stepmon, pop


@contract('C02/AbstractSolver.Finalize', ['C02', 'C03', 'C07'], A + '::AbstractSolver.Finalize')
def finalize_base(h):
    s, stepmon, pop = _base(h, A + '::AbstractSolver')
    pop0 = h.snapshot(pop)
    h.call(h.getattr(s, 'Finalize'))
    h.check('objective-marked-stale', 'live is False', live=h.field(s, '_live'))
    h.check('population-untouched', 'seq_eq(a[0], b[0]) and seq_eq(a[1], b[1])', a=pop, b=pop0)


@contract('C02/Powell.Finalize', ['C02', 'C03', 'C07', 'C04'], SO + '::PowellDirectionalSolver.Finalize')
def finalize_powell(h):
    """for every combination of (decoupled energy history | none) x (live | stale) x any number of records"""
    eh = h.choice('energy_history_kind', ['None', 'list'])
    s, stepmon, pop = _base(h, SO + '::PowellDirectionalSolver')
    if eh == 'list':
        h.set_field(s, '_energy_history', h.list_real('energy_history', inf=True))

    def mon_call(I, c, args, kwargs):
        I.st.ghost.setdefault('records', []).append(1)
        return None
    if h.is_sym():
        h.set_summaries({('mystic/monitors.py', 'Monitor.__call__'): mon_call,
                         (A, 'AbstractSolver.__save_state'): lambda I, c, a, k: None})
    live0 = h.field(s, '_live')
    h.call(h.getattr(s, 'Finalize'))
    h.check('objective-marked-stale', 'live is False', live=h.field(s, '_live'))
    if h.is_sym():
        # C04: Powell's last generation is logged by Finalize -- a LIVE solver gets exactly one step-monitor record when
        # it is finalized (whether or not an energy history has been cached yet, e.g. with a generation limit of 0), a
        # solver that is not live none (no duplicate when Finalize is called again)
        nrec = len(h.st.ghost.get('records', []))
        h.check('C04/a-live-solver-gets-its-closing-monitor-record-exactly-once', 'n == (1 if live0 else 0)', n=nrec, live0=live0)


@contract('C07/AbstractSolver._update_objective', ['C07', 'C02'], A + '::AbstractSolver._update_objective')
def update_objective(h):
    gens = h.choice('has_run', [False, True])
    s, stepmon, pop = _base(h, A + '::AbstractSolver')
    if gens:
        h.assume('n >= 2', n=h.len(h.field(stepmon, '_x')))
    pop0 = h.snapshot(pop)
    cost0 = h.field(s, '_cost')

    def decorate(I, c, args, kwargs):
        I.st.ghost.setdefault('decorated', []).append(1)
        return args[1]
    if h.is_sym():
        h.set_summaries({(A, 'AbstractSolver._decorate_objective'): decorate})
    h.call(h.getattr(s, '_update_objective'))
    dec = h.log('decorated')
    h.check('settings-only-recorded-objective-rebuilt-at-next-step', 'len(dec) == 0 and live is False', dec=dec, live=h.field(s, '_live'))
    h.check('population-untouched', 'seq_eq(a[0], b[0]) and seq_eq(a[1], b[1])', a=pop, b=pop0)
    h.check('no-random-draw', 'n == 0', n=len(h.log('rand_draws')) if not h.is_sym() else len(h.st.ghost.get('rand_draws', [])))
    h.check('stored-cost-untouched', 'same(a, b)', a=h.field(s, '_cost'), b=cost0)


# ---------------------------------------------------------------------------- the run loop
def _solve(h):
    collapse = h.choice('collapse_enabled', [False, True])
    s, stepmon, pop = _base(h, A + '::AbstractSolver', _collapse=collapse)
    cb = h.fn('CALLBACK', ret='none')
    epoch = {'n': 0, 'c': 0}
    ghost = {'steps': 0, 'bad_settings': 0, 'last': None}

    def step(I, c, args, kwargs):
        # abstract Step: must receive the caller's settings; returns None or a stop message (arbitrary, per call)
        ok = kwargs.get('callback') is cb and kwargs.get('disp') is False and set(kwargs) == {'callback', 'disp'}
        I.st.check('every-Step-of-the-run-gets-the-callers-settings', ok,
                   'Step called with %s' % sorted(kwargs))
        epoch['n'] += 1
        b = z3.Bool('STOP_%d' % epoch['n'])
        I.st.symbols['STOP_%d' % epoch['n']] = lambda m, b=b: bool(z3.is_true(m.eval(b, model_completion=True)))
        t = I.st.branch(b)
        ghost['last'] = t
        return SStr('stop-message') if t else None

    def collapse_m(I, c, args, kwargs):
        epoch['c'] += 1
        b = z3.Bool('COLLAPSE_%d' % epoch['c'])
        return I.st.branch(b)
    h.set_summaries({(A, 'AbstractSolver.Step'): step, (A, 'AbstractSolver.Collapse'): collapse_m})
    h.call(h.getattr(s, '_Solve'), None, None, callback=cb, disp=False)
    h.check('stop-hack-attribute-removed', 'not has', has=h.has_field(s, '__stop__'))
    h.cover('returned')


LOOPS = dict([
    loop(A, 'AbstractSolver._Solve', 0, 'while not stop', ['True']),
    loop(A, 'AbstractSolver._Solve', 1, 'while self._collapse and self.Collapse(disp=disp)', ['truthy(stop)'],
         modifies=['self.__stop__']),
    loop(A, 'AbstractSolver._Solve', 2, 'while not stop', ['True']),
    exit_check(A, 'AbstractSolver._Solve', [('returns-only-after-a-Step-reported-a-stop', 'truthy(stop)')]),
])


@contract('C04/AbstractSolver._Solve', ['C04', 'C05'], A + '::AbstractSolver._Solve', loops=LOOPS, native=False,
          note='partial correctness: Step is abstract (its own contract is C05/Step), so termination of the run is not '
               'claimed here')
def solve_loop(h):
    _solve(h)


@contract('C05/AbstractSolver.Solve', ['C05', 'C03', 'C04', 'C06'], A + '::AbstractSolver.Solve', native=False)
def solve_entry(h):
    """Solve: the keyword settings are processed, then the objective is fetched (so constraints= / penalty= given to
    Solve are in force for the whole run), the termination is installed, the run loop is entered exactly once with the
    processed settings; a stale exit request is cleared before the run"""
    if not h.is_sym():
        h.unsupported('symbolic only')
    handle = False          # (the signal-handler branch goes through `from signal import *`: outside the model; bounded in rtc/c05)
    given_term = h.choice('termination_given', [False, True])
    s = h.obj(A + '::AbstractSolver', _EARLYEXIT=h.bool('stale_exit_request'), _handle_sigint=handle, sigint_callback=None)
    seq = []
    settings = h.dict(callback=h.fn('CALLBACK', ret='none'))
    cost_in, cost_out = h.fn('COST', ret='real'), h.fn('DECORATED', ret='real')
    term = h.fn('TERMINATION', ret='bool')

    def rec(name, ret=None):
        def f(I, c, args, kwargs):
            seq.append((name, list(args[1:]), dict(kwargs), I.st.heap[s].get('_EARLYEXIT')))
            return ret
        return f

    def sig(I, a, k):
        seq.append(('signal', list(a), dict(k), None))
        return None
    h.set_summaries({(A, 'AbstractSolver._process_inputs'): rec('process', settings),
                     (A, 'AbstractSolver._bootstrap_objective'): rec('bootstrap', cost_out),
                     (A, 'AbstractSolver.SetTermination'): rec('termination'),
                     (A, 'AbstractSolver._Solve'): rec('run')})
    h.call(h.getattr(s, 'Solve'), cost_in, term if given_term else None, None, constraints=h.fn('CONS', ret='same'))
    names = [x[0] for x in seq if x[0] != 'signal']
    want = ['process', 'bootstrap'] + (['termination'] if given_term else []) + ['run']
    h.check('settings-processed-then-objective-fetched-then-termination-installed-then-one-run', 'ok', ok=(names == want))
    run = [x for x in seq if x[0] == 'run']
    h.check('run-loop-gets-the-decorated-objective-and-the-processed-settings',
            'ok', ok=bool(run) and run[0][1][0] is cost_out and set(run[0][2]) == {'callback'})
    h.check('stale-exit-request-cleared-before-the-run', 'flag is False', flag=run[0][3] if run else None)
    proc = [x for x in seq if x[0] == 'process']
    h.check('keyword-settings-reach-_process_inputs', 'ok', ok=bool(proc) and 'constraints' in h.st.heap[proc[0][1][0]])


@contract('C03/AbstractSolver._process_inputs', ['C03', 'C04', 'C07'], A + '::AbstractSolver._process_inputs', native=False)
def process_inputs(h):
    """the sticky settings given to Step / Solve as keywords (constraints=, penalty=, the two monitors) are installed
    through their setters -- each exactly once and only if given -- and the non-sticky ones (callback, disp) are handed
    back; nothing else is accepted silently into the settings"""
    if not h.is_sym():
        h.unsupported('symbolic only')
    given = h.choice('keywords', [(), ('constraints',), ('penalty', 'callback'), ('constraints', 'penalty', 'EvaluationMonitor', 'StepMonitor', 'disp'),
                                  ('callback', 'strategy')])
    vals = {k: h.fn(k.upper(), ret='real') for k in given}
    if 'disp' in vals:
        vals['disp'] = True
    s = h.obj(A + '::AbstractSolver')
    calls = []

    def setter(name):
        def f(I, c, args, kwargs):
            calls.append((name, args[1]))
            return None
        return f
    h.set_summaries({(A, 'AbstractSolver.SetConstraints'): setter('constraints'), (A, 'AbstractSolver.SetPenalty'): setter('penalty'),
                     (A, 'AbstractSolver.SetEvaluationMonitor'): setter('EvaluationMonitor'),
                     (A, 'AbstractSolver.SetGenerationMonitor'): setter('StepMonitor')})
    kw = h.st.alloc('dict', dict(vals))
    r = h.call(h.getattr(s, '_process_inputs'), kw)
    sticky = [k for k in given if k in ('constraints', 'penalty', 'EvaluationMonitor', 'StepMonitor')]
    h.check('every-sticky-setting-installed-once-through-its-setter-and-nothing-else',
            'ok', ok=(sorted(n for n, _ in calls) == sorted(sticky) and all(v is vals[n] for n, v in calls)))
    cell = h.st.heap[r]
    want_cb = vals.get('callback')
    h.check('callback-and-disp-handed-back-other-keywords-not-smuggled-in',
            'ok', ok=(set(cell) == {'callback', 'disp'} and cell['callback'] is want_cb and cell['disp'] == (True if 'disp' in vals else 0)))


# ---------------------------------------------------------------------------- the run loop terminates
LOOPS_T = dict([
    loop(A, 'AbstractSolver._Solve', 0, 'while not stop',
         ['isinstance(self._maxiter, int) and self._maxiter == entry(self._maxiter)'],
         modifies=['self._stepmon._x'],
         decreases='max(0, self._maxiter - self.generations) + (0 if stop else 1)'),
])


@contract('C05/AbstractSolver._Solve/terminates', ['C05'], A + '::AbstractSolver._Solve', loops=LOOPS_T, native=False,
          note='Step is replaced by its own contract (C05/Step): when it returns None exactly one iteration was completed and '
               'the generation limit is not reached yet; limits already normalised to ints (done by the first Terminated())')
def solve_terminates(h):
    """Solve always returns: with a finite generation limit the main loop has the variant
    max(0, _maxiter - generations) (+1 while no stop has been reported), which every Step decreases"""
    if not h.is_sym():
        h.unsupported('symbolic only')
    nrec = h.int('records')
    h.assume('nrec >= 0', nrec=nrec)
    stepmon = h.obj(MON, _x=h.list_real('stepmon_x', n=nrec), _y=h.clist([]), _id=h.clist([]), _info=h.clist([]), k=None, _npts=None, label='s')
    mi = h.int('maxiter')
    s = h.obj(A + '::AbstractSolver', _stepmon=stepmon, _maxiter=mi, _collapse=False, _energy_history=None, _solution_history=None)
    epoch = {'n': 0}

    def step(I, c, args, kwargs):
        # contract of AbstractSolver.Step (contracts/solver_step.py): returns None  =>  one more generation, limit not reached
        epoch['n'] += 1
        b = z3.Bool('CONTINUE_%d' % epoch['n'])
        lst = I.st.heap[I.st.heap[args[0]]['_stepmon']]['_x']
        cell = dict(I.st.heap[lst])
        gens_before = z3.If(cell['len'] - 1 > 0, cell['len'] - 1, 0)
        if I.st.branch(b):
            cell['len'] = cell['len'] + 1
            I.st.heap[lst] = cell
            gens_after = z3.If(cell['len'] - 1 > 0, cell['len'] - 1, 0)
            I.st.assume(z3.And(gens_after == gens_before + 1, gens_after < Mo_zint(I.st.heap[args[0]]['_maxiter'])))
            return None
        grew = z3.Bool('BEGAN_%d' % epoch['n'])
        if I.st.branch(grew):
            cell['len'] = cell['len'] + 1
            I.st.heap[lst] = cell
        return SStr('stop-message')
    from pyvc.values import zint as Mo_zint
    h.set_summaries({(A, 'AbstractSolver.Step'): step})
    h.call(h.getattr(s, '_Solve'), None, None, disp=False)
    h.cover('returned')


def _de_process_inputs(h, cls):
    """the DE control parameters given as keywords are sticky and taken as given -- for EVERY real value including 0 --
    and kept when not given; the mutation strategy is handed back in the settings and remembered by name"""
    if not h.is_sym():
        h.unsupported('symbolic only')
    given = h.choice('keywords', [(), ('CrossProbability',), ('ScalingFactor',), ('CrossProbability', 'ScalingFactor', 'callback'), ('strategy',),
                                  ('strategy', 'ScalingFactor')])
    before = h.choice('strategy_remembered_from_earlier', ['Best1Bin', 'Rand1Exp'])
    cr0, f0 = h.real('probability_before'), h.real('scale_before')
    cr, f = h.real('CrossProbability'), h.real('ScalingFactor')
    s = h.obj(cls, probability=cr0, scale=f0, strategy=before)
    vals = {}
    strat = h.fn('USER_STRATEGY', ret='none', attrs={'__name__': 'RandToBest1Bin'})
    if 'strategy' in given:
        vals['strategy'] = strat
    if 'CrossProbability' in given:
        vals['CrossProbability'] = cr
    if 'ScalingFactor' in given:
        vals['ScalingFactor'] = f
    cb = h.fn('CALLBACK', ret='none')
    if 'callback' in given:
        vals['callback'] = cb
    kw = h.st.alloc('dict', dict(vals))
    r = h.call(h.getattr(s, '_process_inputs'), kw)
    h.check('crossover-probability-as-given-else-kept', 'p == want', p=h.field(s, 'probability'), want=cr if 'CrossProbability' in given else cr0)
    h.check('scaling-factor-as-given-else-kept', 'p == want', p=h.field(s, 'scale'), want=f if 'ScalingFactor' in given else f0)
    cell = h.st.heap[r]
    h.check('callback-handed-back-and-a-strategy-selected', 'ok',
            ok=(cell.get('callback') is (cb if 'callback' in given else None)) and 'strategy' in cell)
    # sticky by NAME: the solver's own state (what a checkpoint carries) names the strategy in force, so a restored
    # solver continues with it; without the keyword the remembered strategy is the one handed to the iteration
    if 'strategy' in given:
        h.check('C06/strategy-keyword-is-used-and-remembered-in-the-solver-state', 'ok',
                ok=(cell['strategy'] is strat and h.field(s, 'strategy') == 'RandToBest1Bin'))
    else:
        got = cell['strategy']
        h.check('C06/remembered-strategy-is-the-one-used-and-stays-remembered', 'ok',
                ok=(getattr(got, 'qualname', None) == before and h.field(s, 'strategy') == before))


DEF = 'mystic/differential_evolution.py::'
contract('C08/DE1._process_inputs', ['C08', 'C07', 'C06'], DEF + 'DifferentialEvolutionSolver._process_inputs', native=False)(
    lambda h: _de_process_inputs(h, DEF + 'DifferentialEvolutionSolver'))
contract('C08/DE2._process_inputs', ['C08', 'C07', 'C06'], DEF + 'DifferentialEvolutionSolver2._process_inputs', native=False)(
    lambda h: _de_process_inputs(h, DEF + 'DifferentialEvolutionSolver2'))


def _sticky_options(h, cls, opts, extra=None):
    """the algorithm options of Nelder-Mead (radius, adaptive) / Powell (xtol, imax, direc) given as keywords of Solve / Step
    are STICKY: handed back in the settings of this call AND written into the solver's own attributes -- the only place a
    checkpoint carries them, so a restored solver continues with the options the run was started with; options not given
    keep their remembered values"""
    if not h.is_sym():
        h.unsupported('symbolic only')
    combos = [()] + [(o,) for o in opts] + [tuple(opts)]
    given = h.choice('keywords', combos)
    before = {o: h.real(o + '_before') for o in opts}
    new = {o: h.real(o + '_given') for o in opts}
    fields = dict(before)
    d_before, d_new = h.fn('DIREC_BEFORE', ret='none'), h.fn('DIREC_GIVEN', ret='none')
    with_direc = extra == 'direc' and h.choice('direc_given', [False, True])
    if extra == 'direc':
        fields['_direc'] = d_before
    s = h.obj(cls, **fields)
    vals = {o: new[o] for o in given}
    if with_direc:
        vals['direc'] = d_new
    base = h.dict(callback=None, disp=False)
    h.set_summaries({(A, 'AbstractSolver._process_inputs'): lambda I, c, a, k: base})
    r = h.call(h.getattr(s, '_process_inputs'), h.st.alloc('dict', dict(vals)))
    cell = h.st.heap[r]
    for o in opts:
        want = new[o] if o in given else before[o]
        h.check('C06/%s-as-given-else-kept-in-the-settings-and-in-the-solver-state' % o, 'inset == want and attr == want',
                inset=cell.get(o), attr=h.field(s, o), want=want)
    if extra == 'direc':
        h.check('C06/direction-set-as-given-else-kept', 'ok', ok=(h.field(s, '_direc') is (d_new if with_direc else d_before)))


SOF = 'mystic/scipy_optimize.py::'
contract('C06/NelderMead._process_inputs', ['C06', 'C08', 'C07'], SOF + 'NelderMeadSimplexSolver._process_inputs', native=False)(
    lambda h: _sticky_options(h, SOF + 'NelderMeadSimplexSolver', ['radius', 'adaptive']))
contract('C06/Powell._process_inputs', ['C06', 'C08', 'C07'], SOF + 'PowellDirectionalSolver._process_inputs', native=False)(
    lambda h: _sticky_options(h, SOF + 'PowellDirectionalSolver', ['xtol', 'imax'], extra='direc'))
