"""C01 / C03 / C04 / C05: PowellDirectionalSolver._Step -- generation 0 in full, and the call-order obligation for every
generation.  The line searches of the later generations (scipy's brent) are numerical code outside the verifier's
reach: those generations are decided by the bounded layer (rtc/c01-c04, c08 reference runs)."""
import z3
from pyvc.contract import contract
from pyvc.values import PathEnd

SO = 'mystic/scipy_optimize.py'
AS = 'mystic/abstract_solver.py'
MONF = 'mystic/monitors.py'
MON = MONF + '::Monitor'
PW = SO + '::PowellDirectionalSolver'


def _powell(h, nrec, stop_after_bootstrap=False):
    D = h.int('nDim')
    h.assume('D >= 1', D=D)
    inplace = h.choice('constraints_in_place', [False, True])
    strict = h.choice('useStrictRange', [False, True])
    cons = h.fn('CONS', ret='same_nd', log='cons_calls', inplace=inplace)
    cost = h.fn('OBJECTIVE', ret='xreal', log='evals')      # the decorated objective (contracts/decorate.py)
    cb = h.fn('CALLBACK', ret='none', log='callback', truthy=h.bool('callback_object_is_truthy'))
    term = h.fn('TERMINATION', ret='bool', log='termination')
    x0 = h.list_real('x0', nd=True, n=D)
    pop = h.clist([x0])
    xs = h.clist([0.0] * nrec)
    stepmon = h.obj(MON, _x=xs, _y=h.clist([0.0] * nrec), _id=h.clist([]), _info=h.clist([]), k=None, _npts=None, label='ChiSquare')
    maxiter = h.choice('maxiter', [0, 7])
    s = h.obj(PW, nDim=D, nPop=1, population=pop, popEnergy=h.clist([h.inf()]), _bestSolution=None, _bestEnergy=None,
              _stepmon=stepmon, _useStrictRange=strict, _constraints=cons, _strictbounds=cons, _direc=None,
              xtol=1e-4, imax=500, id=None, _termination=term, _maxiter=maxiter, _energy_history=None, _solution_history=None,
              _PowellDirectionalSolver__internals=h.clist([x0, None, 0, 0.0]))
    order = {'processed': False}

    def process_inputs(I, c, args, kwargs):
        order['processed'] = True
        return I.st.alloc('dict', {'callback': cb})

    def bootstrap(I, c, args, kwargs):
        I.st.check('C03/step-settings-processed-before-the-objective-is-bootstrapped', order['processed'] is True)
        if stop_after_bootstrap:
            raise PathEnd()
        return cost

    def mon_call(I, c, args, kwargs):
        from pyvc import models as Mo
        I.st.ghost.setdefault('records', []).append((Mo.snapshot(I, args[1]), args[2]))
        return None
    h.set_summaries({(SO, 'PowellDirectionalSolver._process_inputs'): process_inputs,
                     (AS, 'AbstractSolver._bootstrap_objective'): bootstrap,
                     (AS, 'AbstractSolver.__save_state'): lambda I, c, a, k: None,
                     ('mystic/constraints.py', 'and_'): lambda I, c, a, k: cons,
                     (MONF, 'Monitor.__call__'): mon_call})
    return s, D, x0, cons, cost, maxiter


@contract('C03/Powell._Step/call-order', ['C03', 'C02'], PW + '._Step', native=False)
def powell_order(h):
    """every generation (0, 1, later): the keyword settings of this Step (constraints=, penalty=, ...) are processed
    before the objective is fetched, so they are in force for its evaluations"""
    if not h.is_sym():
        h.unsupported('symbolic only')
    nrec = h.choice('records_in_step_monitor', [0, 1, 3])
    s, D, x0, cons, cost, maxiter = _powell(h, nrec, stop_after_bootstrap=True)
    h.call(h.getattr(s, '_Step'))


@contract('C01/Powell._Step/generation=0', ['C01', 'C03', 'C04'], PW + '._Step', native=False)
def powell_gen0(h):
    """the initial evaluation: the guess is constrained first, the objective is evaluated exactly once and exactly there,
    the stored best is that point with that energy, one step-monitor record (unless the iteration limit is 0),
    one callback, the termination condition is initialised"""
    if not h.is_sym():
        h.unsupported('symbolic only')
    s, D, x0, cons, cost, maxiter = _powell(h, 0)
    g0 = h.snapshot(x0)
    h.call(h.getattr(s, '_Step'))
    c = h.call(h.fn('CONS', ret='same_nd'), g0)
    evals, recs, cbs, terms = h.log('evals'), h.log('records'), h.log('callback'), h.log('termination')
    fc = h.call(h.fn('OBJECTIVE', ret='xreal'), c)
    e = dict(s=s, c=c, evals=evals, recs=recs, cbs=cbs, terms=terms, fc=fc, D=D)
    h.check('C03/objective-evaluated-once-at-the-constrained-guess', 'len(evals) == 1 and seq_eq(evals[0][0], c)', **e)
    h.check('C01/stored-best-is-the-evaluated-point-with-its-energy',
            'seq_eq(s.population[0], c) and s.popEnergy[0] == fc and seq_eq(s.bestSolution, c) and s.bestEnergy == fc', **e)
    if maxiter != 0:
        h.check('C04/one-step-monitor-record-of-the-best', 'len(recs) == 1 and seq_eq(recs[0][0], c) and recs[0][1] == fc', **e)
    else:
        h.check('C04/no-record-with-a-zero-iteration-limit', 'len(recs) == 0', **e)
    h.check('C04/callback-once-with-the-best', 'len(cbs) == 1 and seq_eq(cbs[0][0], c)', **e)
    h.check('C05/termination-condition-initialised', 'len(terms) == 1', **e)
