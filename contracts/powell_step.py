"""C01 / C03 / C04 / C05: PowellDirectionalSolver._Step -- generation 0 in full, and the call-order obligation for every
generation.  The line searches of the later generations (scipy's brent) are numerical code outside the verifier's
reach: those generations are decided by the bounded layer (rtc/c01-c04, c08 reference runs)."""
import z3
from pyvc.contract import contract
from contracts._shared import save_probe, check_dump_after_record
from pyvc.values import PathEnd

SO = 'mystic/scipy_optimize.py'
AS = 'mystic/abstract_solver.py'
MONF = 'mystic/monitors.py'
MON = MONF + '::Monitor'
PW = SO + '::PowellDirectionalSolver'
XTOL, IMAX = 2e-3, 7          # non-default line-search settings (defaults: 1e-4, 500)


def _powell(h, nrec, stop_after_bootstrap=False, dim=None):
    D = h.int('nDim') if dim is None else dim
    if dim is None:
        h.assume('D >= 1', D=D)
    inplace = h.choice('constraints_in_place', [False, True])
    strict = h.choice('useStrictRange', [False, True])
    cons = h.fn('CONS', ret='same_nd', log='cons_calls', inplace=inplace)
    cost = h.fn('OBJECTIVE', ret='xreal', log='evals')      # the decorated objective (contracts/decorate.py)
    cb = h.fn('CALLBACK', ret='none', log='callback', truthy=h.bool('callback_object_is_truthy'))
    term = h.fn('TERMINATION', ret='bool', log='termination')
    x0 = h.list_real('x0', nd=True, n=D)
    pop = h.clist([x0])
    xs = h.clist([0.0] * nrec)
    stepmon = h.obj(MON, _x=xs, _y=h.clist([0.0] * nrec), _id=h.clist([]), _info=h.clist([]), k=None, _npts=None, label='ChiSquare')
    maxiter = h.choice('maxiter', [0, 7])
    s = h.obj(PW, nDim=D, nPop=1, population=pop, popEnergy=h.clist([h.inf()]), _bestSolution=None, _bestEnergy=None,
              _stepmon=stepmon, _useStrictRange=strict, _constraints=cons, _strictbounds=cons, _direc=None,
              xtol=1e-4, imax=500, id=None, _termination=term, _maxiter=maxiter, _energy_history=None, _solution_history=None,
              _PowellDirectionalSolver__internals=h.clist([x0, None, 0, 0.0]))
    order = {'processed': False}

    def process_inputs(I, c, args, kwargs):
        order['processed'] = True
        return I.st.alloc('dict', {'callback': cb})

    def bootstrap(I, c, args, kwargs):
        I.st.check('C03/step-settings-processed-before-the-objective-is-bootstrapped', order['processed'] is True)
        if stop_after_bootstrap:
            raise PathEnd()
        return cost

    def mon_call(I, c, args, kwargs):
        from pyvc import models as Mo
        I.st.ghost.setdefault('records', []).append((Mo.snapshot(I, args[1]), args[2]))
        return None
    h.set_summaries({(SO, 'PowellDirectionalSolver._process_inputs'): process_inputs,
                     (AS, 'AbstractSolver._bootstrap_objective'): bootstrap,
                     (AS, 'AbstractSolver.__save_state'): save_probe,
                     ('mystic/constraints.py', 'and_'): lambda I, c, a, k: cons,
                     (MONF, 'Monitor.__call__'): mon_call})
    return s, D, x0, cons, cost, maxiter


@contract('C03/Powell._Step/call-order', ['C03', 'C02'], PW + '._Step', native=False)
def powell_order(h):
    """every generation (0, 1, later): the keyword settings of this Step (constraints=, penalty=, ...) are processed
    before the objective is fetched, so they are in force for its evaluations"""
    if not h.is_sym():
        h.unsupported('symbolic only')
    nrec = h.choice('records_in_step_monitor', [0, 1, 3])
    s, D, x0, cons, cost, maxiter = _powell(h, nrec, stop_after_bootstrap=True)
    h.call(h.getattr(s, '_Step'))


@contract('C01/Powell._Step/generation=0', ['C01', 'C03', 'C04'], PW + '._Step', native=False)
def powell_gen0(h):
    """the initial evaluation: the guess is constrained first, the objective is evaluated exactly once and exactly there,
    the stored best is that point with that energy, one step-monitor record (unless the iteration limit is 0),
    one callback, the termination condition is initialised"""
    if not h.is_sym():
        h.unsupported('symbolic only')
    s, D, x0, cons, cost, maxiter = _powell(h, 0)
    g0 = h.snapshot(x0)
    h.call(h.getattr(s, '_Step'))
    c = h.call(h.fn('CONS', ret='same_nd'), g0)
    evals, recs, cbs, terms = h.log('evals'), h.log('records'), h.log('callback'), h.log('termination')
    fc = h.call(h.fn('OBJECTIVE', ret='xreal'), c)
    e = dict(s=s, c=c, evals=evals, recs=recs, cbs=cbs, terms=terms, fc=fc, D=D)
    h.check('C03/objective-evaluated-once-at-the-constrained-guess', 'len(evals) == 1 and seq_eq(evals[0][0], c)', **e)
    h.check('C01/stored-best-is-the-evaluated-point-with-its-energy',
            'seq_eq(s.population[0], c) and s.popEnergy[0] == fc and seq_eq(s.bestSolution, c) and s.bestEnergy == fc', **e)
    if maxiter != 0:
        h.check('C04/one-step-monitor-record-of-the-best', 'len(recs) == 1 and seq_eq(recs[0][0], c) and recs[0][1] == fc', **e)
    else:
        h.check('C04/no-record-with-a-zero-iteration-limit', 'len(recs) == 0', **e)
    h.check('C04/callback-once-with-the-best', 'len(cbs) == 1 and seq_eq(cbs[0][0], c)', **e)
    h.check('C05/termination-condition-initialised', 'len(terms) == 1', **e)


@contract('C08/Powell._Step/generation=0/direction-set', ['C08'], PW + '._Step', native=False)
def powell_direc0(h):
    """the direction set the method starts from is a FLOAT array holding the unit vectors (no `direc` given) resp. the
    caller's directions, whatever number type they were given in: the later iterations store conjugate directions INTO
    this array (`direc[-1] = direc1`), and an integer array would truncate them"""
    if not h.is_sym():
        h.unsupported('symbolic only')
    form = h.choice('direc_given_as', ['None', 'float-lists', 'int-lists', 'int-array', 'float-array', 'mixed-lists'])
    s, D, x0, cons, cost, maxiter = _powell(h, 0, dim=2)
    kinds = {'None': None, 'float-lists': ('real', 'real'), 'float-array': ('real', 'real'), 'int-lists': ('int', 'int'),
             'int-array': ('int', 'int'), 'mixed-lists': ('int', 'real')}[form]
    if kinds is None:
        want = [[1, 0], [0, 1]]
    else:
        want = [[getattr(h, kinds[r])('d%d%d' % (r, c_)) for c_ in range(2)] for r in range(2)]
        nd = form.endswith('array')
        h.set_field(s, '_direc', h.clist([h.clist(list(row), nd=nd) for row in want], nd=nd))
    h.call(h.getattr(s, '_Step'))
    d = h.field(s, '_direc')
    e = dict(d=d, **{'w%d%d' % (r, c_): want[r][c_] for r in range(2) for c_ in range(2)})
    h.check('direction-set-is-a-float-array', 'd.dtype == float and d[0].dtype == float and d[1].dtype == float', **e)
    h.check('direction-set-holds-the-given-directions', 'len(d) == 2 and len(d[0]) == 2 and len(d[1]) == 2 and '
            'd[0][0] == w00 and d[0][1] == w01 and d[1][0] == w10 and d[1][1] == w11', **e)


# ---------------------------------------------------------------------------- a later generation, dimension 2
def _vec2(h, name):
    return [h.real('%s_%d' % (name, k)) for k in range(2)]


def _powell_iteration(h, later):
    """Powell's direction-set method, one iteration at dimension 2, step for step against the textbook (Appendix A.6) with
    the SAME abstract line search on both sides.  LS(p, xi) = some real step length alpha (an uninterpreted function of
    the two vectors); the line search returns (F(p + alpha xi), p + alpha xi, alpha xi) -- its assumed contract (scipy's
    brent is numerical code outside reach; the bounded layer compares whole runs with scipy.optimize.fmin_powell).
    F (the decorated objective) and CONS (the constraints in force) are abstract; energies are finite here."""
    if not h.is_sym():
        h.unsupported('symbolic only')
    N = 2
    # (in-place constraints and callable-object callbacks are covered by the generation-0 / call-order contracts above;
    # here they would only double the number of paths through the nonlinear extrapolation test)
    cons = h.fn('CONS', ret='same_nd')
    F = h.fn('OBJECTIVE', ret='real', log='evals')
    Fp = h.fn('OBJECTIVE', ret='real')
    alpha = h.fn('LS_ALPHA', ret='real')
    cb = h.fn('CALLBACK', ret='none', log='callback')
    x, x1 = _vec2(h, 'x'), _vec2(h, 'x1')
    d = [_vec2(h, 'direc0'), _vec2(h, 'direc1')]
    fval, fx, delta = h.real('fval'), h.real('fx'), h.real('delta')
    bigind = h.choice('bigind', [0, 1])
    xa = h.clist(list(x), nd=True)
    x1a = h.clist(list(x1), nd=True)
    direc = h.clist([h.clist(list(d[0]), nd=True), h.clist(list(d[1]), nd=True)], nd=True)
    nrec = 3 if later else 1
    stepmon = h.obj(MON, _x=h.clist([0.0] * nrec), _y=h.clist([3.0, 2.0, 1.0][:nrec]), _id=h.clist([]), _info=h.clist([]), k=None, _npts=None, label='s')
    s = h.obj(PW, nDim=N, nPop=1, population=h.clist([xa]), popEnergy=h.clist([fval]), _bestSolution=None, _bestEnergy=None,
              _stepmon=stepmon, _useStrictRange=False, _constraints=cons, _strictbounds=cons, _direc=direc,
              xtol=XTOL, imax=IMAX, id=None, _termination=h.fn('TERMINATION', ret='bool'), _maxiter=100,
              _energy_history=h.clist([3.0, 2.0, 1.0]) if later else None, _solution_history=None,
              _PowellDirectionalSolver__internals=h.clist([x1a, fx, bigind, delta]))
    order = {'processed': False}

    def process_inputs(I, c, args, kwargs):
        order['processed'] = True
        return I.st.alloc('dict', {'callback': cb})

    def bootstrap(I, c, args, kwargs):
        I.st.check('C03/step-settings-processed-before-the-objective-is-bootstrapped', order['processed'] is True)
        return F

    def mon_call(I, c, args, kwargs):
        from pyvc import models as Mo
        I.st.ghost.setdefault('records', []).append((Mo.snapshot(I, args[1]), args[2]))
        return None

    ls_settings = []

    def linesearch(I, c, args, kwargs):
        func, p, xi = args[0], args[1], args[2]
        ls_settings.append((kwargs.get('tol', args[3] if len(args) > 3 else 'default'), kwargs.get('maxiter', args[4] if len(args) > 4 else 'default')))
        a = I.call(alpha, [p, xi], {})
        step = I.binop(__import__('ast').Mult(), xi, a)
        q = I.binop(__import__('ast').Add(), p, step)
        return (I.call(func, [q], {}), q, step)
    h.set_summaries({(SO, 'PowellDirectionalSolver._process_inputs'): process_inputs,
                     (AS, 'AbstractSolver._bootstrap_objective'): bootstrap,
                     (AS, 'AbstractSolver.__save_state'): save_probe,
                     (SO, '_linesearch_powell'): linesearch, (MONF, 'Monitor.__call__'): mon_call})
    h.call(h.getattr(s, '_Step'))
    # "given the same Brent line search": every line search of the iteration runs with the solver's configured
    # tolerance (xtol * 100) and iteration cap (imax), non-default values here
    h.check('C08/every-line-search-uses-the-configured-tolerance-and-iteration-cap', 'ok',
            ok=(len(ls_settings) >= N and all(mi == IMAX and isinstance(t, float) and abs(t - XTOL * 100) < 1e-15 for t, mi in ls_settings)))

    # ------------------------------------------------------------------ the textbook iteration on scalars
    V = lambda items: h.clist(list(items), nd=True)                                  # noqa: E731
    ev = h.ev

    def LS(p, xi):
        a = h.call(alpha, V(p), V(xi))
        stp = [ev('a * t', a=a, t=t) for t in xi]
        q = [ev('u + w', u=u, w=w) for u, w in zip(p, stp)]
        return h.call(Fp, V(q)), q, stp

    def CONS(p):
        r = h.call(h.fn('CONS', ret='same_nd'), V(p))
        return [ev('r[%d]' % k, r=r) for k in range(N)]
    nx1 = list(x)
    cx, cf, cd = list(x), fval, [list(d[0]), list(d[1])]
    if not later:
        return _powell_first_iteration(h, s, cx, cf, cd, nx1, LS, CONS, V, N)
    d1 = [ev('a - b', a=a, b=b) for a, b in zip(x, x1)]
    x2 = [ev('2 * a - b', a=a, b=b) for a, b in zip(x, x1)]
    fx2 = h.call(Fp, V(x2))
    t = ev('2.0 * (fx + fx2 - 2.0 * f) * (fx - f - dl) * (fx - f - dl) - dl * (fx - fx2) * (fx - fx2)', fx=fx, fx2=fx2, f=fval, dl=delta)
    took = h.ev('fx > fx2 and t < 0.0', fx=fx, fx2=fx2, t=t)
    tk = h.I.truth_term(took)
    if not isinstance(tk, bool):
        tk = h.st.branch(tk)
    if tk:
        cf, cx, nd1 = LS(cx, d1)
        cd[bigind] = list(cd[N - 1])
        cd[N - 1] = nd1
    rec_x, rec_f = list(cx), cf
    nfx, nbig, ndel = cf, 0, 0.0
    for i in range(N):
        f2 = cf
        cf, cx, _ = LS(cx, cd[i])
        better = h.I.truth_term(ev('f2 - cf > dl', f2=f2, cf=cf, dl=ndel))
        if not isinstance(better, bool):
            better = h.st.branch(better)
        if better:
            ndel, nbig = ev('f2 - cf', f2=f2, cf=cf), i
        cx = CONS(cx)
    recs, cbs = h.log('records'), h.log('callback')
    ints = h.field(s, '_PowellDirectionalSolver__internals')
    e = dict(s=s, recs=recs, cbs=cbs, ints=ints, cx=V(cx), cf=cf, rx=V(rec_x), rf=rec_f, nx1=V(nx1), nfx=nfx, nbig=nbig, ndel=ndel,
             d0=V(cd[0]), d1=V(cd[1]))
    h.check('C08/extrapolation-test-and-record', 'len(recs) == 1 and seq_eq(recs[0][0], rx) and recs[0][1] == rf', **e)
    h.check('C08/direction-set-updated-as-powell-prescribes', 'seq_eq(s._direc[0], d0) and seq_eq(s._direc[1], d1)', **e)
    h.check('C08/result-of-the-line-searches-along-every-direction',
            'seq_eq(s.population[0], cx) and s.popEnergy[0] == cf and seq_eq(s.bestSolution, cx) and s.bestEnergy == cf', **e)
    h.check('C08/bookkeeping-for-the-next-iteration',
            'seq_eq(ints[0], nx1) and ints[1] == nfx and ints[2] == nbig and ints[3] == ndel', **e)
    h.check('C04/callback-once-with-the-best', 'len(cbs) == 1 and seq_eq(cbs[0][0], cx)', **e)


def _dloop(h, cx, cf, cd, LS, CONS, N):
    """line searches along every direction, tracking the largest decrease"""
    ev = h.ev
    nbig, ndel = 0, 0.0
    for i in range(N):
        f2 = cf
        cf, cx, _ = LS(cx, cd[i])
        better = h.I.truth_term(ev('f2 - cf > dl', f2=f2, cf=cf, dl=ndel))
        if not isinstance(better, bool):
            better = h.st.branch(better)
        if better:
            ndel, nbig = ev('f2 - cf', f2=f2, cf=cf), i
        cx = CONS(cx)
    return cx, cf, nbig, ndel


def _powell_first_iteration(h, s, cx, cf, cd, nx1, LS, CONS, V, N):
    """generation 1: no extrapolation yet -- remember the start (x1, fx), search along every direction; the new energy is
    appended to the (decoupled) energy history, no step-monitor record is written in this iteration (finding F15)"""
    nfx = cf
    cx, cf, nbig, ndel = _dloop(h, cx, cf, cd, LS, CONS, N)
    recs, cbs = h.log('records'), h.log('callback')
    ints = h.field(s, '_PowellDirectionalSolver__internals')
    e = dict(s=s, recs=recs, cbs=cbs, ints=ints, cx=V(cx), cf=cf, nx1=V(nx1), nfx=nfx, nbig=nbig, ndel=ndel)
    h.check('C08/result-of-the-line-searches-along-every-direction',
            'seq_eq(s.population[0], cx) and s.popEnergy[0] == cf and seq_eq(s.bestSolution, cx) and s.bestEnergy == cf', **e)
    h.check('C08/bookkeeping-for-the-next-iteration',
            'seq_eq(ints[0], nx1) and ints[1] == nfx and ints[2] == nbig and ints[3] == ndel', **e)
    h.check('C04/energy-history-gets-the-new-energy', 'len(s._energy_history) == 2 and s._energy_history[1] == cf', **e)
    h.check('C04/callback-once-with-the-best', 'len(cbs) == 1 and seq_eq(cbs[0][0], cx)', **e)


@contract('C08/Powell._Step/generation>1,N=2', ['C08'], PW + '._Step', native=False)
def powell_later(h):
    """Powell's direction-set method, one iteration at dimension 2, step for step against the textbook (Appendix A.6) with
    the SAME abstract line search on both sides (see _powell_iteration)"""
    _powell_iteration(h, True)


@contract('C08/Powell._Step/generation=1,N=2', ['C08'], PW + '._Step', native=False)
def powell_first(h):
    _powell_iteration(h, False)
