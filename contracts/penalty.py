"""C15: contracts of the nine penalty factories of mystic/penalty.py (closures dec.func, error, iter,
iteration, clear, store, stored), written from Appendix A.2 / the property statement.

c = condition(x); P = k*Pow(h,n); f = decorated function value.  `condition` and `f` are abstract.
"""
from pyvc.contract import contract, loop

P = 'mystic/penalty.py::'

EQ = ['quadratic_equality', 'linear_equality', 'uniform_equality', 'lagrange_equality']
INEQ = ['uniform_inequality', 'barrier_inequality', 'quadratic_inequality', 'linear_inequality', 'lagrange_inequality']

# documented added amount when violated (as a contract expression in c, k, h, n)
FORMULA = {
    'quadratic_equality': 'k*Pow(h,n)*c*c',
    'linear_equality': 'k*Pow(h,n)*abs(c)',
    'uniform_equality': 'k*Pow(h,n)',
    'uniform_inequality': 'k*Pow(h,n)',
    'quadratic_inequality': '2*k*Pow(h,n)*c*c',
    'linear_inequality': '2*k*Pow(h,n)*c',
}


def _setup(h, ptype, n_kind='sym', positive=True):
    k, hh = h.real('k'), h.real('h')
    if positive:
        h.assume('k > 0 and h > 0', k=k, h=hh)
    cond = h.fn('condition', ret='real', raises=['ZeroDivisionError'])
    f = h.fn('f', ret='real')
    dec = h.call(h.get(P + ptype), cond, k=k, h=hh)
    func = h.call(dec, f)
    # one configured decorator may be applied to several functions (penalize = quadratic_equality(c, k=..);
    # pa = penalize(cost_a); pb = penalize(cost_b)): each result penalises ITS OWN decorated function
    if h.choice('decorator_applied_to_another_function_afterwards', [False, True]):
        h.call(dec, h.fn('another_f', ret='real'))
    if n_kind == 'sym':
        n = h.int('n')
        h.assume('n >= 0', n=n)
        h.call(h.getattr(func, 'iter'), n)
    else:
        n = 0
    return k, hh, cond, f, func, n


def _value_case(h, ptype):
    """dec(f).func(x): ZeroDivisionError -> inf; satisfied -> exactly f(x); violated -> f(x) + documented, > 0"""
    lag = ptype.startswith('lagrange')
    k, hh, cond, f, func, n = _setup(h, ptype, 'zero' if lag else 'sym')
    x = h.list_real('x')
    r = h.call(func, x)
    c, exc = h.call_raises(cond, x)
    if exc is not None:
        h.check('zero-division-gives-inf', 'isinf(r)', r=r)
        return
    fx = h.call(f, x)
    env = dict(r=r, c=c, fx=fx, k=k, h=hh, n=n)
    sat = 'c == 0' if ptype in EQ else 'c <= 0'
    h.cover('feasible', sat, **env)
    h.cover('violated', 'not (%s)' % sat, **env)
    h.check('zero-on-feasible', 'implies(%s, eq(r, fx))' % sat, **env)
    if ptype == 'barrier_inequality':
        h.check('violated-gives-inf', 'implies(c > 0, isinf(r))', **env)
        return
    if lag:
        # n = 0, no multiplier history: p = k*c^2 (equality) / k*max(0,c)^2 (inequality)
        h.check('formula-when-violated', 'implies(not (%s), eq(r, fx + k*c*c))' % sat, **env)
    else:
        h.check('formula-when-violated', 'implies(not (%s), eq(r, fx + %s))' % (sat, FORMULA[ptype]), **env)
    h.check('positive-when-violated', 'implies(not (%s), gt(r, fx))' % sat, **env)


def _error_case(h, ptype):
    k, hh, cond, f, func, n = _setup(h, ptype, 'zero')
    x = h.list_real('x')
    e = h.call(h.getattr(func, 'error'), x)
    c, exc = h.call_raises(cond, x)
    if exc is not None:
        h.check('error-zero-division-gives-inf', 'isinf(e)', e=e)
        return
    mag = 'abs(c)' if ptype in EQ else 'max(0., c)'
    h.check('error-is-violation-magnitude', 'eq(e, %s)' % mag, e=e, c=c)


def _stack_error(h, outer, inner):
    """error(x) of a stack is the root-sum-square of the levels' violation magnitudes"""
    k, hh = h.real('k'), h.real('h')
    h.assume('k > 0 and h > 0', k=k, h=hh)
    c1, c2 = h.fn('cond1', ret='real'), h.fn('cond2', ret='real')
    f = h.fn('f', ret='real')
    inner_f = h.call(h.call(h.get(P + inner), c2, k=k, h=hh), f)
    outer_f = h.call(h.call(h.get(P + outer), c1, k=k, h=hh), inner_f)
    x = h.list_real('x')
    e = h.call(h.getattr(outer_f, 'error'), x)
    a, b = h.call(c1, x), h.call(c2, x)
    m1 = 'abs(a)' if outer in EQ else 'max(0., a)'
    m2 = 'abs(b)' if inner in EQ else 'max(0., b)'
    h.check('stack-error-is-the-root-sum-square-of-the-levels-violations', 'e >= 0 and e * e == %s * %s + %s * %s' % (m1, m1, m2, m2), e=e, a=a, b=b)


def _iter_case(h, ptype):
    """iter() advances, iter(i) sets, clear() resets n and empties the stored list; nothing else changes:
    the value of func at any x afterwards is the value of a fresh penalty at that n"""
    k, hh, cond, f, func, n = _setup(h, ptype, 'sym')
    it, iteration, clear, stored = (h.getattr(func, a) for a in ('iter', 'iteration', 'clear', 'stored'))
    h.check('iter(i)-sets', 'iteration() == n', iteration=lambda: h.call(iteration), n=n) if False else None
    v = h.call(iteration)
    h.check('iter(i)-sets-n', 'v == n', v=v, n=n)
    h.call(it)
    v = h.call(iteration)
    h.check('iter()-advances-by-one', 'v == n + 1', v=v, n=n)
    h.call(clear)
    v = h.call(iteration)
    s = h.call(stored)
    h.check('clear-resets-n', 'v == 0', v=v)
    h.check('clear-empties-stored', 'len(s) == 0', s=s)
    if ptype not in ('barrier_inequality',):
        # frame: after clear the penalty behaves as a fresh one (k, h, condition, decorated f untouched)
        k2, h2, cond2, f2, func2, _ = k, hh, cond, f, h.call(h.call(h.get(P + ptype), cond, k=k, h=hh), f), 0
        x = h.list_real('x')
        r1, e1 = h.call_raises(func, x)
        r2, e2 = h.call_raises(func2, x)
        h.check('clear-frame-same-as-fresh', 'e1 == e2 and (e1 is not None or eq(r1, r2))', r1=r1, r2=r2, e1=e1, e2=e2)


def _stack_case(h, ptype, inner):
    """stacked penalties add, iter/clear go through nested penalties"""
    k, hh = h.real('k'), h.real('h')
    k2, h2 = h.real('k2'), h.real('h2')
    h.assume('k > 0 and h > 0 and k2 > 0 and h2 > 0', k=k, h=hh, k2=k2, h2=h2)
    c1 = h.fn('cond1', ret='real')
    c2 = h.fn('cond2', ret='real')
    f = h.fn('f', ret='real')
    inner_f = h.call(h.call(h.get(P + inner), c2, k=k2, h=h2), f)
    outer_f = h.call(h.call(h.get(P + ptype), c1, k=k, h=hh), inner_f)
    alone_outer = h.call(h.call(h.get(P + ptype), c1, k=k, h=hh), f)
    n = h.int('n')
    h.assume('n >= 0', n=n)
    h.call(h.getattr(outer_f, 'iter'), n)
    h.call(h.getattr(alone_outer, 'iter'), n)
    ni = h.call(h.getattr(inner_f, 'iteration'))
    h.check('iter-reaches-nested', 'ni == n', ni=ni, n=n)
    x = h.list_real('x')
    r = h.call(outer_f, x)
    a = h.call(alone_outer, x)
    b = h.call(inner_f, x)
    fx = h.call(f, x)
    h.check('stacked-penalties-add', 'eq(r, fx + (a - fx) + (b - fx))', r=r, a=a, b=b, fx=fx)
    h.call(h.getattr(outer_f, 'clear'))
    ni = h.call(h.getattr(inner_f, 'iteration'))
    no = h.call(h.getattr(outer_f, 'iteration'))
    h.check('clear-reaches-nested', 'ni == 0 and no == 0', ni=ni, no=no)


def _mk(ptype):
    fn = P + ptype + '.dec.func'
    loops = {}
    if ptype.startswith('lagrange'):
        pass
    # the penalties generated from constraint text (C14) are stacks of the two quadratic types: their contracts are part
    # of C14's "equal to the documented sum of per-line penalty terms"
    props = ['C15', 'C14'] if ptype in ('quadratic_equality', 'quadratic_inequality') else ['C15']
    contract('C15/%s/value' % ptype, props, fn)(lambda h, p=ptype: _value_case(h, p))
    contract('C15/%s/error' % ptype, ['C15'], P + ptype + '.error')(lambda h, p=ptype: _error_case(h, p))
    contract('C15/%s/iter-clear' % ptype, props, P + ptype + '.iter',
             loops=dict([loop('mystic/penalty.py', ptype + '.clear', 0,
                              '[_y.pop() for i in range(len(_y))]',
                              ['len(_y) == entry(len(_y)) - _i_'], modifies=['_y'])]))(
        lambda h, p=ptype: _iter_case(h, p))


for _p in EQ + INEQ:
    _mk(_p)
for _k, _o in enumerate(EQ + INEQ):        # every type once as the outer level, over a varying inner type
    _i = (EQ + INEQ)[(_k + 3) % 9]
    contract('C15/stack-error/%s(%s)' % (_o, _i), ['C15'], P + _o + '.error')(lambda h, o=_o, i=_i: _stack_error(h, o, i))

for _o, _i in [('quadratic_equality', 'quadratic_inequality'), ('linear_inequality', 'quadratic_equality'),
               ('uniform_equality', 'linear_equality'), ('quadratic_inequality', 'uniform_inequality'),
               ('quadratic_inequality', 'quadratic_inequality'), ('quadratic_inequality', 'quadratic_equality')]:
    contract('C15/stack/%s(%s)' % (_o, _i), ['C15', 'C14'] if 'quadratic' in _o and 'quadratic' in _i else ['C15'],
             P + _o + '.dec.func')(lambda h, o=_o, i=_i: _stack_case(h, o, i))


# ---------------------------------------------------------------- Lagrange types with iteration history
def _lagrange_loop(ptype, invs):
    return dict([loop('mystic/penalty.py', ptype + '.dec.func', 0, 'for i in range(_n[0])', invs)])


def _lagrange_history(h, ptype):
    """n >= 0 iterations, multiplier history all zero (nothing stored): the multiplier stays 0 and the value is
    f + k*h^n * (c^2 | max(0,c)^2); zero on the feasible set, positive when violated"""
    k, hh, cond, f, func, n = _setup(h, ptype, 'sym')
    x = h.list_real('x')
    r = h.call(func, x)
    c, exc = h.call_raises(cond, x)
    if exc is not None:
        h.check('zero-division-gives-inf', 'isinf(r)', r=r)
        return
    fx = h.call(f, x)
    env = dict(r=r, c=c, fx=fx, k=k, h=hh, n=n)
    sat = 'c == 0' if ptype in EQ else 'c <= 0'
    h.check('zero-on-feasible', 'implies(%s, eq(r, fx))' % sat, **env)
    h.check('formula-when-violated', 'implies(not (%s), eq(r, fx + k*Pow(h,n)*c*c))' % sat, **env)
    h.check('positive-when-violated', 'implies(not (%s), gt(r, fx))' % sat, **env)


contract('C15/lagrange_inequality/value-n-iterations-empty-history', ['C15'], P + 'lagrange_inequality.dec.func',
         loops=_lagrange_loop('lagrange_inequality', ['beta == 0', '_k == k*Pow(h, _i_)']))(
    lambda h: _lagrange_history(h, 'lagrange_inequality'))
contract('C15/lagrange_equality/value-n-iterations-empty-history', ['C15'], P + 'lagrange_equality.dec.func',
         loops=_lagrange_loop('lagrange_equality', ['lam == 0', '_k == k*Pow(h, _i_)']))(
    lambda h: _lagrange_history(h, 'lagrange_equality'))


def _lagrange_stored(h, ptype):
    """store(x, i): _y[i] = condition(x), zero padding below; stored(i) gives it back, 0.0 beyond the list"""
    k, hh, cond, f, func, n = _setup(h, ptype, 'zero')
    store, stored = h.getattr(func, 'store'), h.getattr(func, 'stored')
    # the penalty may already have been advanced: an EXPLICIT index (0 included) addresses that iteration's slot,
    # whatever the current iteration is
    m = h.int('iterations_done_before')
    h.assume('m >= 0', m=m)
    h.call(h.getattr(func, 'iter'), m)
    x = h.list_real('x')
    i = h.int('i')
    h.assume('i >= 0', i=i)
    c, exc = h.call_raises(cond, x)
    h.call(store, x, i)
    v = h.call(stored, i)
    j = h.int('j')
    h.assume('j >= 0 and j != i', j=j, i=i)
    w = h.call(stored, j)
    if exc is None:
        h.check('store-then-stored', 'eq(v, c)', v=v, c=c)
    else:
        h.check('store-zero-division-stores-inf', 'isinf(v)', v=v)
    h.check('other-entries-zero', 'w == 0', w=w)


for _p in ('lagrange_inequality', 'lagrange_equality'):
    contract('C15/%s/store-stored' % _p, ['C15'], P + _p + '.store')(lambda h, p=_p: _lagrange_stored(h, p))


def _lagrange_with_history(h, ptype):
    """the clause of C15 that does NOT hold for the augmented-Lagrangian types once multipliers are stored
    (finding F8): zero on the feasible set / positive when violated, n = 1 with one stored value"""
    k, hh, cond, f, func, _ = _setup(h, ptype, 'zero')
    x0 = h.list_real('x0')
    x = h.list_real('x')
    c0, e0 = h.call_raises(cond, x0)
    c, exc = h.call_raises(cond, x)
    if e0 is not None or exc is not None:
        h.unsupported('division case covered elsewhere') if False else None
        return
    h.call(h.getattr(func, 'store'), x0, 0)
    h.call(h.getattr(func, 'iter'), 1)
    r = h.call(func, x)
    fx = h.call(f, x)
    sat = 'c == 0' if ptype in EQ else 'c <= 0'
    h.check('zero-on-feasible#n>=1,stored!=0', 'implies(%s, eq(r, fx))' % sat, r=r, fx=fx, c=c)
    h.check('positive-when-violated#n>=1,stored!=0', 'implies(not (%s), gt(r, fx))' % sat, r=r, fx=fx, c=c)


for _p in ('lagrange_inequality', 'lagrange_equality'):
    contract('C15/%s/value-with-stored-multipliers' % _p, ['C15'], P + _p + '.dec.func')(
        lambda h, p=_p: _lagrange_with_history(h, p))


# ---------------------------------------------------------------- clear() really empties the stored history
def _store_clear(h, ptype):
    """store(x, i) then clear(): the history is empty again, stored(i) gives the 0.0 default, n is 0 (and a later
    evaluation uses no stale multiplier: same value as a fresh penalty)"""
    k, hh, cond, f, func, _ = _setup(h, ptype, 'zero')
    store, stored, clear, it, iteration = (h.getattr(func, a) for a in ('store', 'stored', 'clear', 'iter', 'iteration'))
    x0 = h.list_real('x0')
    i = h.choice('i', [0, 2])
    c0, e0 = h.call_raises(cond, x0)
    h.call(store, x0, i)
    h.call(it)
    h.call(clear)
    s = h.call(stored)
    h.check('clear-empties-stored-history', 'len(s) == 0', s=s)
    h.check('stored(i)-default-after-clear', 'v == 0', v=h.call(stored, i))
    h.check('clear-resets-n', 'n == 0', n=h.call(iteration))
    h.call(it)          # n = 1 again, nothing stored: the multiplier must be 0
    fresh = h.call(h.call(h.get(P + ptype), cond, k=k, h=hh), f)
    h.call(h.getattr(fresh, 'iter'))
    x = h.list_real('x')
    r1, e1 = h.call_raises(func, x)
    r2, e2 = h.call_raises(fresh, x)
    h.check('after-clear-behaves-as-fresh-penalty-at-the-same-n', 'e1 == e2 and (e1 is not None or eq(r1, r2))', r1=r1, r2=r2, e1=e1, e2=e2)


for _p in ('lagrange_inequality', 'lagrange_equality'):
    contract('C15/%s/store-clear' % _p, ['C15'], P + _p + '.clear',
             loops=dict([loop('mystic/penalty.py', _p + '.clear', 0, '[_y.pop() for i in range(len(_y))]',
                              ['len(_y) == entry(len(_y)) - _i_'], modifies=['_y']),
                         loop('mystic/penalty.py', _p + '.dec.func', 0, 'for i in range(_n[0])',
                              ['beta == 0' if _p.endswith('inequality') else 'lam == 0', '_k == k*Pow(h, _i_)'])]))(
        lambda h, p=_p: _store_clear(h, p))


# ---------------------------------------------------------------- iter() advances every level by one
def _iter_levels(h, outer, inner):
    """inner penalty advanced on its own to n = j, then wrapped; outer.iter() (no argument) advances BOTH by one;
    outer.iter(i) sets both to i"""
    k, hh = h.real('k'), h.real('h')
    h.assume('k > 0 and h > 0', k=k, h=hh)
    c1, c2 = h.fn('cond1', ret='real'), h.fn('cond2', ret='real')
    f = h.fn('f', ret='real')
    inner_f = h.call(h.call(h.get(P + inner), c2, k=k, h=hh), f)
    j = h.int('j')
    h.assume('j >= 0', j=j)
    h.call(h.getattr(inner_f, 'iter'), j)
    outer_f = h.call(h.call(h.get(P + outer), c1, k=k, h=hh), inner_f)
    h.call(h.getattr(outer_f, 'iter'))
    h.check('iter()-advances-each-level-by-one', 'no == 1 and ni == j + 1',
            no=h.call(h.getattr(outer_f, 'iteration')), ni=h.call(h.getattr(inner_f, 'iteration')), j=j)
    i = h.int('i')
    h.assume('i >= 0', i=i)
    h.call(h.getattr(outer_f, 'iter'), i)
    h.check('iter(i)-sets-every-level', 'no == i and ni == i',
            no=h.call(h.getattr(outer_f, 'iteration')), ni=h.call(h.getattr(inner_f, 'iteration')), i=i)


for _o, _i in [('quadratic_equality', 'quadratic_inequality'), ('linear_inequality', 'lagrange_equality'),
               ('uniform_equality', 'barrier_inequality'), ('lagrange_inequality', 'uniform_inequality'),
               ('barrier_inequality', 'linear_equality'), ('quadratic_inequality', 'quadratic_equality'),
               ('quadratic_inequality', 'quadratic_inequality'), ('linear_equality', 'uniform_equality'),
               ('uniform_inequality', 'lagrange_inequality'), ('lagrange_equality', 'linear_inequality')]:
    contract('C15/stack-iter/%s(%s)' % (_o, _i), ['C15', 'C14'] if 'quadratic' in _o and 'quadratic' in _i else ['C15'],
             P + _o + '.iter')(lambda h, o=_o, i=_i: _iter_levels(h, o, i))


# ---------------------------------------------------------------- the documented multiplier recurrence, n = 2 and 3
def _lagrange_recurrence(h, ptype):
    """with stored values y_0 .. y_{n-1} (any reals) and n = 2 / 3 iterations the value is the documented augmented
    Lagrangian: pk_i = k*h**i;  inequality: beta_{i+1} = beta_i + 2*pk_i*max(-beta_i/(2*pk_i), y_i), value =
    pk_n*m**2 + beta_n*m + f(x) with m = max(-beta_n/(2*pk_n), c(x));  equality: lam_{i+1} = lam_i + 2*pk_i*y_i, value =
    pk_n*c**2 + lam_n*c + f(x)"""
    n = h.choice('iterations', [2, 3])
    k, hh, cond, f, func, _ = _setup(h, ptype, 'zero')
    xs = [h.list_real('x%d' % i) for i in range(n)]
    ys = []
    for i in range(n):
        y, e = h.call_raises(cond, xs[i])
        if e is not None:
            return                      # (division cases: store-stored contract)
        ys.append(y)
        h.call(h.getattr(func, 'store'), xs[i], i)
    h.call(h.getattr(func, 'iter'), n)
    x = h.list_real('x')
    c, exc = h.call_raises(cond, x)
    if exc is not None:
        return
    r = h.call(func, x)
    fx = h.call(f, x)
    ineq = ptype.endswith('inequality')
    mult, pk = 0, k
    for i in range(n):
        if ineq:
            mult = h.ev('b + 2*pk*max(-b/(2*pk), y)', b=mult, pk=pk, y=ys[i])
        else:
            mult = h.ev('b + 2*pk*y', b=mult, pk=pk, y=ys[i])
        pk = h.ev('pk*hh', pk=pk, hh=hh)
    if ineq:
        m = h.ev('max(-b/(2*pk), c)', b=mult, pk=pk, c=c)
    else:
        m = c
    h.check('value-is-the-documented-augmented-lagrangian', 'eq(r, pk*m*m + b*m + fx)', r=r, pk=pk, m=m, b=mult, fx=fx)


for _p in ('lagrange_inequality', 'lagrange_equality'):
    contract('C15/%s/multiplier-recurrence' % _p, ['C15'], P + _p + '.dec.func')(lambda h, p=_p: _lagrange_recurrence(h, p))


# ---------------------------------------------------------------- args= / kwds= of the factories, call-time arguments
def _penalty_options(h, ptype):
    """penalty(condition, args=(a,), kwds={'t': v})(f)(x, z, u=q): the CONDITION is evaluated at (x, a, t=v) -- its configured
    arguments --, the decorated FUNCTION at (x, z, u=q) -- the arguments of the call --, each exactly once, and the value is
    the documented one for those two results"""
    if not h.is_sym():
        h.unsupported('symbolic only')
    k, hh = h.real('k'), h.real('h')
    h.assume('k > 0 and h > 0', k=k, h=hh)
    a1, v, z, q = h.real('configured_arg'), h.real('configured_keyword'), h.real('call_arg'), h.real('call_keyword')
    cond = h.fn('CONDITION', ret='real', log='ccalls')
    f = h.fn('DECORATED', ret='real', log='fcalls')
    func = h.call(h.call(h.get(P + ptype), cond, h.tup(a1), h.dict(t=v), k=k, h=hh), f)
    x = h.vec('x', 2)
    r = h.call(func, x, z, u=q)
    cc, fc = h.log('ccalls'), h.log('fcalls')
    h.check('condition-called-once-with-its-configured-arguments', 'ok',
            ok=(len(cc) == 1))
    c = h.call(cond, x, a1, t=v)
    fx = h.call(f, x, z, u=q)
    sat = 'c == 0' if ptype in EQ else 'c <= 0'
    h.check('zero-added-where-the-condition-at-its-own-arguments-is-satisfied-and-f-gets-the-call-arguments', 'implies(%s, eq(r, fx))' % sat, r=r, c=c, fx=fx)
    h.check('function-called-once', 'len(fc) == 1', fc=fc)
    if ptype not in ('barrier_inequality',) and not ptype.startswith('lagrange'):
        h.check('violated-adds-the-documented-amount', 'implies(not (%s), eq(r, fx + %s))' % (sat, FORMULA[ptype]), r=r, c=c, fx=fx, k=k, h=hh, n=0)


for _p in EQ + INEQ:
    if _p == 'barrier_inequality':
        continue            # (its feasible-side value is finding F10)
    contract('C15/%s/with-options' % _p, ['C15', 'C14'], P + _p + '.dec.func', native=False)(lambda h, p=_p: _penalty_options(h, p))
