"""C11: the collapse DETECTORS of mystic/collapse.py under contract, at fixed small shapes (G recorded generations of N
parameters, all values symbolic): "a detector reports exactly the parameters (pairs) whose recorded history over the
look-back window meets its documented tolerance test, minus those already in its mask".

The numpy pipeline (array of the window, ptp / abs-max along axis 0, comparison against a column-shaped tolerance,
`where`) is executed by the symbolic interpreter; `numpy.where` on a symbolic boolean array decides each entry (one path
per truth assignment), so on each path the reported set is concrete and the obligation is `i in result  <=>  the
documented test holds for i and i is not masked`, for every i."""
from pyvc.contract import contract

CO = 'mystic/collapse.py::'
MON = 'mystic/monitors.py::Monitor'
N = 3
WINDOWS = [(3, 2), (3, 3), (2, 5), (1, 1), (3, 4), (3, 5)]   # incl. windows longer than the history but shorter than twice it          # (recorded generations, look-back `generations`)


def _monitor(h, G, n=N):
    rows = [h.vec('gen%d' % g, n) for g in range(G)]
    mon = h.obj(MON, _x=h.clist(rows), _y=h.clist([h.real('y%d' % g) for g in range(G)]), _id=h.clist([None] * G),
                _info=h.clist([]), k=None, _npts=None, label='ChiSquare')
    return mon, rows


@contract('C11/collapse_at', ['C11'], CO + 'collapse_at', samples=60)
def collapse_at(h):
    """change(i) = max - min over the window (target None) or max |x_i - target| (target a value or one value per
    parameter); reported <=> change(i) <= tolerance and i not masked"""
    G, look = h.choice('recorded_and_lookback', WINDOWS)
    tk = h.choice('target_form', ['None', 'value', 'per-parameter'])
    mk = h.choice('mask_form', ['None', 'empty', '{1}', '{0, 2}'])
    mon, rows = _monitor(h, G)
    tol = h.real('tolerance')
    target = None if tk == 'None' else h.real('target') if tk == 'value' else h.vec('targets', N)
    masked = {'None': (), 'empty': (), '{1}': (1,), '{0, 2}': (0, 2)}[mk]
    mask = None if mk == 'None' else set(masked)
    if mask is not None and h.is_sym():
        mask = h.st.alloc('set', list(masked))
    r = h.call(h.get(CO + 'collapse_at'), mon, target, tol, look, mask)
    win = rows[-look:] if look < G else rows
    for i in range(N):
        col = [w_[i] if not h.is_sym() else h.ev('w[%d]' % i, w=w_) for w_ in win]
        env = {'c%d' % j: v for j, v in enumerate(col)}
        names = ', '.join(sorted(env))
        if tk == 'None':
            change = h.ev('max(%s) - min(%s)' % (names, names) if len(col) > 1 else '0 * c0', **env)
        else:
            t = target if tk == 'value' else h.ev('t[%d]' % i, t=target)
            terms = ', '.join('abs(%s - t)' % nme for nme in sorted(env))
            change = h.ev('max(%s)' % terms if len(col) > 1 else terms, t=t, **env)
        inr = h.ev('%d in r' % i, r=r)
        if i in masked:
            h.check('masked-parameters-are-never-reported', 'not inr', inr=inr)
        else:
            h.check('reported-exactly-when-the-change-over-the-window-is-within-tolerance', 'iff(inr, change <= tol)', inr=inr, change=change, tol=tol)
    h.check('nothing-but-parameter-indices-reported', 'len(r) <= %d' % N, r=r)


AS_MASKS = {'None': None, 'empty': (), '{1}': (1,), '{(0, 2)}': ((0, 2),), '{(2, 1), 0}': ((2, 1), 0)}


def _pair_masked(mask, i, j):
    return any(m == (i, j) or m == (j, i) if isinstance(m, tuple) else m in (i, j) for m in (mask or ()))


@contract('C11/collapse_as', ['C11'], CO + 'collapse_as', samples=60)
def collapse_as(h):
    """d_g(i, j) = |x_g[i] - x_g[j]| over the window; reported <=> max_g d_g <= tolerance (offset False) resp.
    max_g d_g - min_g d_g <= tolerance (offset True: tracking at a distance), and the pair is not masked (a masked index
    masks every pair it is part of; a masked pair masks both orientations).  Pairs are reported as (i, j) with i < j."""
    G, look = h.choice('recorded_and_lookback', WINDOWS)
    offset = h.choice('offset', [False, True])
    mk = h.choice('mask_form', sorted(AS_MASKS))
    mon, rows = _monitor(h, G)
    tol = h.real('tolerance')
    masked = AS_MASKS[mk]
    mask = None if masked is None else set(masked)
    if mask is not None and h.is_sym():
        mask = h.st.alloc('set', list(masked))
    r = h.call(h.get(CO + 'collapse_as'), mon, offset, tol, look, mask)
    win = rows[-look:] if look < G else rows
    npairs = 0
    for i in range(N):
        for j in range(i + 1, N):
            npairs += 1
            env = {}
            for g, w_ in enumerate(win):
                env['a%d' % g] = w_[i] if not h.is_sym() else h.ev('w[%d]' % i, w=w_)
                env['b%d' % g] = w_[j] if not h.is_sym() else h.ev('w[%d]' % j, w=w_)
            ds = ['abs(a%d - b%d)' % (g, g) for g in range(len(win))]
            mx = 'max(%s)' % ', '.join(ds) if len(ds) > 1 else ds[0]
            mn = 'min(%s)' % ', '.join(ds) if len(ds) > 1 else ds[0]
            change = h.ev('%s - %s' % (mx, mn) if offset else mx, **env)
            inr = h.ev('(%d, %d) in r' % (i, j), r=r)
            if _pair_masked(masked, i, j):
                h.check('masked-pairs-are-never-reported', 'not inr', inr=inr)
            else:
                h.check('reported-exactly-when-the-pair-distance-over-the-window-is-within-tolerance', 'iff(inr, change <= tol)',
                        inr=inr, change=change, tol=tol)
            h.check('pairs-reported-in-one-orientation-only', 'not rev', rev=h.ev('(%d, %d) in r' % (j, i), r=r))
    h.check('nothing-but-parameter-pairs-reported', 'len(r) <= %d' % npairs, r=r)


import os
# a product measure of two k-point measures: [w0 .. | p0 .. | w1 .. | p1 ..]   (k = 2; 3 in the thorough tier)
NPTS = (3, 3) if os.environ.get('VERIF_TIER') == 'thorough' else (2, 2)
M_WINDOWS = [(2, 2), (2, 5), (1, 1)]
W_IDX = {(m, i): 2 * sum(NPTS[:m]) + i for m in range(len(NPTS)) for i in range(NPTS[m])}
P_IDX = {(m, i): 2 * sum(NPTS[:m]) + NPTS[m] + i for m in range(len(NPTS)) for i in range(NPTS[m])}
W_MASKS = {'None': None, 'dict-empty': {}, 'dict': {0: (1,)}, 'dict-two': {0: (0,), 1: (0, 1)}, 'set-empty': set(),
           'set': {(1, 0)}, 'where-empty': (), 'where': ((0, 1), (1, 1))}


def _measure_monitor(h, G):
    rows = [h.vec('gen%d' % g, 2 * sum(NPTS)) for g in range(G)]
    mon = h.obj(MON, _x=h.clist(rows), _y=h.clist([h.real('y%d' % g) for g in range(G)]), _id=h.clist([None] * G),
                _info=h.clist([]), k=None, _npts=NPTS, label='ChiSquare')
    return mon, rows


def _mask_value(h, form, table):
    """(the mask object handed to the detector, the set of masked (measure, item) it denotes)"""
    m = table[form]
    if m is None:
        return None, set()
    sym = h.is_sym()
    if form.startswith('dict'):
        den = set((k, v) for k, vs in m.items() for v in vs)
        if sym:
            return h.st.alloc('dict', {k: h.st.alloc('set', list(vs)) for k, vs in m.items()}), den
        return {k: set(vs) for k, vs in m.items()}, den
    if form.startswith('set'):
        return (h.st.alloc('set', list(m)) if sym else set(m)), set(m)
    return m, (set(zip(*m)) if m else set())


def _as_pairs(h, r, form):
    """the report in any of its three formats -> python set of (measure, item)"""
    sym = h.is_sym()

    def items(v):
        if sym and hasattr(v, 'kind'):
            c = h.st.heap[v]
            return list(c.keys()) if v.kind == 'dict' else list(c)
        return list(v)

    def plain(v):
        if isinstance(v, (tuple, list)) or (sym and hasattr(v, 'kind')):
            return tuple(plain(y) for y in items(v))
        return int(v)
    if form == 'None' or form.startswith('dict'):
        cell = h.st.heap[r] if sym else r
        return set((int(k), plain(i)) for k, vs in cell.items() for i in items(vs)), all(len(items(vs)) > 0 for vs in cell.values())
    if form.startswith('set'):
        return set(plain(p) for p in items(r)), True
    its = items(r)
    if not its:
        return set(), True
    ms, idx = its
    return set(zip(plain(ms), plain(idx))), len(items(ms)) == len(items(idx)) > 0


@contract('C11/collapse_weight', ['C11'], CO + 'collapse_weight', samples=60)
def collapse_weight(h):
    """weight i of measure m is reported <=> max over the window of w[m][i] <= tolerance, and (m, i) is not masked;
    the report comes back in the format of the mask (dict {m: {i}} without empty entries -- also the default --,
    set of (m, i), or `where` pairs (measures, items))"""
    G, look = h.choice('recorded_and_lookback', M_WINDOWS)
    form = h.choice('mask_form', sorted(W_MASKS))
    mon, rows = _measure_monitor(h, G)
    tol = h.real('tolerance')
    mask, masked = _mask_value(h, form, W_MASKS)
    r = h.call(h.get(CO + 'collapse_weight'), mon, tol, look, mask)
    got, wellformed = _as_pairs(h, r, form)
    win = rows[-look:] if look < G else rows
    for (m, i), col in sorted(W_IDX.items()):
        env = {'c%d' % g: (w_[col] if not h.is_sym() else h.ev('w[%d]' % col, w=w_)) for g, w_ in enumerate(win)}
        names = ', '.join(sorted(env))
        top = h.ev('max(%s)' % names if len(env) > 1 else 'c0', **env)
        if (m, i) in masked:
            h.check('masked-weights-are-never-reported', 'not inr', inr=((m, i) in got))
        else:
            h.check('reported-exactly-when-the-weight-stays-within-tolerance-over-the-window', 'iff(inr, top <= tol)',
                    inr=((m, i) in got), top=top, tol=tol)
    h.check('report-is-wellformed-and-names-only-weights-of-the-measure', 'ok', ok=(wellformed and got <= set(W_IDX)))


P_MASKS = {'None': None, 'dict-empty': {}, 'dict': {0: ((0, 1),)}, 'dict-reversed': {1: ((1, 0),)}, 'set-empty': set(),
           'set': {(0, (0, 1))}, 'set-reversed': {(1, (1, 0))}, 'where-empty': (), 'where': ((1,), ((1, 0),))}


def _position_mask(h, form):
    m = P_MASKS[form]
    if m is None:
        return None, set()
    sym = h.is_sym()
    norm = lambda p: tuple(sorted(p))           # noqa: E731
    if form.startswith('dict'):
        den = set((k, norm(v)) for k, vs in m.items() for v in vs)
        if sym:
            return h.st.alloc('dict', {k: h.st.alloc('set', list(vs)) for k, vs in m.items()}), den
        return {k: set(vs) for k, vs in m.items()}, den
    if form.startswith('set'):
        den = set((k, norm(v)) for k, v in m)
        return (h.st.alloc('set', list(m)) if sym else set(m)), den
    return m, (set((k, norm(v)) for k, v in zip(*m)) if m else set())


@contract('C11/collapse_position', ['C11'], CO + 'collapse_position', samples=60)
def collapse_position(h):
    """positions i < j of measure m are reported as (i, j) <=> max over the window of |p[m][i] - p[m][j]| <= tolerance,
    and the pair is not masked in either orientation; the report comes back in the format of the mask"""
    G, look = h.choice('recorded_and_lookback', M_WINDOWS)
    form = h.choice('mask_form', sorted(P_MASKS))
    mon, rows = _measure_monitor(h, G)
    tol = h.real('tolerance')
    mask, masked = _position_mask(h, form)
    r = h.call(h.get(CO + 'collapse_position'), mon, tol, look, mask)
    got, wellformed = _as_pairs(h, r, form)
    win = rows[-look:] if look < G else rows
    allpairs = set()
    for m in range(len(NPTS)):
        for i in range(NPTS[m]):
            for j in range(i + 1, NPTS[m]):
                allpairs.add((m, (i, j)))
                ci, cj = P_IDX[(m, i)], P_IDX[(m, j)]
                env = {}
                for g, w_ in enumerate(win):
                    env['a%d' % g] = w_[ci] if not h.is_sym() else h.ev('w[%d]' % ci, w=w_)
                    env['b%d' % g] = w_[cj] if not h.is_sym() else h.ev('w[%d]' % cj, w=w_)
                ds = ['abs(a%d - b%d)' % (g, g) for g in range(len(win))]
                top = h.ev('max(%s)' % ', '.join(ds) if len(ds) > 1 else ds[0], **env)
                inr = (m, (i, j)) in got
                if (m, (i, j)) in masked:
                    h.check('masked-position-pairs-are-never-reported', 'not inr', inr=inr)
                else:
                    h.check('reported-exactly-when-the-positions-stay-within-tolerance-of-each-other-over-the-window',
                            'iff(inr, top <= tol)', inr=inr, top=top, tol=tol)
    h.check('report-is-wellformed-and-names-only-position-pairs-of-the-measure', 'ok', ok=(wellformed and got <= allpairs))
