#!/bin/sh
# developer helper: ./runall.sh [tier] [jobs]  -- runs every claimed check, logs under out/logs/, prints a summary
HERE="$(cd "$(dirname "$0")" && pwd)"
cd "$HERE"
TIER="${1:-quick}"
JOBS="${2:-1}"
mkdir -p out/logs
rm -f out/logs/summary_$TIER.txt
run1() {
  p="$1"
  s=$(date +%s)
  ./check "$p" --tier "$TIER" > "out/logs/${p}_$TIER.log" 2>&1
  rc=$?
  e=$(date +%s)
  echo "$p exit=$rc wall=$((e-s))s $(grep -c '^VIOLATION' out/logs/${p}_$TIER.log) violations; $(grep "^$p tier" out/logs/${p}_$TIER.log)" >> out/logs/summary_$TIER.txt
}
n=0
for p in C01 C02 C03 C04 C05 C06 C07 C08 C09 C10 C11 C12 C13 C14 C15 C16 C17 C18 C19 C20; do
  run1 "$p" &
  n=$((n+1))
  if [ "$n" -ge "$JOBS" ]; then wait; n=0; fi
done
wait
sort out/logs/summary_$TIER.txt
