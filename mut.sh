#!/bin/sh
# usage: mut.sh <relpath> <python-re-old> <new> <PROP> [--only X]   -- scratch copy under /tmp, removed afterwards
D=$(mktemp -d /tmp/mut.XXXXXX)
rsync -a --exclude .git --exclude '*.pyc' /repo/mystic "$D/"
python3 - "$D/$1" "$2" "$3" <<'PY'
import sys
p,old,new=sys.argv[1:4]
s=open(p).read()
n=s.count(old)
if n==0: print("PATTERN NOT FOUND"); sys.exit(2)
s=s.replace(old,new,1) if '--all' not in sys.argv else s.replace(old,new)
open(p,'w').write(s); print("mutated %d occurrence(s), first replaced"%n)
PY
shift 3
cd /verif && PYVC_REPO="$D" PYTHONPATH="$D" ./check "$@" 2>&1 | cut -c1-400 | grep -v "^KNOWN"
echo "exit=$?"
rm -rf "$D"
