"""C17 bounded layer.  (a) constraints.and_/or_/not_ over concrete member families (compatible, conflicting, cyclic,
sometimes raising ZeroDivisionError), iteration caps, list/array inputs: onexit/onfail markers tell which path was
taken; on the success path the fixed-point clause is evaluated by applying the members ourselves.  (b) coupler.inner/
outer/additive (+_proxy) identities on random affine functions.  (c) coupler.and_/or_/not_ penalties built from
mystic.penalty types: zero exactly where all / any member is zero; not_ non-zero exactly on the interior."""
import random
from .common import *       # noqa

P = 'C17/bounded/'


# ----------------------------------------------------------------------------- member constraints (pure unless noted)
def _set(x, i, v):
    y = list(x)
    y[i] = v
    return y


def m_zde(x):
    1.0 / x[0]
    return _set(x, 0, abs(x[0]))


def m_inplace(x):       # mutates its argument (the combinators hand out copies)
    x[0] = 1.0
    return x


MEMBERS = {
    'pin0': lambda x: _set(x, 0, 1.0),
    'pin0b': lambda x: _set(x, 0, 2.0),
    'zero0': lambda x: _set(x, 0, 0.0),
    'clamp': lambda x: [min(2.0, max(-1.0, v)) for v in x],
    'round': lambda x: [float(round(v)) for v in x],
    'tie': lambda x: _set(x, -1, x[0]),
    'shift': lambda x: [v + 1.0 for v in x],
    'half': lambda x: [v / 2.0 for v in x],
    'up': lambda x: _set(x, 0, x[0] + 1.0) if x[0] < 1.0 else list(x),
    'down': lambda x: _set(x, 0, x[0] - 1.0) if x[0] >= 1.0 else list(x),
    'F4a': lambda x: _set(x, 0, 1.0),
    'F4b': lambda x: _set(x, 0, 2.0) if x[0] >= 0.5 else list(x),
    'arr': lambda x: np.clip(np.asarray(x, dtype=float), -1.0, 2.0),
    'zde': m_zde,
    'inplace': m_inplace,
    'ident': lambda x: list(x),
}
FAMILIES = {
    'compatible': [['pin0', 'clamp'], ['clamp', 'round', 'tie'], ['pin0', 'tie', 'arr'], ['round'], ['inplace', 'clamp'],
                   ['ident', 'clamp']],
    'conflicting': [['pin0', 'pin0b'], ['pin0', 'shift'], ['F4a', 'F4b'], ['shift'], ['half', 'pin0b'],
                    ['clamp', 'pin0', 'pin0b']],
    'cyclic': [['up', 'down'], ['up', 'down', 'clamp'], ['down', 'up', 'round']],
    'zde': [['zde', 'clamp'], ['zero0', 'zde'], ['zde'], ['zde', 'pin0', 'tie']],
}
MAXITER = [1, 2, 5, 100]


def aslist(v):
    return v.tolist() if hasattr(v, 'tolist') else list(v)


def unchanged_by(name, r):
    """does member `name` leave vector r unchanged (an exception counts as 'no')"""
    try:
        return aslist(MEMBERS[name](list(r))) == list(r)
    except ZeroDivisionError:
        return False


def check_comb(case):
    """-> (violations, info) for one combinator case"""
    import mystic.constraints as mc
    comb, names, x0, kind = case['comb'], case['members'], case['x'], case['kind']
    view = '#array,inplace-member' if kind == 'array' and 'inplace' in names else ''
    key = lambda cl: P + 'constraints.' + comb + '/' + cl + (view if cl == 'input-unmodified' else '')     # noqa: E731
    log, calls = [], [0]
    onexit = lambda x: (log.append('exit'), x)[1]      # noqa: E731
    onfail = lambda x: (log.append('fail'), x)[1]      # noqa: E731
    kw = dict(maxiter=case['maxiter'], onexit=onexit, onfail=onfail)
    fs = [MEMBERS[k] for k in names]
    c = mc.not_(fs[0], **kw) if comb == 'not_' else getattr(mc, comb)(*fs, **kw)
    xin = np.array(x0, dtype=float) if kind == 'array' else list(x0)
    seed_all(case['seed'])
    orig = random.random, random.randint
    random.random = lambda *a: (calls.__setitem__(0, calls[0] + 1), orig[0](*a))[1]
    random.randint = lambda *a: (calls.__setitem__(0, calls[0] + 1), orig[1](*a))[1]
    try:
        r = c(xin)
    except Exception as e:      # noqa  (members raise ZeroDivisionError only, which the combinators handle)
        return [(key('one-path'), 'neither path: raised %s: %s' % (type(e).__name__, e))], dict(path='raised', rnd=calls[0])
    finally:
        random.random, random.randint = orig
    out = []
    r = aslist(r)
    # C17 does not speak about the argument; the list case is kept because DESIGN A.8 states it for lists
    # (numpy arrays are views under x[:], so an in-place member reaches the caller's array: observation O6)
    if aslist(xin) != list(x0) and isinstance(xin, list):
        out.append((key('input-unmodified'), 'input %r became %r' % (x0, aslist(xin))))
    if len(log) != 1:
        out.append((key('one-path'), 'markers fired: %r' % (log,)))
    elif log[0] == 'exit':
        keep = [unchanged_by(k, r) for k in names]
        if comb == 'and_' and not all(keep):
            out.append((key('success-fixed'), 'success at %r but members %r change it' %
                        (r, [k for k, u in zip(names, keep) if not u])))
        if comb == 'or_' and not any(keep):
            out.append((key('success-fixed'), 'success at %r but every member of %r changes it' % (r, names)))
        if comb == 'not_' and keep[0]:
            out.append((key('success-fixed'), 'success at %r but member %r leaves it unchanged' % (r, names[0])))
    return out, dict(path=log[0] if log else 'none', rnd=calls[0])


def gen_comb_cases(seed, nrand):
    rng = random.Random(seed)
    cases = []
    combos = [(comb, fam, names) for fam, sets in FAMILIES.items() for names in sets for comb in ('and_', 'or_')]
    combos += [('not_', 'single', [k]) for k in sorted(MEMBERS) if k != 'arr']
    for comb, fam, names in combos:
        for mi in MAXITER:
            fixed = [[0.0, 0.0], [1.0, 1.0], [0.0], [1.0, 0.5, 1.0], [2.0, 2.0], [0.4, 3.0]]
            rnd = [[round(rng.uniform(-3, 4), rng.choice([0, 1, 6])) for _ in range(rng.randint(1, 4))]
                   for _ in range(nrand)]
            for j, x in enumerate(fixed + rnd):
                cases.append(dict(comb=comb, family=fam, members=names, maxiter=mi, x=x,
                                  kind='array' if j % 3 == 2 else 'list', seed=rng.randrange(10 ** 6)))
    return cases


# ----------------------------------------------------------------------------- couplers
def check_coupler(case):
    import mystic.coupler as cp
    rng = random.Random(case['seed'])
    a, b, s, t, k, u, v = [rng.choice([rng.uniform(-3, 3), float(rng.randint(-3, 3))]) for _ in range(7)]
    x = np.array([rng.uniform(-5, 5) for _ in range(rng.randint(1, 5))])
    f = lambda z, w=0.0: a * z + b + w          # noqa: E731
    c = lambda z, w=1.0: (z * s + t) * w        # noqa: E731
    p = lambda z, w=1.0: k * float(np.sum(z * z)) * w   # noqa: E731
    want = {
        'inner': (cp.inner(c)(f)(x), f(c(x))), 'outer': (cp.outer(c)(f)(x), c(f(x))),
        'additive': (cp.additive(p)(f)(x), f(x) + p(x)),
        'inner+args': (cp.inner(c, args=(u,))(f)(x, v), f(c(x, u), v)),
        'outer+args': (cp.outer(c, kwds={'w': u})(f)(x, v), c(f(x, v), w=u)),
        'additive+args': (cp.additive(p, args=(u,))(f)(x, v), f(x, v) + p(x, u)),
        'inner_proxy': (cp.inner_proxy(c, args=(v,))(f)(x, u), f(c(x, u), v)),
        'outer_proxy': (cp.outer_proxy(c, args=(v,))(f)(x, u), c(f(x, v), u)),
        'additive_proxy': (cp.additive_proxy(p, args=(v,))(f)(x, u), f(x, v) + p(x, u)),
    }
    return [(P + 'coupler.' + n.split('+')[0] + '/identity', '%s: got %r, definition gives %r' % (n, g, w))
            for n, (g, w) in want.items() if not np.array_equal(np.asarray(g), np.asarray(w))]


# ----------------------------------------------------------------------------- penalty combinators
PTYPES = ['quadratic_inequality', 'linear_inequality', 'uniform_inequality', 'quadratic_equality', 'linear_equality',
          'uniform_equality']


def make_member(spec):
    import mystic.penalty as mp
    i, a, pt, k = spec
    cond = lambda x: x[i] - a       # noqa: E731
    kw = {} if k is None else {'k': k}
    return getattr(mp, pt)(cond, **kw)(lambda x: 0.0), cond


def check_penalty(case):
    import mystic.coupler as cp
    import mystic.penalty as mp
    specs, x = case['members'], case['x']
    ms = [make_member(s) for s in specs]
    vals = [float(m(x)) for m, _ in ms]
    kw = {}
    if case['ptype']:
        kw['ptype'] = getattr(mp, case['ptype'])
    if case['k'] is not None:
        kw['k'] = case['k']
    out = []
    got = float(cp.and_(*[m for m, _ in ms], **kw)(x))
    if (got == 0.0) != all(v == 0.0 for v in vals):
        out.append((P + 'coupler.and_/zero-iff-all', 'and_=%r, members=%r at x=%r' % (got, vals, x)))
    got = float(cp.or_(*[m for m, _ in ms], **kw)(x))
    if (got == 0.0) != any(v == 0.0 for v in vals):
        out.append((P + 'coupler.or_/zero-iff-any', 'or_=%r, members=%r at x=%r' % (got, vals, x)))
    for (m, cond), s in zip(ms, specs):
        got = float(cp.not_(m, **({'k': case['k']} if case['k'] is not None else {}))(x))
        cv = cond(x)
        interior = (cv < 0.0) if s[2].endswith('_inequality') else (cv == 0.0)      # the region the member accepts,
        if (got != 0.0) != interior:                                               # without its boundary (inequality)
            out.append((P + 'coupler.not_/interior', 'not_(%s)=%r, condition=%r, member=%r at x=%r'
                        % (s[2], got, cv, float(m(x)), x)))
    return out


def gen_penalty_cases(seed, n):
    rng = random.Random(seed)
    cases = []
    for _ in range(n):
        nm = rng.randint(1, 3)
        specs = [[rng.randrange(2), rng.choice([0.0, 0.5, -1.25]), rng.choice(PTYPES), rng.choice([None, 1, 10.0])]
                 for _ in range(nm)]
        x = [rng.choice([s[1] for s in specs] + [s[1] - 1.0 for s in specs] + [s[1] + 0.5 for s in specs] +
                        [rng.uniform(-3, 3)]) for _ in range(2)]
        cases.append(dict(members=specs, x=x, ptype=rng.choice([None, None] + PTYPES), k=rng.choice([None, 1, 3.0])))
    return cases


# ----------------------------------------------------------------------------- driver
def work(chunk):
    res = Result('', '')
    paths, rnd = {}, {}
    for case in chunk:
        part = case['part']
        if part == 'comb':
            viol, info = check_comb(case)
            fk = '%s/%s/%s' % (case['comb'], case['family'], info['path'])
            paths[fk] = paths.get(fk, 0) + 1
            rnd[case['comb']] = rnd.get(case['comb'], 0) + info['rnd']
            res.case('%s|%s|mi=%d|%s|%s' % (case['comb'], '+'.join(case['members']), case['maxiter'], case['kind'],
                                            info['path']), info['path'] in ('exit', 'fail'), jsonable(case))
        elif part == 'coupler':
            viol = guarded(check_coupler, case, 'coupler')
            res.case('coupler|%d' % case['seed'], True, None)
        else:
            viol = guarded(check_penalty, case, 'coupler.penalty')
            res.case('penalty|%s|%s|%s' % (sorted(s[2] for s in case['members']), case['ptype'], case['k']), True, None)
        for k, d in viol:
            res.violation(k, d, jsonable(case))
    p = res.part()
    p['paths'], p['rnd'] = paths, rnd
    return p


def run(tier='quick', seed=0):
    nrand, ncoup, npen = (15, 1000, 8000) if tier == 'quick' else (150, 10000, 150000)
    cases = [dict(c, part='comb') for c in gen_comb_cases(seed, nrand)]
    cases += [dict(part='coupler', seed=seed * 100003 + i) for i in range(ncoup)]
    cases += [dict(c, part='penalty') for c in gen_penalty_cases(seed + 5, npen)]
    res = Result(rule='constraints.and_/or_ over %d member sets (compatible/conflicting/cyclic/ZeroDivisionError) and '
                 'not_ over %d single members x maxiter %r x (6 fixed + %d random inputs, list/array); distinct = '
                 '(combinator, members, maxiter, kind, path taken); non-trivial = a marker fired. coupler identities on '
                 '%d random affine triples (9 forms each); penalty and_/or_/not_ on %d (1-3 members of 6 penalty '
                 'types, combinator ptype/k, point on/inside/outside the boundaries)'
                 % (sum(len(v) for v in FAMILIES.values()), len(MEMBERS) - 1, MAXITER, nrand, ncoup, npen),
                 bound='vectors of length 1-4 in [-3,4]; maxiter in %r; <= 3 members' % (MAXITER,))
    random.Random(seed + 1).shuffle(cases)
    size = max(1, len(cases) // 64)
    paths, rnd = {}, {}
    for p in pmap(work, [cases[i:i + size] for i in range(0, len(cases), size)]):
        res.merge(p)
        for k, v in p['paths'].items():
            paths[k] = paths.get(k, 0) + v
        for k, v in p['rnd'].items():
            rnd[k] = rnd.get(k, 0) + v
    res.extra['paths'] = dict(sorted(paths.items()))
    res.extra['random_calls_inside_combinators'] = rnd
    res.extra['aborted'] = {}
    return res.out()


def guarded(fn, case, what):
    try:
        return fn(case)
    except Exception as e:      # noqa  (everything called here is defined on these inputs)
        return [(P + what + '/raises', '%s: %s' % (type(e).__name__, e))]


def replay(inp):
    part = inp.get('part', 'comb')
    if part == 'comb':
        return not check_comb(inp)[0]
    return not (guarded(check_coupler, inp, 'coupler') if part == 'coupler' else guarded(check_penalty, inp, 'coupler.penalty'))
