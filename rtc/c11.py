"""C11 bounded layer: dimensional collapse is detected per definition, applied exactly, reported once.

families
  at / as / weight / position   random Monitors (flat / tied / converging / near-target columns) x tolerances x windows x
                                every accepted mask format; oracle = the documented definition evaluated directly on the
                                recorded lists (python floats), minus the mask; own output fed back as mask -> nothing new
  cost                          collapse_cost(clip=False): regions removed hold >= N consecutive high-cost samples and no
                                low-cost sample, every such run is removed, own output as mask -> {}
  solve                         NM / Powell / DE1 / DE2 runs with Or(CollapseAt|CollapseAs, VTR) on objectives with flat /
                                zero-target / tied directions; Collapse is observed through an instance-level hook
  solve (ties)                  the same solvers on separable quadratics in 4..6 parameters whose optimum holds clusters of
                                values spaced 0.8*tolerance apart in arbitrary index order (equal / chained / non-transitive
                                ties: x_c between x_a and x_b, so a single CollapseAs event reports pairs that share a member in
                                the first, the second or both positions, and converging coordinates join groups collapsed
                                earlier); after the collapse every evaluated point and the reported solution satisfy every
                                reported pair exactly
"""
import math
import random
import signal
import itertools
from .common import Result, pmap, jsonable, seed_all, make_solver, Recorder, np, hang_seen, hang_budget_spent

INF = float('inf')
TOLS = [0, 1e-4, 0.125, 0.25, 0.5]


# ----------------------------------------------------------------------------- random recorded histories
def gen_columns(rng, nd, n):
    """n records of nd columns: flat, converging, near-a-target, tied-to-another-column, random (dyadic grid values)"""
    cols, kinds = [], []
    for c in range(nd):
        kind = rng.choice(['flat', 'conv', 'near', 'tie', 'tie', 'rand']) if c else rng.choice(['flat', 'conv', 'near', 'rand'])
        base = rng.randrange(-8, 9) * 0.25
        if kind == 'flat':
            col = [base] * n
        elif kind == 'conv':
            a = rng.choice([1.0, 0.25, -0.5])
            col = [base + a * 0.5 ** k for k in range(n)]
        elif kind == 'near':
            col = [base + rng.choice([0, 0, 0.125, -0.125, 0.25, -0.25, 1e-4]) for _ in range(n)]
        elif kind == 'tie':
            j, d = rng.randrange(c), rng.choice([0.0, 0.0, 0.25, -1.0])
            jit = rng.choice([0.0, 0.0, 0.125, 1e-4])
            col = [cols[j][k] + d + jit * rng.choice([0, 1, -1]) for k in range(n)]
        else:
            col = [rng.randrange(-8, 9) * 0.25 for _ in range(n)]
        noisy = rng.randrange(0, n)                     # early records are arbitrary, so the window matters
        col = [rng.randrange(-8, 9) * 0.5 for _ in range(noisy)] + col[noisy:] if rng.random() < 0.5 else col
        cols.append(col)
        kinds.append(kind)
    return [[cols[c][k] for c in range(nd)] for k in range(n)], kinds


def monitor_of(X, npts=None, wrap=None):
    from mystic.monitors import Monitor
    m = Monitor(npts=npts) if npts else Monitor()
    for k, x in enumerate(X):
        m(np.array(x) if wrap == 'array' else (tuple(x) if wrap == 'tuple' else list(x)), float(len(X) - k))
    return m


# ----------------------------------------------------------------------------- oracles (documented definitions)
def o_at(X, g, tol, target):
    W = X[len(X) - g:]
    out = set()
    for i in range(len(X[0])):
        col = [r[i] for r in W]
        if target is None:
            ch = max(col) - min(col)
        else:
            t = target[i] if isinstance(target, list) else target
            ch = max(abs(v - t) for v in col)
        if ch <= tol:
            out.add(i)
    return out


def o_pairs(W, idx, tol, offset=False):
    out = set()
    for i, j in itertools.combinations(idx, 2):
        d = [abs(r[i] - r[j]) for r in W]
        if ((max(d) - min(d)) if offset else max(d)) <= tol:
            out.add((i, j))
    return out


def layout(npts):
    """independent statement of the product-measure parameter layout: per measure its weights then its positions"""
    w, p, o = [], [], 0
    for n in npts:
        w.append(list(range(o, o + n)))
        p.append(list(range(o + n, o + 2 * n)))
        o += 2 * n
    return w, p


def canon(kind, r):
    """result/mask in any format -> set of plain tuples"""
    def pl(v):
        return tuple(pl(u) for u in v) if hasattr(v, '__len__') else int(v)
    if r is None:
        return set()
    if isinstance(r, dict):
        return {(int(m), pl(i)) for m, s in r.items() for i in s}
    if isinstance(r, set):
        return {pl(i) for i in r}
    if isinstance(r, tuple):
        return set() if not len(r) else {(int(m), pl(i)) for m, i in zip(*r)}
    raise TypeError(r)


def fmt_ok(mask, r):
    if mask is None or isinstance(mask, dict):
        return isinstance(r, dict) and all(isinstance(v, set) and v for v in r.values())
    if isinstance(mask, set):
        return isinstance(r, set)
    return isinstance(r, tuple) and (len(r) == 0 or (len(r) == 2 and len(r[0]) == len(r[1]) > 0))


def to_format(kind, fmt, items):
    """a set of canonical items -> mask in the requested format"""
    if fmt == 'none':
        return None
    if fmt == 'set' or kind in ('at', 'as'):
        return set(items)
    items = sorted(items)
    if fmt == 'dict':
        d = {}
        for m, i in items:
            d.setdefault(m, set()).add(i)
        return d
    return (tuple(m for m, _ in items), tuple(i for _, i in items)) if items else ()


def sym(kind, items):
    """mask semantics: pairs match in either order; a bare index in an 'as' mask matches every pair containing it"""
    out = set()
    for it in items:
        out.add(it)
        if kind == 'as' and isinstance(it, tuple):
            out.add(it[::-1])
        if kind == 'position':
            out.add((it[0], it[1][::-1]))
    return out


def masked(kind, item, M):
    if item in M:
        return True
    return kind == 'as' and (item[0] in M or item[1] in M)


# ----------------------------------------------------------------------------- family: detectors
def gen_case(rng, kind):
    c = {'kind': kind, 'n': rng.choice([3, 4, 6, 9, 14]), 'tol': rng.choice(TOLS), 'seed': rng.randrange(10 ** 9),
         'wrap': rng.choice(['list', 'array', 'tuple'])}
    c['g'] = rng.choice([1, 2, 3, 5, c['n']])
    c['g'] = min(c['g'], c['n'])
    if kind in ('at', 'as'):
        c['nd'] = rng.choice([2, 3, 4, 5])
        c['target'] = rng.choice(['none', 'scalar', 'list']) if kind == 'at' else 'none'
        c['offset'] = rng.choice([False, False, True]) if kind == 'as' else False
        c['fmt'] = rng.choice(['none', 'set', 'set'])
    else:
        c['npts'] = rng.choice([(2, 2), (3, 3), (2, 2, 2), (3,)])    # equal points per measure
        # product measures with UNEQUAL points per measure (mystic's own examples use npts = (2, 1, 1)); own generator, so
        # the other draws keep their values.  Every failure there carries the sub-case tag #nonuniform-npts (finding F47)
        if random.Random(c['seed'] * 3 + 1).random() < 0.12:
            c['npts'] = random.Random(c['seed'] * 3 + 2).choice([(1, 3), (3, 1), (2, 1, 1), (1, 2), (2, 4)])
        c['nd'] = 2 * sum(c['npts'])
        c['fmt'] = rng.choice(['none', 'set', 'dict', 'where', 'where'])
    c['mask_from'] = rng.choice(['empty', 'true', 'true', 'mixed', 'other'])
    return c


def build(c):
    rng = random.Random(c['seed'])
    X, kinds = gen_columns(rng, c['nd'], c['n'])
    kind = c['kind']
    tgt = None
    if kind == 'at' and c['target'] != 'none':
        last = X[-1]
        tgt = [v + rng.choice([0, 0, 0.125, 1.0]) for v in last] if c['target'] == 'list' else rng.choice(last)
    if kind in ('weight', 'position'):
        wi, pi = layout(c['npts'])
        if kind == 'weight':                              # weights: zero / tiny / shrinking / ordinary columns
            for i in [i for grp in wi for i in grp]:
                mode = rng.choice(['zero', 'tiny', 'shrink', 'ordinary'])
                start = rng.randrange(0, c['n'])
                for k, r in enumerate(X):
                    r[i] = (0.5 if k < start else {'zero': 0.0, 'tiny': rng.choice([0.0, 1e-4, 0.125, 0.25]),
                                                   'shrink': 0.5 ** k, 'ordinary': abs(r[i])}[mode])
    W = X[c['n'] - c['g']:]
    if kind == 'at':
        truth = o_at(X, c['g'], c['tol'], tgt)
        universe = set(range(c['nd']))
    elif kind == 'as':
        truth = o_pairs(W, range(c['nd']), c['tol'], c['offset'])
        universe = set(itertools.combinations(range(c['nd']), 2))
    elif kind == 'weight':
        truth = {(m, k) for m, grp in enumerate(wi) for k, i in enumerate(grp) if max(r[i] for r in W) <= c['tol']}
        universe = {(m, k) for m, grp in enumerate(wi) for k in range(len(grp))}
    else:
        truth, universe = set(), set()
        for m, grp in enumerate(pi):
            loc = {i: k for k, i in enumerate(grp)}
            truth |= {(m, (loc[i], loc[j])) for i, j in o_pairs(W, grp, c['tol'])}
            universe |= {(m, p) for p in itertools.combinations(range(len(grp)), 2)}
    pool = {'empty': [], 'true': sorted(truth), 'other': sorted(universe - truth), 'mixed': sorted(universe)}[c['mask_from']]
    items = set(rng.sample(pool, rng.randrange(0, len(pool) + 1))) if pool else set()
    if kind in ('as', 'position'):                         # masks may name a pair in either order
        items = {(it[::-1] if kind == 'as' else (it[0], it[1][::-1])) if rng.random() < 0.4 else it for it in items}
    if kind == 'as' and rng.random() < 0.3:
        items.add(rng.randrange(c['nd']))                  # a bare index: ignore all pairs containing it
    return X, tgt, truth, items


def call_detector(c, mon, tgt, mask):
    import mystic.collapse as ct
    k = c['kind']
    if k == 'at':
        return ct.collapse_at(mon, target=tgt, tolerance=c['tol'], generations=c['g'], mask=mask)
    if k == 'as':
        return ct.collapse_as(mon, offset=c['offset'], tolerance=c['tol'], generations=c['g'], mask=mask)
    f = ct.collapse_weight if k == 'weight' else ct.collapse_position
    return f(mon, tolerance=c['tol'], generations=c['g'], mask=mask)


def check_detector(res, c):
    kind = c['kind']
    X, tgt, truth, items = build(c)
    items = set() if c['fmt'] == 'none' else items
    npts = tuple(c['npts']) if 'npts' in c else None
    uniform = npts is None or len(set(npts)) == 1
    tag = '' if uniform else '#nonuniform-npts'
    key = 'C11/bounded/%s/' % kind
    mon = monitor_of(X, npts, c['wrap'])
    mask = to_format(kind, c['fmt'], items)
    M = sym(kind, items)
    want = {t for t in truth if not masked(kind, t, M)}
    res.case('%s%s|g%s|tol%s|%s|%s|%s|%s|%d' % (key, c['fmt'], c['g'] == c['n'], c['tol'], c.get('target'), c.get('offset'),
                                               c['mask_from'], npts, min(len(want), 2)),
             nontrivial=bool(truth), sample=c)
    try:
        got = call_detector(c, mon, tgt, mask)
        again = call_detector(c, mon, tgt, to_format(kind, c['fmt'] if c['fmt'] != 'none' else ('set' if kind in ('at', 'as') else 'dict'),
                                                     set(items) | canon(kind, got)))
        own = call_detector(c, mon, tgt, got if got else None) if c['fmt'] == 'none' else None
    except Exception as e:
        res.violation(key + 'raises' + tag, 'detector raised %r on a well-formed monitor/mask %r (npts %r)' % (e, mask, npts), c)
        return
    if canon(kind, got) != want:
        res.violation(key + 'definition' + tag, 'reported %r, definition minus mask gives %r (mask %r, target %r)'
                      % (sorted(canon(kind, got)), sorted(want), mask, tgt), c)
    if kind in ('weight', 'position') and not fmt_ok(mask, got):
        res.violation(key + 'format' + tag, 'mask %r but result %r' % (mask, got), c)
    if canon(kind, again):
        res.violation(key + 'idempotent' + tag, 'with mask + own output as mask still reports %r' % (again,), c)
    if own is not None and got and canon(kind, own):
        res.violation(key + 'idempotent' + tag, 'own output %r as mask still reports %r' % (got, own), c)


# ----------------------------------------------------------------------------- family: collapse_cost (clip=False)
def check_cost(res, c):
    import mystic.collapse as ct
    rng = random.Random(c['seed'])
    n, nd, N, limit = c['n'], c['nd'], c['N'], c['limit']
    xs = [rng.sample(range(-40, 41), n) for _ in range(nd)]           # distinct values per coordinate
    X = [[xs[p][k] * 0.25 for p in range(nd)] for k in range(n)]
    centre = [rng.choice(v) * 0.25 for v in xs]
    width = rng.choice([0.5, 1.0, 2.5])
    y = [0.0 if all(abs(r[p] - centre[p]) <= width * (1 + p) for p in range(nd)) else limit * rng.choice([1.5, 3, 10])
         for r in X]
    y[rng.randrange(n)] = -0.25                                        # the minimum; low-cost: y - min <= limit
    y = [v + 1e-3 * rng.random() for v in y]
    from mystic.monitors import Monitor
    mon = Monitor()
    for r, v in zip(X, y):
        mon(r, v)
    key = 'C11/bounded/cost/'
    lo = min(y)
    good = [v - lo <= limit for v in y]
    res.case('%s|N%d|nd%d|%d' % (key, N, nd, sum(good) > 1), True, sample=c)
    got = ct.collapse_cost(mon, clip=False, limit=limit, samples=N)
    for p in range(nd):
        order = sorted(range(n), key=lambda k: X[k][p])
        runs, cur = [], []
        for k in order + [None]:
            if k is not None and not good[k]:
                cur.append(k)
            else:
                if len(cur) >= N:
                    runs.append(cur)
                cur = []
        kept = got.get(p)
        if not runs:
            if kept:
                res.violation(key + 'no-run-no-collapse', 'index %d: no %d consecutive high-cost samples but %r' % (p, N, kept), c)
            continue
        if not kept:
            res.violation(key + 'complete', 'index %d has a run of >= %d high-cost samples, nothing reported' % (p, N), c)
            continue
        inside = lambda v, closed: any((a <= v <= b) if closed else (a < v < b) for a, b in kept)
        if any(good[k] and not inside(X[k][p], True) for k in range(n)):
            res.violation(key + 'keeps-low-cost', 'index %d: a low-cost sample lies outside the new bounds %r' % (p, kept), c)
        if any(inside(X[k][p], False) for run in runs for k in run):
            res.violation(key + 'complete', 'index %d: a sample of a >= %d high-cost run is inside %r' % (p, N, kept), c)
        gaps = [(a[1], b[0]) for a, b in zip(kept, kept[1:])]
        if any(sum(1 for k in range(n) if a <= X[k][p] <= b and not good[k]) < N for a, b in gaps):
            res.violation(key + 'sound', 'index %d: a removed region of %r holds fewer than %d high-cost samples' % (p, kept, N), c)
    if got and ct.collapse_cost(mon, clip=False, limit=limit, samples=N, mask=got) != {}:
        res.violation(key + 'idempotent', 'own output as mask gives %r' % (ct.collapse_cost(mon, clip=False, limit=limit, samples=N, mask=got),), c)
    clipped = ct.collapse_cost(mon, clip=True, limit=limit, samples=N)
    for p, kept in clipped.items():                                      # informational only (clip semantics unstated)
        if any(good[k] and not any(a <= X[k][p] <= b for a, b in kept) for k in range(n)):
            res.extra['clip_true_drops_low_cost_samples'] = res.extra.get('clip_true_drops_low_cost_samples', 0) + 1
            break


# ----------------------------------------------------------------------------- family: solver runs
def obj_flat(x):
    return (x[0] - 1.0) ** 2 + (x[1] + 0.5) ** 2


def obj_zero(x):
    return (x[0] - 1.0) ** 2 + x[1] ** 2 + (x[2] - 2.0) ** 4


def obj_tied(x):
    return (x[0] - x[1]) ** 2 + (x[0] + x[1] - 2.0) ** 2 + (x[2] - 3.0) ** 2


def obj_rosen(x):
    return sum(100.0 * (x[i + 1] - x[i] ** 2) ** 2 + (1 - x[i]) ** 2 for i in range(len(x) - 1))


OBJ = {'flat': obj_flat, 'zero': obj_zero, 'tied': obj_tied, 'rosen': obj_rosen}
TERMS = {'flat': [('at', None)], 'zero': [('at', 0.0), ('at', 'list0')], 'tied': [('as', False), ('at', None)],
         'rosen': [('as', False), ('at', 1.0), ('at', 'list1'), ('both', 1.0)]}


def objective(sc):
    """the user's cost of a scenario; 'quad' = separable quadratic with the optimum sc['opt'] and curvatures sc['w']"""
    if sc['obj'] != 'quad':
        return OBJ[sc['obj']]
    opt, w = [float(v) for v in sc['opt']], [float(v) for v in sc['w']]
    return lambda x: sum(wi * (xi - oi) ** 2 for xi, oi, wi in zip(x, opt, w))


def unit_weights(npts):
    """the user's own constraint of a measure scenario: weights non-negative with unit sum per measure, positions untouched"""
    wi, _ = layout(npts)

    def constrain(x):
        x = [float(v) for v in x]
        for grp in wi:
            w = [abs(x[i]) for i in grp]
            t = sum(w)
            for i, v in zip(grp, w):
                x[i] = v / t if t > 0 else 1.0 / len(grp)
        return x
    return constrain


class Timeout(Exception):
    pass


def _alarm(*a):
    raise Timeout()


LOG_CAP = 200          # Collapse() calls recorded per run (real runs apply at most a handful of collapses)


def run_solve(sc):
    """returns (error or None, log, calls, final, termination state)"""
    import mystic.termination as mt
    seed_all(sc['seed'])
    nd = len(sc['x0'])
    s = make_solver(sc['solver'], nd)
    if sc['solver'].startswith('DE'):
        s.SetRandomInitialPoints(*sc.get('box', ([-2.0] * nd, [3.0] * nd)))
    else:
        s.SetInitialPoints(sc['x0'])
    s.SetEvaluationLimits(generations=sc['maxgen'])
    if sc.get('npts'):                   # parameters are a product measure: per measure its weights then its positions
        from mystic.monitors import Monitor
        s.SetGenerationMonitor(Monitor(npts=tuple(sc['npts'])))
        s.SetConstraints(unit_weights(sc['npts']))
    what, tgt = sc['term']
    tgt = {'list0': [1.0, 0.0, 2.0], 'list1': [1.0, 1.0, 1.0]}.get(tgt, tgt) if isinstance(tgt, str) else tgt
    conds = []
    if what in ('at', 'both'):
        conds.append(mt.CollapseAt(tgt, sc['tol'], sc['g']))
    if what in ('as', 'both'):
        conds.append(mt.CollapseAs(False, sc['tol'], sc['g']))
    if what == 'position':
        conds.append(mt.CollapsePosition(sc['tol'], sc['g']))
    if sc.get('cog'):                    # tied optima have a non-zero cost: a flat-cost stop lets the run end by itself
        conds.append(mt.ChangeOverGeneration(1e-12, sc['cog']))
    else:
        conds.append(mt.VTR(1e-14))
    term = mt.Or(*conds)
    rec = Recorder(objective(sc))
    log = []
    orig = s.Collapse

    def hook(disp=False):
        if len(log) >= LOG_CAP:          # a run that collapses for ever is cut by the guard; its log stays analysable
            return orig(disp)
        before = (rec.n, [float(v) for v in s.bestSolution], mt.state(s._termination))
        r = orig(disp)
        log.append(before + (r, mt.state(s._termination)))
        return r
    s.Collapse = hook                    # instance attribute: _Solve's self.Collapse(...) goes through the hook
    err = None
    if hang_budget_spent():
        return 'SKIPPED', [], [], [], {}
    old = signal.signal(signal.SIGVTALRM, _alarm)       # CPU seconds of this process, not wall clock (load-independent)
    signal.setitimer(signal.ITIMER_VIRTUAL, sc.get('guard', 30))
    try:
        s.Solve(rec, term)
    except Timeout:
        err = 'no return within %d CPU-seconds' % sc.get('guard', 30)
        hang_seen()
    except Exception as e:
        err = 'raised %r' % (e,)
    finally:
        signal.setitimer(signal.ITIMER_VIRTUAL, 0)
        signal.signal(signal.SIGVTALRM, old)
    return err, log, rec.calls, [float(v) for v in s.bestSolution], mt.state(s._termination)


def _mask_of(state, prefix):
    for k, v in state.items():
        if k.startswith(prefix + ' '):
            return k, v
    return None, {}


def _closure(seed, edges):
    comp, grew = set(seed), True
    while grew:
        grew = False
        for i, j in edges:
            if (i in comp) != (j in comp):
                comp |= {i, j}
                grew = True
    return comp


def event_shape(pairs):
    """what a single reported set of pairs looks like: members shared in the first / second / mixed position, and
    whether the set is transitively closed (a non-transitive tie reports (a,c),(b,c) without (a,b))"""
    pairs = sorted(pairs)
    out = set()
    for (a, b), (c, d) in itertools.combinations(pairs, 2):
        if a == c:
            out.add('first')
        if b == d:
            out.add('second')
        if b == c or a == d:
            out.add('mixed')
    have = {frozenset(p) for p in pairs}
    for p in pairs:
        comp = _closure(p, pairs)
        if any(frozenset(q) not in have for q in itertools.combinations(sorted(comp), 2)):
            out.add('open')
    return out


def check_solve(res, sc):
    key = 'C11/bounded/solve/'
    err, log, calls, final, endstate = run_solve(sc)
    if err == 'SKIPPED':                 # only after repeated hangs, every one of them reported
        res.extra['skipped_after_repeated_hangs'] = res.extra.get('skipped_after_repeated_hangs', 0) + 1
        return
    applied = [e for e in log if e[3]]
    lt = '#list-target' if isinstance(sc['term'][1], str) else ''
    fixed, tied, seen = [], [], {'CollapseAt': set(), 'CollapseAs': set(), 'CollapsePosition': set()}
    ppos = layout(sc['npts'])[1] if sc.get('npts') else None
    pnorm = lambda m: {(int(q), tuple(sorted(int(v) for v in p))) for q, ps in (m or {}).items() for p in ps}
    src, shapes = {}, set()              # (evaluation count, indices) -> the conditions that reported that relation
    pending = []
    for n0, best, st0, coll, st1 in applied:
        for k, val in coll.items():
            kind = k.split(' ')[0]
            if kind not in seen:
                continue
            items = {int(i) for i in val} if kind == 'CollapseAt' else pnorm(val) if kind == 'CollapsePosition' else \
                {tuple(sorted(int(v) for v in p)) for p in val}
            if items & seen[kind]:
                pending.append((key + 'reported-once', '%s reported %r again (already applied %r)' % (kind, sorted(items & seen[kind]), sorted(seen[kind]))))
            seen[kind] |= items
            old = st0[k].get('mask') or set()
            _, new = _mask_of(st1, kind)
            norm = (lambda m: {int(i) for i in m}) if kind == 'CollapseAt' else pnorm if kind == 'CollapsePosition' else \
                (lambda m: {tuple(sorted(int(v) for v in p)) for p in m})
            if norm(new.get('mask') or set()) != norm(old) | items:
                pending.append((key + 'mask-grows', '%s mask %r -> %r after applying %r' % (kind, old, new.get('mask'), sorted(items))))
            if kind == 'CollapseAt':
                t = st0[k].get('target')
                fixed += [(n0, i, best[i] if t is None else float(t[i] if isinstance(t, list) else t)) for i in sorted(items)]
                for i in items:
                    src.setdefault((n0, (i,)), set()).add(k)
            else:
                if kind == 'CollapsePosition':           # (measure, (a, b)) -> the two position parameters
                    for q in {q for q, _ in items}:
                        shapes |= event_shape({p for r, p in items if r == q})
                    items = {(ppos[q][a], ppos[q][b]) for q, (a, b) in items}
                else:
                    shapes |= event_shape(items)
                tied += [(n0, i, j) for i, j in sorted(items)]
                for p in items:
                    src.setdefault((n0, p), set()).add(k)
    rel = [(m0, (i,)) for m0, i, _ in fixed] + [(m0, (i, j)) for m0, i, j in tied]
    joins = set()

    def later(n0, idx):
        """sub-case of a relation applied at evaluation count n0: are its parameters already constrained (directly or
        through applied ties) by an earlier collapse, or by another condition collapsing at the same moment?  Relations
        reported together by ONE condition are one collapse and are no sub-case."""
        idx = tuple(idx)
        comp = _closure(idx, [(i, j) for m0, i, j in tied if m0 <= n0])
        early = [ix for m0, ix in rel if m0 < n0 and set(ix) & comp]
        other = [ix for m0, ix in rel if m0 == n0 and ix != idx and set(ix) & comp and src[(m0, ix)] != src[(n0, idx)]]
        if early:
            # whole groups joined: everything that constrained these parameters before is a tie, and the pairs of this one
            # collapse by themselves connect every parameter those earlier ties reach (e.g. a new parameter c joining the
            # collapsed pair (a,b) through (a,c) and (b,c)): the earlier relations then ask for nothing different
            now = [(i, j) for m0, i, j in tied if m0 == n0 and src[(m0, (i, j))] == src[(n0, idx)]]
            whole = len(idx) == 2 and not other and all(len(ix) == 2 for ix in early) and _closure(idx, now) == comp
            if whole:
                joins.add(n0)
                return '#whole-group-join'
            return '#after-earlier-collapse'
        return '#simultaneous-collapses' if other else ''

    def stale(n0, idx):
        """sub-case: the reported solution is a point evaluated before the collapse and never evaluated afterwards"""
        f = tuple(final)
        old = any(x == f for x, _ in calls[:n0]) and not any(x == f for x, _ in calls[n0:])
        return '#stale-best' if old else later(n0, idx)
    subs = {later(n0, ix) for n0, ix in rel}
    if sc['obj'] == 'quad':
        what = '%s|%s|%s|%s' % (sc.get('npts') or len(sc['x0']), sc['start'], '+'.join(sorted(shapes)), '+'.join(sorted(subs)))
    else:
        what = '%s|%s' % (sc['obj'], sc['term'])
    res.case('%s%s|%s|g%d|%d' % (key, sc['solver'], what, sc['g'], min(len(applied), 2)), nontrivial=bool(applied), sample=sc)
    for sh in shapes:
        res.extra['solve_events_sharing_' + sh] = res.extra.get('solve_events_sharing_' + sh, 0) + 1
    if joins:
        res.extra['solve_whole_group_joins'] = res.extra.get('solve_whole_group_joins', 0) + len(joins)
    if err:
        res.violation(key + 'returns' + lt, 'Solve %s after %d collapses, %d evaluations' % (err, len(applied), len(calls)), sc)
    for k, detail in pending:
        res.violation(k, detail, sc)
    for n0, i, t in fixed:
        bad = [(q, x) for q, (x, _) in enumerate(calls[n0:], n0) if x[i] != t]
        if bad:
            res.violation(key + 'fixed-at-target' + lt + later(n0, (i,)), 'x[%d] fixed at %r from evaluation %d on, but evaluation %d '
                          'was at %r (%d such)' % (i, t, n0, bad[0][0], bad[0][1], len(bad)), sc)
        if not err and final[i] != t:
            res.violation(key + 'final-fixed' + lt + stale(n0, (i,)), 'x[%d] fixed at %r but the reported solution is %r' % (i, t, final), sc)
    for n0, i, j in tied:
        bad = [(q, x) for q, (x, _) in enumerate(calls[n0:], n0) if x[i] != x[j]]
        if bad:
            res.violation(key + 'tied-equal' + later(n0, (i, j)), 'x[%d]==x[%d] from evaluation %d on (collapse %r), but evaluation %d was at %r '
                          '(%d such)' % (i, j, n0, sorted(ix for m0, ix in rel if m0 == n0), bad[0][0], bad[0][1], len(bad)), sc)
        if not err and final[i] != final[j]:
            res.violation(key + 'final-tied' + stale(n0, (i, j)), 'x[%d]==x[%d] applied (collapse %r) but the reported solution is %r'
                          % (i, j, sorted(ix for m0, ix in rel if m0 == n0), final), sc)


def gen_solves(rng, n):
    out = []
    combos = [(s, o, t) for s in ('NM', 'Powell', 'DE1', 'DE2') for o in OBJ for t in TERMS[o]]
    rng.shuffle(combos)
    for k in range(n):
        s, o, t = combos[k % len(combos)]
        fast = s == 'Powell'
        out.append({'kind': 'solve', 'solver': s, 'obj': o, 'term': list(t), 'seed': rng.randrange(10 ** 6),
                    'tol': rng.choice([1e-2, 5e-2] if fast else [1e-4, 1e-3, 1e-2]), 'g': rng.choice([1, 2] if fast else [5, 10, 20]),
                    'x0': [rng.uniform(-1.5, 2.5) for _ in range(3)], 'maxgen': 300, 'guard': 30})
    return out


def tie_values(rng, nd, tol):
    """nd values in clusters 0.8*tol apart, members in arbitrary index order: offsets k in {0,1,2} steps -> (0,1) and (1,2)
    are within the tolerance, (0,2) is not (a non-transitive tie whenever the middle value has the highest index)"""
    bases, opt = rng.sample(range(-4, 5), nd), []
    while len(opt) < nd:
        base = bases[len(opt)] * 0.5
        size = min(rng.choice([1, 2, 3, 3, 4]), nd - len(opt))
        mode = rng.choice(['equal', 'steps', 'steps', 'between'])
        ks = {'equal': [0] * size, 'steps': [rng.randrange(3) for _ in range(size)], 'between': ([0, 2] + [1] * size)[:size]}[mode]
        opt += [base + 0.8 * tol * q for q in ks]
    order = list(range(nd))
    if rng.random() < 0.7:
        rng.shuffle(order)
    return [opt[i] for i in order]


def gen_ties(rng, n):
    """separable quadratics with a tied optimum (tie_values); unequal curvatures make coordinates converge, and so
    collapse, at different moments.  Every fourth scenario is a product measure (weights then positions per measure,
    weights kept non-negative with unit sum by the user's constraint) watched by CollapsePosition"""
    out = []
    for k in range(n):
        s = ('NM', 'Powell', 'NM', 'DE1', 'NM', 'Powell', 'DE2', 'NM')[(k // 4) % 8]
        fast = s == 'Powell'
        tol = rng.choice([1e-2, 5e-2] if fast else [1e-3, 1e-2, 5e-2])
        sc = {'kind': 'solve', 'solver': s, 'obj': 'quad', 'term': ['as', False], 'seed': rng.randrange(10 ** 6), 'tol': tol,
              'g': rng.choice([1, 2] if fast else [5, 10, 20]), 'cog': 60, 'maxgen': 400, 'guard': 30}
        if k % 4 == 3:
            sc['npts'] = rng.choice([[3], [4], [5], [3, 3]])
            sc['term'] = ['position', None]
            opt = []
            for m in sc['npts']:
                opt += [1.0 / m] * m + tie_values(rng, m, tol)
            free = [i for grp in layout(sc['npts'])[1] for i in grp]
        else:
            opt = tie_values(rng, rng.choice([4, 5, 6]), tol)
            free = range(len(opt))
        sc['start'] = rng.choice(['near', 'near', 'far'])
        r = 0.3 * tol if sc['start'] == 'near' else 0.5
        box = [r if i in free else 0.1 / len(opt) for i in range(len(opt))]
        sc.update(opt=opt, w=[rng.choice([1.0, 1.0, 4.0, 0.25]) for _ in opt], x0=[v + rng.uniform(-b, b) for v, b in zip(opt, box)],
                  box=[[v - b for v, b in zip(opt, box)], [v + b for v, b in zip(opt, box)]])
        out.append(sc)
    return out


# ----------------------------------------------------------------------------- driver
def work(c):
    res = Result('', '')
    c = dict(c, term=tuple(c['term'])) if c['kind'] == 'solve' else c
    {'solve': check_solve, 'cost': check_cost}.get(c['kind'], check_detector)(res, c)
    out = res.part()
    out['extra'] = res.extra
    return out


def chunk(cs):
    parts = [work(c) for c in cs]
    return parts


def run(tier='quick', seed=0):
    rng = random.Random(seed)
    nd, nc, ns, nt = (2500, 500, 96, 256) if tier == 'quick' else (60000, 10000, 2000, 6000)
    cases = [gen_case(rng, k) for k in ('at', 'as', 'weight', 'position') for _ in range(nd)]
    # collapse_cost (collapse of *bounds*) is not among the detectors of the C11 statement (parameters, pairs,
    # measure weights/positions): it is not demanded here (a defect in it was observed, see DESIGN section 5, O5)
    nc = 0
    solves = gen_solves(rng, ns)
    solves += gen_ties(rng, nt)
    res = Result(rule='detectors: %d seeded cases per detector (monitor of 3..14 records x 2..5 columns or a product-measure '
                 'layout npts in {(2,2),(3,3),(2,2,2),(3,)}; tolerance in %r; window 1..len; mask None/set/dict/'
                 'where drawn from the true collapse set and its complement, pairs in either order); distinct = (detector, '
                 'mask format, window class, tolerance, target/offset mode, mask source, npts, #reported capped at 2). '
                 'cost: %d monitors (clip=False; clip=True only counted in extra, its meaning is unstated). solve: %d runs (NM/Powell/DE1/DE2 x flat/zero/tied/rosen objective x '
                 'CollapseAt(None|scalar|list)/CollapseAs/both, Or-ed with VTR(1e-14)) + %d runs of the same solvers on separable '
                 'quadratics in 4..6 parameters (CollapseAs) or a product measure npts in {(3),(4),(5),(3,3)} with unit-sum '
                 'weights (CollapsePosition), Or-ed with ChangeOverGeneration(1e-12,60), whose optimum holds clusters of values '
                 '0.8*tolerance apart in arbitrary index order (equal / chained / non-transitive ties), started within 0.3*tol '
                 'or within 0.5 of it; distinct = (solver, size, start, positions in which the pairs of one collapse share a '
                 'member {first, second, mixed, open = not transitively closed}, sub-cases met {after-earlier-collapse, '
                 'whole-group-join = the pairs of one collapse connect everything earlier ties reach, simultaneous-collapses = '
                 'two conditions at once}, window, #collapses capped at 2); non-trivial = a collapse was applied.'
                 % (nd, TOLS, nc, ns, nt), bound='histories <= 14 records, <= 5 params / <= 3 measures x 3 points; solver '
                 'runs in 3..6 parameters or <= 2 measures x <= 5 points, <= 400 generations, 30 CPU-s guard per run')
    jobs = [cases[i::64] for i in range(64)] + [[s] for s in solves]
    for parts in pmap(chunk, jobs):
        for part in parts:
            res.merge(part)
            for k, v in part.get('extra', {}).items():
                res.extra[k] = res.extra.get(k, 0) + v
    return res.out()


def replay(inp):
    c = dict(inp)
    if 'npts' in c:
        c['npts'] = tuple(c['npts'])
    return not work(c)['violations']
