"""C01 bounded layer: whole-run scenarios (see rtc/solver_runs.py) and the one-line interfaces started from a point"""
import io
import math
import random
import contextlib
from .solver_runs import run_prop, replay_prop
from .common import Result, pmap, seed_all, jsonable, Recorder, COSTS

P = 'C01/bounded/wrappers/'


def _wrapper_case(sc):
    """fmin / fmin_powell / diffev / diffev2 started from the POINT x0 (any number of parameters, also 2): x0 is evaluated,
    the reported best is an evaluated point with its true energy, and it is never worse than f(x0)"""
    import mystic.solvers as ms
    seed_all(sc['seed'])
    f = COSTS[sc['cost']]
    rec = Recorder(f)
    x0 = list(sc['x0'])
    kw = dict(full_output=1, disp=0, maxiter=sc['maxiter'])
    if sc['wrapper'] in ('diffev', 'diffev2'):
        kw['npop'] = sc['npop']
    with contextlib.redirect_stdout(io.StringIO()):
        out = getattr(ms, sc['wrapper'])(rec, x0, **kw)
    best, be = [float(v) for v in out[0]], float(out[1])
    viol = []
    pts = [tuple(float(v) for v in c[0]) for c in rec.calls]
    if tuple(float(v) for v in x0) not in pts:
        viol.append(('start-point-never-evaluated', 'x0 %r is not among the %d evaluated points (first: %r)' % (x0, len(pts), pts[:2])))
    f0 = float(f(tuple(x0)))
    if be > f0 and not math.isnan(be):
        viol.append(('best-worse-than-the-start-point', 'reported best energy %r at %r, f(x0)=%r at x0=%r' % (be, best, f0, x0)))
    if tuple(best) not in pts:
        viol.append(('reported-best-was-never-evaluated', 'best %r' % (best,)))
    elif float(f(tuple(best))) != be:
        viol.append(('reported-energy-is-not-the-cost-at-the-reported-best', 'best %r reported %r true %r' % (best, be, float(f(tuple(best))))))
    return viol, len(pts)


def _work(sc):
    res = Result('', '')
    try:
        viol, n = _wrapper_case(sc)
    except Exception as e:      # noqa -- harness / scenario failure is not a violation of C01
        res.extra['wrappers_aborted'] = res.extra.get('wrappers_aborted', 0) + 1
        return res.part()
    res.case('wrapper|%s|%d|%s|%s' % (sc['wrapper'], len(sc['x0']), sc['cost'], sc['start']), nontrivial=n > 1)
    for clause, detail in viol:
        res.violation(P + sc['wrapper'] + '/' + clause, detail, jsonable(sc))
    return res.part()


OPTIMA = {'sphere': 0.0, 'shifted': 1.0}


def _scenarios(tier, seed):
    rng = random.Random(seed * 7919 + 1)
    out = []
    for i in range(24 if tier == 'quick' else 400):
        n = rng.choice([1, 2, 2, 2, 3, 4])
        cost = rng.choice(sorted(COSTS))
        start = rng.choice(['optimum', 'near', 'far'])
        if start == 'optimum' and cost in OPTIMA:
            x0 = [OPTIMA[cost]] * n
        elif start == 'near':
            x0 = [rng.choice([-1.0, 1.0, 0.5]) * (1 + 0.001 * k) for k in range(n)]
        else:
            x0 = [rng.uniform(-3.0, 3.0) for _ in range(n)]
        if n == 2 and x0[0] == x0[1]:
            x0[1] = x0[0] + (0.0 if start == 'optimum' and cost in OPTIMA else 0.25)
        out.append(dict(family='wrapper', wrapper=rng.choice(['fmin', 'fmin_powell', 'diffev', 'diffev2', 'diffev', 'diffev2']),
                        cost=cost, x0=x0, start=start, maxiter=rng.choice([1, 3, 10]), npop=rng.choice([4, 6, 10]),
                        seed=rng.randrange(10 ** 6)))
    return out


def run(tier='quick', seed=0):
    out = run_prop('C01', tier, seed)
    res = Result('', '')
    for part in pmap(_work, _scenarios(tier, seed)):
        res.merge(part)
    out['evaluations'] += res.evaluations
    out['distinct_nontrivial'] += len(res.distinct)
    out['violations'] += res.violations
    out['rule'] += ('; the one-line interfaces fmin / fmin_powell / diffev / diffev2 started from a point of 1-4 parameters (at, near '
                    'or far from the optimum, 1-10 iterations): x0 is evaluated, the best is an evaluated point with its true '
                    'energy and never worse than f(x0)')
    return out


def replay(inp):
    if inp.get('family') == 'wrapper':
        return not _wrapper_case(inp)[0]
    return replay_prop('C01', inp)
