"""C03 bounded layer: whole-run scenarios (see rtc/solver_runs.py)"""
from .solver_runs import run_prop, replay_prop


def run(tier='quick', seed=0):
    return run_prop('C03', tier, seed)


def replay(inp):
    return replay_prop('C03', inp)
