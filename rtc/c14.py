"""C14 bounded layer: condition functions (generate_conditions) and penalties (generate_penalty) compiled from
constraint text are evaluated on enumerated texts x points; the oracle evaluates both sides of every line of the TEXT
with python (variables bound by name, so index replacement is not trusted) and computes the documented per-line
penalty terms (DESIGN.md Appendix A.2) itself.  Cross clause: penalty(constraint(x)) for the constraint generated
from the same text via simplify / generate_solvers / generate_constraint.  Further families: `sequence` (several
compilations with different locals, every compiled function evaluated after the LAST compilation), locals whose names
coincide with names star-imported from math / numpy / builtins, and `join` (generate_penalty with join=and_/or_ and
None / single / per-function / nested / flat ptype)."""
import io
import math
import random
import operator
import itertools
import contextlib
from .common import Result, pmap, seed_all, jsonable, feq

OPS = {'<=': operator.le, '>=': operator.ge, '!=': operator.ne, '==': operator.eq, '=': operator.eq,
       '<': operator.lt, '>': operator.gt}
CMPS = ['=', '==', '<=', '>=', '<', '>', '!=']
XL = ['x', 'xx', 'xxx', 'y', 'yy', 'xy', 'yx', 'z', 'zz', 'zx', 'w', 'wx', 'xw', 'ww', 'v', 'vx']
AL = ['a', 'ab', 'b', 'ba', 'c', 'ca', 'ac', 'd', 'da', 'ad', 'bd', 'db', 'cd', 'dc', 'q', 'qa']
SCHEMES = ['x', 'y', 'xlist', 'alist']
GF = {'g1': lambda a, b=0.5: 0.5 * a - b + 1.0, 'g2': lambda a, b=2.0: abs(a) * b - 3.0}
TOLS = [None, None, {'tol': 1e-6, 'rel': 0.0}, {'tol': 1e-12, 'rel': 1e-3}]
PTYPES = ['default', 'quadratic', 'linear', 'uniform']
KS = [None, 1, 2.5, 1e6]
COEFS = [1, -1, 2, -2, 0.5, -0.25, 3, 0.1, -0.3, 7.5, 4, -1.5]
EPS = 1e-9
EXTRAS = ('none', 'product', 'abs', 'gcall', 'const')
CN = ['K0', 'e', 'pi', 'tau', 'inf', 'euler_gamma', 'nan', 'size', 'len', 'id']      # names of a constant given in locals
FN = ['g', 'hypot', 'gamma', 'power', 'pow', 'fmod']                                # names of a function given in locals
KV = [2.5, -0.75, 3.0, 0.25, 8.0, -1.5]
SEQ_TOLS = [None, {'tol': 1e-6, 'rel': 0.0}, {'tol': 1e-12, 'rel': 1e-3}, {'tol': 0.5, 'rel': 0.0}, {'tol': 1e-3, 'rel': 1e-6}]
FLAT = '#flat-ptype-nested-conditions'


def names_of(scheme, nv):
    return [scheme + str(i) for i in range(nv)] if scheme in 'xy' else (XL if scheme == 'xlist' else AL)[:nv]


def _side(terms, const, names):
    parts = ['%r*%s' % (c, names[j]) if c != 1 else names[j] for c, j in terms]
    if const is not None or not parts:
        parts.append(repr(const or 0))
    return ' + '.join(parts)


def line_text(ln, names):
    lhs = _side(ln['L'], ln['Lc'], names)
    if ln.get('extra'):
        lhs += ' + ' + ln['extra'] % tuple(names[j] for j in ln['ev'])
    return '%s %s %s%s' % (lhs, ln['cmp'], _side(ln['R'], ln['Rc'], names), ' + ' + ln['rname'] if ln.get('rname') else '')


def text_of(spec):
    names = names_of(spec['scheme'], spec['nv'])
    return '\n'.join(line_text(ln, names) for ln in spec['lines'])


def gen_program(cmp, scheme, nlines, extra, seed, cross=False, direct=False, family=None):
    """one constraint text.  cross: lines over disjoint variable groups; direct: every line already isolated
    (x_j cmp expression, usable by generate_solvers without simplify), possibly with a named constant on the right"""
    rng = random.Random('%s|%s|%d|%s|%d|%s' % (cmp, scheme, nlines, extra, seed, cross))
    nv = rng.choice([12, 14, 16]) if (cross or rng.random() < .6) else rng.choice([3, 5])
    # names given through locals: any name no variable name is a substring of (textual replacement is documented),
    # in particular names that math / numpy / builtins also export
    rn = random.Random('names|%s|%s|%d|%s|%d|%s|%s' % (cmp, scheme, nlines, extra, seed, cross, direct))
    cname, fname = (rn.choice([n for n in L if not any(v in n for v in names_of(scheme, 16))]) for L in (CN, FN))
    pool = list(range(nv))
    hot = [j for j in (1, 10, 11, 12, 0, nv - 1) if j < nv]           # one- and two-digit indices in one text
    lines = []
    groups = [pool[k::nlines] for k in range(nlines)]                 # cross family: disjoint variable groups
    for k in range(nlines):
        src = groups[k] if cross else (hot if rng.random() < .7 else pool)
        vs = rng.sample(src, min(len(src), rng.randint(2, 4)))
        isolated = direct or (cross and rng.random() < .5)
        nl = 1 if isolated else rng.randint(1, max(1, len(vs) - 1))
        ln = {'cmp': cmp if k == 0 else rng.choice(CMPS), 'isolated': isolated,
              'L': [[1 if (isolated or i == 0) else rng.choice(COEFS), j] for i, j in enumerate(vs[:nl])],
              'Lc': None if isolated or rng.random() < .6 else rng.choice(COEFS),
              'R': [[rng.choice(COEFS), j] for j in vs[nl:nl + (1 if isolated else 2)] if isolated or rng.random() < .6],
              'Rc': rng.choice(COEFS + [0, 0, 100.0, -3e5]) if not isolated or rng.random() < .5 else None}
        if extra != 'none' and k == 0 and not cross:
            ln['extra'] = {'product': '%s*%s', 'abs': 'abs(%s - %s)', 'gcall': fname + '(%s, %s)', 'const': cname + '*%s + 0*%s'}[
                'product' if (extra == 'abs' and scheme == 'alist') else extra]
            ln['ev'] = [rng.choice(src), rng.choice(src)]
        if direct and rn.random() < .7:
            ln['rname'] = cname
        lines.append(ln)
    fam = family or ('cross' if cross else 'conditions')
    return {'family': fam, 'scheme': scheme, 'nv': nv, 'lines': lines, 'seed': seed,
            'nvars_arg': rng.random() < .6 or scheme in ('xlist', 'alist') or cross, 'g': rng.choice(sorted(GF)),
            'tols': rng.choice(TOLS), 'tag': '%s%s|%s|%d|%s' % (family + '|' if family else '', cmp, scheme, nlines, extra),
            'cname': cname, 'fname': fname, 'K0': rn.choice(KV), 'mode': 'direct' if direct else ('cross' if cross else 'conditions')}


def gen_sequence(cmp, scheme, extra, direct, seed):
    """three compilations using the same names in `locals` with different values (constant, function, tol/rel); the
    first two of the same text, the third of another one; optionally through ONE dict object the caller updates"""
    rn = random.Random('seq|%s|%s|%s|%s|%d' % (cmp, scheme, extra, direct, seed))
    nl = rn.choice([1, 2, 3])
    base = gen_program(cmp, scheme, nl, extra, seed, cross=direct, direct=direct, family='sequence')
    kv, tl, steps = rn.sample(KV, 3), rn.sample(SEQ_TOLS, 3), []
    for i in range(3):
        st = base if i < 2 else gen_program(cmp, scheme, nl, extra, seed + 1, cross=direct, direct=direct, family='sequence')
        st = dict(st, cname=base['cname'], fname=base['fname'], K0=kv[i], g=sorted(GF)[(i + seed) % 2], tols=tl[i], step=i, tag='%s|step%d' % (base['tag'], i))
        st['lines'] = [dict(ln, **({'rname': base['cname']} if ln.get('rname') else {})) for ln in st['lines']]
        if i == 2:          # the other text uses the same names
            for ln in st['lines']:
                if ln.get('extra'):
                    ln['extra'] = base['lines'][0]['extra']
        steps.append(st)
    return {'family': 'sequence', 'steps': steps, 'seed': seed, 'shared_dict': rn.random() < .5,
            'tag': 'sequence|%s|%s|%s|%s' % (cmp, scheme, extra, direct)}


def _locals(spec):
    d = {spec.get('fname', 'g'): GF[spec['g']], spec.get('cname', 'K0'): spec.get('K0', 2.5)}
    d.update(spec['tols'] or {})
    return d


def _api_args(spec):
    names = names_of(spec['scheme'], spec['nv'])
    return (spec['scheme'] if spec['scheme'] in 'xy' else names), ({'nvars': spec['nv']} if spec['nvars_arg'] else {})


def oracle(spec, v):
    """per line: (kind, value, documented-satisfied, truly-holds, scale) from python evaluation of the text at v"""
    names = names_of(spec['scheme'], spec['nv'])
    env = dict(zip(names, v))
    env.update({'abs': abs, spec.get('fname', 'g'): GF[spec['g']], spec.get('cname', 'K0'): spec.get('K0', 2.5)})
    t = spec['tols'] or {}
    tol, rel = t.get('tol', 1e-15), t.get('rel', 1e-15)
    out = []
    for ln in spec['lines']:
        lhs, _, rhs = line_text(ln, names).partition(' %s ' % ln['cmp'])
        L, R = eval(lhs, {'__builtins__': {}}, env), eval(rhs, {'__builtins__': {}}, env)
        tolR, cmp = tol + abs(R) * rel, ln['cmp']
        scale = sum(abs(c * v[j]) for c, j in ln['L'] + ln['R']) + abs(ln['Lc'] or 0) + abs(ln['Rc'] or 0) + 1e-290 + (
            abs(spec.get('K0', 2.5)) if ln.get('rname') else 0)
        if cmp in ('=', '=='):
            val, kind = L - (R), 'eq'
        elif cmp == '!=':
            val, kind = ((L - (R)) == 0), 'eq'
        elif cmp == '<=':
            val, kind = L - (R), 'ineq'
        elif cmp == '>=':
            val, kind = -(L - (R)), 'ineq'
        elif cmp == '<':
            val, kind = L - (R - tolR), 'ineq'
        else:
            val, kind = -(L - (R + tolR)), 'ineq'
        sat = (val <= 0) if kind == 'ineq' else (val == 0)
        out.append((kind, val, bool(sat), bool(OPS[cmp](L, R)), scale + 2 * tolR / EPS if cmp in '<>' else scale))
    return out


def term(ptype, kind, k, c):
    """documented per-line penalty term (Appendix A.2), n = 0"""
    c = float(c)
    if ptype in ('default', 'quadratic'):
        k = 100 if k is None else k
        return float(k) * c ** 2 if kind == 'eq' else float(2 * k) * max(0., c) ** 2
    if ptype == 'linear':
        k = 100 if k is None else k
        return float(k) * abs(c) if kind == 'eq' else float(2 * k) * abs(max(0., c))
    k = float('inf') if k is None else k
    return (float(k) if c else 0.0) if kind == 'eq' else (float(k) if c > 0 else 0.0)


def _ptype(fam, kind):
    import mystic.penalty as mp
    return getattr(mp, ('quadratic' if fam == 'default' else fam) + ('_inequality' if kind == 'ineq' else '_equality'))


def build_penalties(spec, ineqf, eqf, kinds, res, key):
    """[(label, k, penalty, groups, combination, key tag)]; groups = [[(line, ptype family, ptype kind)]]: the
    documented value is the sum (join None / and_) or the minimum (or_) over groups of the sum of the group's terms"""
    import mystic.symbolic as ms
    import mystic.coupler as mc
    gi, ge = ([i for i, k in enumerate(kinds) if k == w] for w in ('ineq', 'eq'))
    order, nested, out = gi + ge, (ineqf, eqf), []
    for pt in PTYPES:                                     # sequential application, matched types (nested lists)
        for k in (KS if pt != 'default' else KS[:2]):
            ptype = None if pt == 'default' else ([_ptype(pt, 'ineq')] * len(gi), [_ptype(pt, 'eq')] * len(ge))
            out.append(('ptype=' + pt, k, (nested, ptype, None), [[(i, pt, kinds[i]) for i in order]], 'seq', ''))
    if spec['family'] == 'join':
        rng = random.Random('join|%d|%s' % (spec['seed'], spec['tag']))
        fam = {i: rng.choice(PTYPES[1:]) for i in order}             # a penalty type per line, heterogeneous
        sf, sk = rng.choice(PTYPES[1:]), kinds[order[0]]               # one type for every line
        own = lambda g: [(i, fam[i], kinds[i]) for i in g]
        forms = [('none', nested, None, [[(i, 'default', kinds[i]) for i in g] for g in (gi, ge)]),
                 ('single', nested, _ptype(sf, sk), [[(i, sf, sk) for i in g] for g in (gi, ge)]),
                 ('nested', nested, tuple([_ptype(fam[i], kinds[i]) for i in g] for g in (gi, ge)), [own(gi), own(ge)]),
                 ('per-function', list(ineqf) + list(eqf), [_ptype(fam[i], kinds[i]) for i in order], [own([i]) for i in order]),
                 ('flat', nested, [_ptype(fam[i], kinds[i]) for i in order], [own(gi), own(ge)])]
        for jn in (None, 'and_', 'or_'):
            for form, conds, ptype, groups in forms:
                if jn == 'or_' and not all(groups):       # the minimum over an empty group is 0: nothing to demand
                    continue
                for k in (None, 2.5):
                    lab = 'join=%s ptype=%s %r' % (jn, form, [[t[1:] for t in g] for g in groups])
                    out.append((lab, k, (conds, ptype, jn and getattr(mc, jn)), [g for g in groups if g], jn or 'seq',
                                FLAT if (jn and form == 'flat') else ''))
    pens = []
    for lab, k, (conds, ptype, jn), groups, comb, tag in out:
        try:
            pens.append((lab, k, ms.generate_penalty(conds, ptype=ptype, join=jn, **({} if k is None else {'k': k})), groups, comb, tag))
        except Exception as e:
            res.violation(key + 'penalty-builds' + tag, '%r %s k=%r: %s: %s' % (text_of(spec), lab, k, type(e).__name__, e), jsonable(spec))
    return pens


def points(spec, n, rng):
    nv, names = spec['nv'], names_of(spec['scheme'], spec['nv'])
    kinds = ['random', 'boundary', 'dyadic', 'boundary', 'ints', 'near', 'zeros', 'negative']
    for kind in (kinds * (n // len(kinds) + 1))[:n]:
        if kind in ('dyadic', 'boundary', 'near'):
            x = [rng.randint(-64, 64) / 8.0 for _ in range(nv)]
        elif kind == 'ints':
            x = [rng.randint(-4, 4) for _ in range(nv)]
        elif kind == 'zeros':
            x = [0.0] * nv
        elif kind == 'negative':
            x = [-rng.uniform(0, 50) for _ in range(nv)]
        else:
            x = [rng.uniform(-10, 10) for _ in range(nv)]
        if kind in ('boundary', 'near'):                  # put the unit-coefficient variable of each line on its boundary
            for ln in spec['lines']:
                j = ln['L'][0][1]
                if sum(1 for _, i in ln['L'] + ln['R'] if i == j) != 1 or j in ln.get('ev', []):
                    continue
                x[j] = 0.0
                o = oracle(dict(spec, lines=[dict(ln, cmp='=')], tols=None), x)[0]
                x[j] = -o[1]
                if kind == 'near':
                    x[j] = math.nextafter(x[j], rng.choice([-math.inf, math.inf]))
        yield kind, x


def compile_program(spec, res, stats, loc=None):
    """conditions, penalties and (cross / direct) the constraint of one text; None when a clause already failed"""
    import mystic.symbolic as ms
    fam, mode = spec['family'], spec.get('mode', spec['family'])
    key = 'C14/bounded/%s/' % fam
    var, kw = _api_args(spec)
    text = text_of(spec)
    loc = _locals(spec) if loc is None else loc
    with contextlib.redirect_stdout(io.StringIO()):
        try:
            ineqf, eqf = ms.generate_conditions(text, variables=var, locals=loc, **kw)
        except Exception as e:
            res.violation(key + 'builds', '%r: %s: %s' % (text, type(e).__name__, e), jsonable(spec))
            return
    kinds = [('ineq' if ln['cmp'] in ('<=', '>=', '<', '>') else 'eq') for ln in spec['lines']]
    if len(ineqf) != kinds.count('ineq') or len(eqf) != kinds.count('eq'):
        res.violation(key + 'split', '%r: %d inequality / %d equality functions' % (text, len(ineqf), len(eqf)), jsonable(spec))
        return
    ii, ie = iter(ineqf), iter(eqf)
    conds = [next(ii) if k == 'ineq' else next(ie) for k in kinds]
    pens = build_penalties(spec, ineqf, eqf, kinds, res, key)
    cons, cross = None, False
    if mode in ('cross', 'direct'):
        with contextlib.redirect_stdout(io.StringIO()):
            try:
                simp = text if mode == 'direct' else ms.simplify(text, variables=var)
                cons = ms.generate_constraint(ms.generate_solvers(simp, variables=var, locals=dict(loc), **kw))
            except Exception as e:
                stats.setdefault('aborted', []).append('%r: %s: %s' % (text, type(e).__name__, str(e)[:60]))
                return
        names = names_of(spec['scheme'], spec['nv'])
        heads = sorted(s.split()[0] for s in simp.split('\n') if s.strip())
        exact = all(ln['isolated'] for ln in spec['lines']) and heads == sorted(names[ln['L'][0][1]] for ln in spec['lines'])
        cross = 'exact' if exact else 'rounding'
    stats['programs'] = stats.get('programs', 0) + 1
    return {'text': text, 'conds': conds, 'pens': pens, 'cons': cons, 'cross': cross}


def eval_program(spec, b, res, stats, npts, whole=None):
    key = 'C14/bounded/%s/' % spec['family']
    rng = random.Random(spec['seed'] * 104729 + len(b['text']))
    for kind, x in points(spec, npts, rng):
        inp = dict(whole or spec, x=jsonable(x))
        if b['cons'] is not None:                         # cross clause: evaluate at the constrained point
            try:
                x = [float(v) for v in b['cons'](list(x))]
            except Exception as e:
                res.violation(key + 'constraint-call', '%r at %r: %s: %s' % (b['text'], x, type(e).__name__, e), inp)
                continue
        check_point(spec, b['text'], b['conds'], b['pens'], kind, x, res, stats, inp, b['cross'])


# ----------------------------------------------------------------------------- family: a != line coupled with a bound
NE_TEMPLATES = ['{a} <= {c}\n{a} != {c}', '{a} != {b}\n{a} <= {b}', '{b} != {a}\n{a} <= {b}', '{b} != {a}\n{a} >= {b}',
                '{a} != {b}\n{a} >= {b}', '{b} != {a}\n{a} <= {b}\n{d} >= 0.', '{a} >= {c}\n{a} != {c}', '{b} != {a} + 1.\n{a} <= {b}']


def gen_ne_coupled(seed):
    rng = random.Random('ne|%d' % seed)
    out = []
    for t in NE_TEMPLATES:
        nv = rng.choice([3, 4, 12])
        ia, ib, idd = rng.sample(range(nv), 3)
        names = {'a': 'x%d' % ia, 'b': 'x%d' % ib, 'd': 'x%d' % idd, 'c': repr(float(rng.choice([3, -2, 0, 1.5])))}
        out.append({'family': 'ne-coupled', 'text': t.format(**names), 'nv': nv, 'seed': seed, 'tag': 'ne-coupled|' + t})
    return out


def check_ne_coupled(spec, res, stats, npts, prop='C14'):
    """a `!=` line together with a non-strict bound on the same pair of variables (the parser makes the bound's solver
    step off the forbidden value): every line must hold at constraint(x) and the penalty of the same text must be 0"""
    import mystic.symbolic as ms
    key = prop + '/bounded/ne-coupled/'
    text, nv = spec['text'], spec['nv']
    rng = random.Random('nepts|%s|%d' % (text, spec['seed']))
    try:
        ineqf, eqf = ms.generate_conditions(text, nvars=nv)
        pen = ms.generate_penalty((ineqf, eqf))
        cons = ms.generate_constraint(ms.generate_solvers(text, nvars=nv))
    except Exception as e:      # noqa
        res.violation(key + 'compiles', 'compiling %r raised %r' % (text, e), dict(spec))
        return
    lines = [l.strip() for l in text.splitlines() if l.strip()]
    pts = [[float(rng.randint(-4, 4)) for _ in range(nv)] for _ in range(npts)] + [[3.0] * nv, [0.0] * nv, [float(i % 5) for i in range(nv)]]
    for x in pts:
        inp = dict(spec, x=list(x))
        y = [float(v) for v in cons(list(x))]
        env = {'x%d' % i: v for i, v in enumerate(y)}
        holds = all(eval(l, {}, env) for l in lines)
        p = float(pen(y))
        res.case('%s%s|%s' % (key, spec['tag'], 'moved' if y != x else 'kept'), True, sample=inp if y != x else None)
        if not holds or p != 0.0:
            res.violation(key + 'constraint-satisfies-condition', '%r: constraint(%r) = %r, lines hold: %s, penalty there %r'
                          % (text, x, y, holds, p), inp)
            return


GROUP_LINES = [('{a} >= 1.0', '{b} = {a} + 2.0'), ('{a} <= -3.0', '{b} = 2.0*{a}'), ('{a} = 4.0',), ('{a} <= {b} - 1.0', '{b} <= 6.0'),
               ('{a} >= 0.5',), ('{b} = 1.5', '{a} >= {b}')]


def gen_grouped(seed):
    """the documented tuple-of-strings form: each string is one group of lines over its own two variables"""
    rng = random.Random('grouped|%d' % seed)
    out = []
    for ngroups in (2, 3, 2, 3):
        nv = 2 * ngroups + rng.choice([0, 1])
        texts = []
        for g in range(ngroups):
            t = rng.choice(GROUP_LINES)
            texts.append('\n'.join(l.format(a='x%d' % (2 * g), b='x%d' % (2 * g + 1)) for l in t))
        out.append({'family': 'grouped', 'texts': texts, 'nv': nv, 'seed': seed, 'ctype': rng.choice([None, 'inner']),
                    'tag': 'grouped|%d|%s' % (ngroups, '+'.join(str(len(t.splitlines())) for t in texts))})
    return out


def check_grouped(spec, res, stats, npts, prop='C14'):
    """constraints given as a TUPLE of strings (one group of functions per string): the constraints function compiled
    from the tuple drives the penalty compiled from the same tuple to zero, every line holds there, and the penalty equals
    that of the same lines given as one string"""
    import mystic.symbolic as ms
    key = prop + '/bounded/grouped/'
    texts, nv = tuple(spec['texts']), spec['nv']
    single = '\n'.join(texts)
    rng = random.Random('grouped-pts|%s|%d' % (single, spec['seed']))
    try:
        pen = ms.generate_penalty(ms.generate_conditions(texts, nvars=nv))
        pen1 = ms.generate_penalty(ms.generate_conditions(single, nvars=nv))
        kw = {}
        if spec.get('ctype') == 'inner':
            from mystic.coupler import inner
            kw['ctype'] = inner
        cons = ms.generate_constraint(ms.generate_solvers(texts, nvars=nv), **kw)
    except Exception as e:      # noqa
        res.violation(key + 'compiles', 'compiling %r raised %r' % (texts, e), dict(spec))
        return
    lines = [l.strip() for l in single.splitlines() if l.strip()]
    for x in [[float(rng.randint(-8, 8)) / 2 for _ in range(nv)] for _ in range(npts)] + [[0.0] * nv]:
        inp = dict(spec, x=list(x))
        if not feq(float(pen(x)), float(pen1(x)), 1e-12, 0.0):
            res.violation(key + 'penalty-equals-that-of-the-same-lines-in-one-string', '%r at %r: %r vs %r' % (texts, x, pen(x), pen1(x)), inp)
            return
        y = [float(v) for v in cons(list(x))]
        env = {'x%d' % i: v for i, v in enumerate(y)}
        holds = all(eval(l.replace(' = ', ' == '), {}, env) for l in lines)
        p = float(pen(y))
        res.case('%s%s|%s' % (key, spec['tag'], 'moved' if y != x else 'kept'), True, sample=inp if y != x else None)
        if not holds or p != 0.0:
            res.violation(key + 'constraint-satisfies-condition', '%r: constraint(%r) = %r, lines hold: %s, penalty there %r'
                          % (texts, x, y, holds, p), inp)
            return


def check_program(spec, res, stats, npts):
    if spec['family'] == 'ne-coupled':
        return check_ne_coupled(spec, res, stats, npts)
    if spec['family'] == 'grouped':
        return check_grouped(spec, res, stats, npts)
    if spec['family'] != 'sequence':
        b = compile_program(spec, res, stats)
        return b and eval_program(spec, b, res, stats, npts)
    shared, built = {}, []
    for st in spec['steps']:                              # compile everything first ...
        if spec.get('shared_dict'):                       # ... through one dict object the caller keeps updating
            shared.clear()
            shared.update(_locals(st))
        built.append(compile_program(st, res, stats, shared if spec.get('shared_dict') else None))
    for st, b in zip(spec['steps'], built):               # ... then use every compiled function
        if b:
            eval_program(st, b, res, stats, npts, dict(spec, step=st['step']))


def _real(v):
    """a real scalar (python / numpy number or bool), i.e. something the order clauses can be asked about"""
    try:
        return not isinstance(v, complex) and float(v) == v
    except Exception:
        return False


def check_point(spec, text, conds, pens, kind, x, res, stats, inp, cross):
    key = 'C14/bounded/%s/' % spec['family']
    orc = oracle(spec, x)
    if not all(math.isfinite(float(o[1])) for o in orc):
        stats['skipped_nonfinite'] = stats.get('skipped_nonfinite', 0) + 1
        return
    allsat = all(o[2] for o in orc)
    res.case('%s|%s|%s|%s' % (spec['tag'], kind, allsat, cross), not allsat or bool(cross),
             {'text': text, 'x': jsonable(x), 'point_kind': kind, 'all_lines_satisfied': allsat})
    if any(o[1] == 0 and not isinstance(o[1], bool) for o in orc):
        stats['exact_boundary_points'] = stats.get('exact_boundary_points', 0) + 1
    for ln, f, (k, val, sat, truth, scale) in zip(spec['lines'], conds, orc):
        try:
            got = f(list(x))
        except Exception as e:
            res.violation(key + 'condition-call', '%r line %r at %r: %s: %s' % (text, ln['cmp'], x, type(e).__name__, e), inp)
            return
        d = '%r line %r at %r: value %r, oracle %r' % (text, ln['cmp'], x, got, val)
        if not (_real(got) and got == val):               # the remaining clauses need an ordered value
            res.violation(key + 'value', d, inp)
            if not _real(got):
                continue
        if ln['cmp'] in ('<=', '>=') and (got <= 0) != truth:
            res.violation(key + 'inequality-iff-nonpositive', d, inp)
        if ln['cmp'] in ('=', '==', '!=') and (got == 0) != truth:
            res.violation(key + 'equality-iff-zero', d, inp)
        if ln['cmp'] in ('<', '>') and ((got <= 0) and not truth or (got <= 0) != sat):
            res.violation(key + 'strict-tolerance-side', d, inp)
        if cross and not (sat or (cross == 'rounding' and (abs(float(val)) if k == 'eq' else float(val)) <= EPS * scale)):
            res.violation(key + 'constraint-satisfies-condition#' + cross + ('-ne' if ln['cmp'] == '!=' and cross == 'rounding' else ''), d + ' (after the constraint; scale %r)' % scale, inp)
    for lab, k, pen, groups, comb, tag in pens:
        try:
            P = pen(list(x))
        except Exception as e:
            res.violation(key + 'penalty-call' + tag, '%r %s at %r: %s: %s' % (text, lab, x, type(e).__name__, e), inp)
            continue
        gsum, bound = [], 0.0
        for g in groups:
            t = 0.0
            for i, pf, pk in g:
                t = term(pf, pk, k, orc[i][1]) + t
                bound += term(pf, pk, k, EPS * orc[i][4]) if not orc[i][2] else 0.0
            gsum.append(t)
        pick = any if comb == 'or_' else all              # or_: the smallest group penalty; otherwise the sum
        total = min(gsum) if comb == 'or_' else sum(gsum, 0.0)
        zero = pick(all(orc[i][2] for i, _, _ in g) for g in groups)
        matched = all(pk == orc[i][0] for g in groups for i, _, pk in g)     # equality types on equalities, ...
        d = '%r %s k=%r at %r: penalty %r, documented %s %r' % (text, lab, k, x, P, 'minimum' if comb == 'or_' else 'sum', total)
        if not (_real(P) and feq(P, total, 1e-9, 0.0)):
            res.violation(key + 'penalty-sum' + tag, d, inp)
        if not matched or not _real(P):
            continue
        under = '#underflow' if (total == 0 and not zero) else ''      # the documented term itself underflows (c*c == 0)
        if under:
            res.extra['underflow_points_skipped'] = res.extra.get('underflow_points_skipped', 0) + 1
        elif (P == 0) != zero or not P >= 0:
            res.violation(key + 'zero-iff-all-satisfied' + tag, d, inp)
        if not under and P == 0 and not pick(all(orc[i][3] for i, _, _ in g) for g in groups):
            res.violation(key + 'zero-implies-relations-hold' + tag, d, inp)
        if cross == 'exact' and P != 0:
            res.violation(key + 'penalty-zero-after-constraint#exact', d, inp)
        if cross == 'rounding' and not lab.endswith('uniform') and not P <= bound:
            ne = any(l['cmp'] == '!=' and not o[2] for l, o in zip(spec['lines'], orc))   # 15-digit coefficients miss the point
            res.violation(key + 'penalty-zero-after-constraint#rounding' + ('-ne' if ne else ''), d + ' bound %r' % bound, inp)


def _work(job):
    specs, npts = job
    res, stats = Result('', ''), {}
    for spec in specs:
        seed_all(spec['seed'])
        check_program(spec, res, stats, npts)
    return res.part(), stats


def run(tier='quick', seed=0):
    reps, npts, ncross = (1, 8, 3) if tier == 'quick' else (6, 24, 20)
    res = Result(
        rule='conditions/penalty: complete product of first-line comparator (= == <= >= < > !=) x naming scheme (base '
             'x, base y, two explicit lists with names that are prefixes of each other) x 1-3 lines x extra (none, '
             'product, abs, function via locals, constant via locals), mostly 12-16 variables with x1/x10/x11/x12 in '
             'one text, nvars given or inferred, tol/rel default (1e-15) or set in locals; points: random, exactly on '
             'the boundary (dyadic data), dyadic grid, ints, float adjacent to the boundary, zeros, negative.  Oracle '
             'per line: L, R = python eval of the two sides with variables bound by name; value = L-R (<=, =), '
             '-(L-R) (>=), L-(R-t) (<), -(L-(R+t)) (>) with t = tol+|R|*rel, i.e. the documented tolerance is carried '
             'by the right-hand side and moves the zero of the condition INTO the feasible side; (L-R)==0 for != .  '
             'Checked: value == oracle (float ==); <=,>=: holds iff value<=0; =,==,!=: holds iff value==0; <,>: '
             'value<=0 iff L<=R-t (resp. L>=R+t), and value<=0 implies the strict relation.  Penalty for ptype in '
             'default/quadratic/linear/uniform (matched _inequality/_equality per condition) x k in default,1,2.5,1e6: '
             '== sum of k*c^2 | 2k*max(0,c)^2 | k|c| | 2k|max(0,c)| | k*[c!=0] | k*[c>0] (1e-9 relative), == 0 iff '
             'every line is satisfied in the above sense, >= 0, and == 0 implies every relation truly holds (sub-case #underflow when the documented term itself is 0.0 for c != 0).  cross: '
             'lines over disjoint variable groups, y = generate_constraint(generate_solvers(simplify(text)))(x): '
             'isolated-form lines kept by simplify -> every condition satisfied and every penalty == 0 exactly; '
             'otherwise every condition value <= 1e-9*(sum|coef*y|+|const|+1e-290) + 2t and quadratic/linear penalty <= the '
             'documented sum at those values.  Names given in locals (a constant, a two-argument function) are drawn '
             'from K0 e pi tau inf euler_gamma nan size len id / g hypot gamma power pow fmod, i.e. mostly names that '
             'math / numpy / builtins export too: the oracle binds the CALLER\'S values.  sequence: three compilations '
             '(generate_conditions + 14 generate_penalty, in the direct variant also generate_solvers/generate_constraint '
             'of already isolated lines with the named constant on the right, no simplify) with the same names bound to '
             'different values (constant, function, tol/rel out of 5 settings), text 1 = text 0 != text 2, locals passed '
             'as fresh dicts or as ONE dict updated in place; all clauses above are evaluated for every step AFTER the '
             'last compilation, each against its own text and locals.  join: generate_penalty with join in None, and_, '
             'or_ and ptype None | one type | list per function (conditions a flat list) | nested list mirroring '
             '(inequalities, equalities) | flat list over nested conditions, a random penalty type per line, k default or '
             '2.5: documented value = sum over groups (None, and_: unscaled linear combination) or minimum over groups '
             '(or_) of the sum of the group\'s per-line terms (group = inequalities / equalities, or the single function); '
             'zero iff every line (or_: every line of some group) is satisfied, checked when each line has a type of its '
             'own kind; or_ with an empty group is not demanded.  A flat ptype list over nested conditions WITH join is '
             'reported under sub-case ' + FLAT + '.  '
             'Distinct case = (family, program shape, step, point kind, satisfied?, cross mode).',
        bound='%s: %d x (7x4x3x5 = 420 texts) x %d points x 14 penalties; cross: %d x (7x4x3 = 84 texts) x %d points; join: %d x '
              '(7x4x3 = 84 texts of 2-4 lines) x %d points x (14 + <=30 penalties); sequence: %d x (7x4x4 = 112 sequences x 3 '
              'steps) x %d points x 14 penalties' % (tier, reps, npts, ncross, npts, reps, npts, reps, npts))
    progs = [gen_program(c, s, n, e, seed * 100 + r) for r in range(reps) for c, s, n, e in itertools.product(
        CMPS, SCHEMES, (1, 2, 3), EXTRAS)]
    cross = [gen_program(c, s, n, 'none', seed * 100 + r, cross=True) for r in range(ncross)
             for c, s, n in itertools.product(CMPS, SCHEMES, (1, 2, 3))]
    joins = [gen_program(c, s, n, EXTRAS[(i + r) % 5], seed * 100 + 50 + r, family='join') for r in range(reps)
             for i, (c, s, n) in enumerate(itertools.product(CMPS, SCHEMES, (2, 3, 4)))]
    seqs = [gen_sequence(c, s, e, d, seed * 100 + r) for r in range(reps) for c, s, (e, d) in itertools.product(
        CMPS, SCHEMES, (('const', False), ('gcall', False), ('none', False), ('none', True)))]
    nec = [sp for r in range(reps * 2) for sp in gen_ne_coupled(seed * 100 + r)]
    grp = [sp for r in range(reps * 2) for sp in gen_grouped(seed * 100 + r)]
    jobs = [(p[i:i + n], npts) for p, n in ((cross, 4), (joins, 3), (seqs, 6), (progs, 12), (nec, 8), (grp, 4)) for i in range(0, len(p), n)]
    tot = {}
    for part, stats in pmap(_work, jobs):
        res.merge(part)
        for k, v in stats.items():
            tot[k] = tot.get(k, 0) + v if isinstance(v, int) else tot.get(k, []) + v
    ab = tot.pop('aborted', [])
    res.extra.update(tot, aborted_count=len(ab), aborted=ab[:10], exhaustive=False)
    return res.out()


def replay(inp):
    res, stats = Result('', ''), {}
    spec = dict(inp)
    x, step = spec.pop('x', None), spec.pop('step', None)
    seed_all(spec['seed'])
    check_program(spec, res, stats, 24)
    return not res.violations
