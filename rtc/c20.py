"""C20 bounded layer: monitors and log files give back exactly what was recorded.

families
  record   Monitor(k) called n times: len, x[i], y[i], id[i], m[i] against the recorded values (nan-aware equality)
  ops      random sequences of call / extend / prepend / + / slice / int index / fancy index on a pool of monitors,
           checked after every operation against a plain-Python list model; the argument monitor is never altered
  log      LoggingMonitor(interval, file) / VerboseLoggingMonitor(interval, yinterval, xinterval, file) called with
           ids drawn from one of the pools LOG_IDS (never an id, always the boundary id 0, ensemble member indices
           0..3, None mixed with 0 / small / negative / large ints) -> munge.logfile_reader / munge.read_history with
           iter=True: the iterations (step,) / (step, id) INCLUDING the ids, the parameters and the costs come back
  files    munge.write_raw_file / write_support_file / write_converge_file -> read_raw_file / read_support_file /
           read_converge_file / read_history
k-scaling: exact for k in (None, 1, -1); for other k the statement is "to rounding": rel 1e-9 on moderate values.
"""
import io
import os
import copy
import contextlib
import math
import shutil
import random
import tempfile
import importlib
import signal
import resource
from .common import Result, pmap, np

INF, NAN = float('inf'), float('nan')
SPECIAL = [0.0, -0.0, 1.5, -2.25, INF, -INF, NAN, 5e-324, -5e-324, 1e308, -1e308, 1e-300, 0.1, 3.0]
MODERATE = [0.0, 1.5, -2.25, INF, -INF, NAN, 0.1, 3.0, 1e-3, -7e2]
KS = [None, None, 1, -1, 2.0, 0.5, 3.0, 0.1]
# id pools of the log family: an id is None (recorded without an id) or an int (e.g. the index of an ensemble member,
# which starts at 0); every int -- the falsy 0 included -- must come back as (step, id), None as (step,)
LOG_IDS = {'legacy': (None, None, 2, 5), 'none': (None,), 'zero': (0,), 'zero-or-none': (None, 0), 'member': (0, 1, 2, 3),
           'mixed': (None, 0, 0, 1, 2, 5, 7, -1, -3, 10 ** 6)}
_ENV = {'np': np, 'inf': INF, 'nan': NAN, 'array': np.array, 'float64': np.float64, 'int64': np.int64}


class Timeout(Exception):
    pass


class ApiError(Exception):
    """an exception raised inside a mystic call which the property implies must succeed"""


def api(fn, *a, **kw):
    try:
        return fn(*a, **kw)
    except (Timeout, MemoryError):
        raise
    except Exception as e:
        raise ApiError('%s%r raised %r' % (getattr(fn, '__name__', fn), a, e))


def _alarm(*a):
    raise Timeout()


def seq(v):
    return isinstance(v, (list, tuple, np.ndarray))


def plain(v):
    """independent 'listify': nested python lists, leaves untouched"""
    return [plain(u) for u in v] if seq(v) else v


def same(a, b, rel=0.0):
    if seq(a) or seq(b):
        return seq(a) and seq(b) and len(a) == len(b) and all(same(u, v, rel) for u, v in zip(a, b))
    if a is None or b is None:
        return a is None and b is None
    a, b = float(a), float(b)
    if math.isnan(a) or math.isnan(b):
        return math.isnan(a) and math.isnan(b)
    return a == b or (rel > 0 and not math.isinf(a) and not math.isinf(b) and math.isclose(a, b, rel_tol=rel, abs_tol=1e-300))


def trivial(k):
    return k is None or k in (1, -1)


def rel_of(*ks):
    return 0.0 if all(trivial(k) for k in ks) else 1e-9


def gen_value(rng, pool):
    return rng.choice(pool) if rng.random() < 0.6 else rng.choice([rng.uniform(-5, 5), float(rng.randrange(-3, 4))])


def gen_record(rng, d, pool, xkinds=('list', 'tuple', 'array', 'npscalars'), ykinds=('float', 'npfloat', 'int', 'vlist', 'varray', 'vtuple'),
               ids=(None, None, 0, 1, 7)):
    vals = [gen_value(rng, pool) for _ in range(d)]
    xk, yk = rng.choice(xkinds), rng.choice(ykinds)
    x = {'list': list(vals), 'tuple': tuple(vals), 'array': np.array(vals), 'npscalars': [np.float64(v) for v in vals],
         'scalar': vals[0]}[xk]
    yv = [gen_value(rng, pool) for _ in range(rng.choice([2, 3]))]
    y = {'float': yv[0], 'npfloat': np.float64(yv[0]), 'int': rng.randrange(-3, 4), 'vlist': list(yv), 'varray': np.array(yv),
         'vtuple': tuple(yv)}[yk]
    return x, y, rng.choice(ids)


def snapshot(m):
    return copy.deepcopy((m._x, m._y, m._id, m._info, m.k))


def compare(res, key, m, model, rel, inp, what=''):
    """monitor vs list model: len, x, y, id, integer index"""
    ok = True
    xs, ys, ids = api(lambda: (m.x, m.y, m.id))
    if not (len(m) == len(model) == len(xs) == len(ys) == len(ids)):
        res.violation(key + '/len', '%s: len %d/%d/%d/%d, recorded %d' % (what, len(m), len(xs), len(ys), len(ids), len(model)), inp)
        return False
    for i, (x, y, id_) in enumerate(model):
        if not same(xs[i], plain(x)):
            res.violation(key + '/x', '%s: x[%d] = %r, recorded %r' % (what, i, xs[i], x), inp)
            ok = False
        if not same(ys[i], plain(y), rel):
            res.violation(key + '/y', '%s: y[%d] = %r, recorded %r (k=%r)' % (what, i, ys[i], y, m.k), inp)
            ok = False
        if not same(ids[i], id_):
            res.violation(key + '/id', '%s: id[%d] = %r, recorded %r' % (what, i, ids[i], id_), inp)
            ok = False
    for i in ([0, len(model) - 1, -1, -len(model)] if model else []):
        for idx in (i, np.int64(i), np.intp(i)):          # an integer index is an integer index, python or numpy (argmin, arange)
            try:
                gx, gy = api(m.__getitem__, idx)
                good = same(gx, plain(model[i][0])) and same(gy, plain(model[i][1]), rel)
            except Exception as e:      # noqa -- raised, or returned something that is not a (parameters, cost) pair
                gx, gy, good = 'raised / malformed: %r' % (e,), None, False
            if not good:
                res.violation(key + '/getitem-int', '%s: m[%r] (%s) = %r, recorded %r' % (what, i, type(idx).__name__, (gx, gy), model[i][:2]), inp)
                ok = False
                break
    return ok


# ----------------------------------------------------------------------------- family: record
def check_record(res, c):
    from mystic.monitors import Monitor
    rng = random.Random(c['seed'])
    k = c['k']
    pool = SPECIAL if trivial(k) else MODERATE
    m = Monitor(k=k) if (k is not None or rng.random() < 0.5) else Monitor()
    model = []
    for _ in range(c['n']):
        x, y, id_ = gen_record(rng, rng.choice([1, 2, 3, 5]), pool, xkinds=('list', 'tuple', 'array', 'npscalars', 'scalar'))
        keep = copy.deepcopy((x, y))
        api(m, x, y, id=id_) if id_ is not None or rng.random() < 0.5 else api(m, x, y)
        if not (same(plain(x), plain(keep[0])) and same(plain(y), plain(keep[1]))):
            res.violation('C20/bounded/record/args-unchanged', 'call altered its arguments %r -> %r' % (keep, (x, y)), c)
        model.append((keep[0], keep[1], id_))
    res.case('C20/bounded/record|k=%r|n=%d' % (k, min(c['n'], 3)), nontrivial=c['n'] > 0, sample=c)
    compare(res, 'C20/bounded/record', m, model, rel_of(k), c, 'after %d calls' % c['n'])


# ----------------------------------------------------------------------------- family: ops (list model)
def check_ops(res, c):
    from mystic.monitors import Monitor
    rng = random.Random(c['seed'])
    ks = [rng.choice(KS) for _ in range(3)] if c['mixk'] else [rng.choice([None, 1, -1])] * 3
    rel = rel_of(*ks)
    pool = SPECIAL if rel == 0 else MODERATE
    d = rng.choice([1, 2, 3])
    homog = c['homog']                              # homogeneous records (needed for fancy indices)
    mons = [Monitor(k=k) for k in ks]
    models = [[] for _ in ks]
    key = 'C20/bounded/ops'
    trace = []

    def rec():
        if homog:
            return gen_record(rng, d, pool, xkinds=('list', 'array'), ykinds=('float', 'npfloat'), ids=(None, 3))
        return gen_record(rng, rng.choice([1, 2, 3]), pool)
    for step in range(c['nops']):
        op = rng.choice(['call', 'call', 'call', 'extend', 'prepend', 'add', 'slice', 'fancy' if homog else 'slice', 'int'])
        i, j = rng.randrange(3), rng.randrange(3)
        trace.append((op, i, j))
        inp = dict(c, failed_at=step, op=op)
        if op == 'call':
            x, y, id_ = rec()
            api(mons[i], x, y, id=id_)
            models[i].append((copy.deepcopy(x), copy.deepcopy(y), id_))
        elif op in ('extend', 'prepend', 'add'):
            if op != 'add' and i == j:
                continue                            # x.extend(x) / x.prepend(x): "the monitor passed" is the target itself
            before, before_i, arg = snapshot(mons[j]), snapshot(mons[i]), mons[j]
            if op == 'extend':
                api(mons[i].extend, mons[j])
                models[i] = models[i] + models[j]
            elif op == 'prepend':
                api(mons[i].prepend, mons[j])
                models[i] = models[j] + models[i]
            else:
                t = rng.randrange(3)
                new = api(mons[i].__add__, mons[j])
                if not same_snap(before_i, snapshot(mons[i])):
                    res.violation(key + '/add/left-unchanged', 'a + b altered a', inp)
                if new.k != mons[i].k and not (new.k is None and mons[i].k is None):
                    res.violation(key + '/add/k', 'a + b has k=%r, a.k=%r' % (new.k, mons[i].k), inp)
                newmodel = models[i] + models[j]
                mons[t], models[t] = new, newmodel
            if not same_snap(before, snapshot(arg)):
                res.violation(key + '/%s/argument-unchanged' % op, '%s altered the monitor passed to it' % op, inp)
        elif op in ('slice', 'fancy'):
            n = len(models[i])
            if op == 'slice':
                sl = slice(*[rng.choice([None, 0, 1, 2, -1, -2, n, n + 2]) for _ in range(2)] + [rng.choice([None, None, 1, 2, -1])])
                want = models[i][sl]
            else:
                if not n:
                    continue
                idx = [rng.randrange(-n, n) for _ in range(rng.randrange(1, 5))]
                sl = idx if rng.random() < 0.5 else np.array(idx)
                want = [models[i][q] for q in idx]
            before = snapshot(mons[i])
            new = api(mons[i].__getitem__, sl)
            if not same_snap(before, snapshot(mons[i])):
                res.violation(key + '/%s/source-unchanged' % op, 'm[%r] altered m' % (sl,), inp)
            t = rng.randrange(3)
            api(new, *rec()[:2])                           # the slice is an independent monitor: writing to it ...
            if not same_snap(before, snapshot(mons[i])):
                res.violation(key + '/%s/independent' % op, 'a call on m[%r] altered m' % (sl,), inp)
            new._x.pop(), new._y.pop(), new._id.pop()
            mons[t], models[t] = new, list(want)
            if new.k != ks[i] and not (new.k is None and ks[i] is None):
                res.violation(key + '/%s/k' % op, 'm[...] has k=%r, m.k=%r' % (new.k, ks[i]), inp)
            ks[t] = ks[i]
            trace[-1] = (op, i, t, repr(sl))
            for q in range(3):
                compare(res, key + '/' + op, mons[q], models[q], rel, inp, 'monitor %d after %r' % (q, trace[-3:]))
            continue
        if op == 'add':
            ks[t] = ks[i]
        for q in range(3):
            compare(res, key + '/' + op, mons[q], models[q], rel, inp, 'monitor %d after %r' % (q, trace[-3:]))
    res.case('%s|homog=%s|mixk=%s|%s' % (key, homog, c['mixk'], sorted({t[0] for t in trace})), nontrivial=True, sample=c)


def same_snap(a, b):
    return same(a[0], b[0]) and same(a[1], b[1]) and same(a[2], b[2]) and a[3] == b[3] and \
        (a[4] == b[4] or (a[4] is None and b[4] is None))


# ----------------------------------------------------------------------------- family: log
def check_log(res, c, tmp):
    from mystic.monitors import LoggingMonitor, VerboseLoggingMonitor
    from mystic import munge
    rng = random.Random(c['seed'])
    k, interval, n, d = c['k'], c['interval'], c['n'], c['d']
    idmode, kind = c.get('ids', 'legacy'), c.get('kind', 'log')
    pool = SPECIAL if trivial(k) else MODERATE
    rel = rel_of(k)
    fn = os.path.join(tmp, 'log_%d.txt' % c['seed'])
    kw = {} if k is None else {'k': k}
    if kind == 'verbose':                          # same file format; additionally prints every yinterval / xinterval
        yint, xint = rng.choice([0, 1, 3]), rng.choice([0, 0, 2])
        m = VerboseLoggingMonitor(interval, yint, xint, fn, **kw)
    else:
        m = LoggingMonitor(interval, fn, **kw)
    model = []
    with contextlib.redirect_stdout(io.StringIO()):
        for _ in range(n):
            x, y, id_ = gen_record(rng, d, pool, xkinds=('list', 'tuple', 'array', 'npscalars'),
                                   ykinds=('float', 'npfloat', 'int', 'vlist', 'varray'), ids=LOG_IDS[idmode])
            # an id of None is "no id": passing it and leaving it out are the same recording
            api(m, x, y, id=id_) if id_ is not None or rng.random() < 0.5 else api(m, x, y)
            model.append((copy.deepcopy(x), copy.deepcopy(y), id_))
    key = 'C20/bounded/log'
    res.case('%s|kind=%s|ids=%s|k=%r|interval=%d|d=%d|n=%d' % (key, kind, idmode, k, interval, d, min(n, 3)), nontrivial=n > 0, sample=c)
    compare(res, key + '/monitor', m, model, rel, c, 'LoggingMonitor in memory')
    logged = [(i, r) for i, r in enumerate(model) if i % interval == 0]
    want_steps = [(i,) if r[2] is None else (i, r[2]) for i, r in logged]
    try:
        steps, params, costs = munge.logfile_reader(fn, iter=True)
        p2, c2 = munge.logfile_reader(fn)
    except Exception as e:
        res.violation(key + '/logfile_reader/readable', 'raised %r on a file written by LoggingMonitor' % (e,), c)
        return
    if [tuple(s) for s in steps] != want_steps:
        res.violation(key + '/logfile_reader/iterations', 'read %r, logged %r' % (steps, want_steps), c)
    if not same(params, [plain(r[0]) for _, r in logged]) or not same(p2, params):
        res.violation(key + '/logfile_reader/params', 'read %r, logged %r' % (params, [r[0] for _, r in logged]), c)
    if not same(costs, [plain(r[1]) for _, r in logged], rel) or not same(c2, costs):
        res.violation(key + '/logfile_reader/costs', 'read %r, logged %r (k=%r)' % (costs, [r[1] for _, r in logged], k), c)
    try:
        ids, hp, hc = munge.read_history(fn, iter=True)
    except Exception as e:
        res.violation(key + '/read_history/readable', 'raised %r' % (e,), c)
        return
    if [tuple(s) for s in (ids or [])] != want_steps:
        res.violation(key + '/read_history/iterations', 'read %r, logged %r' % (ids, want_steps), c)
    if not traj_same(hp, [r[0] for _, r in logged], d, 'support'):
        res.violation(key + '/read_history/params', 'read %r, logged %r' % (hp, [r[0] for _, r in logged]), c)
    if not same(plain(hc), [plain(r[1]) for _, r in logged], rel):
        res.violation(key + '/read_history/costs', 'read %r, logged %r' % (hc, [r[1] for _, r in logged]), c)
    # the same log given as an OPEN FILE instead of its path: the same answer, with and without the iterations
    try:
        with open(fn) as fo:
            alt = munge.read_history(fo, iter=True)
        with open(fn) as fo:
            alt2 = munge.read_history(fo)
        ok = (len(alt) == 3 and [tuple(s_) for s_ in (alt[0] or [])] == [tuple(s_) for s_ in (ids or [])]
              and same(plain(alt[1]), plain(hp), rel) and same(plain(alt[2]), plain(hc), rel) and len(alt2) == 2 and same(plain(alt2[0]), plain(hp), rel))
    except Exception as e:
        res.violation(key + '/read_history/readable#file-object', 'raised %r' % (e,), c)
        return
    if not ok:
        res.violation(key + '/read_history/same-answer-from-an-open-file', 'path gave %r, open file gave %r' % ((ids, hp, hc), alt), c)


def traj_same(params, X, d, layout):
    """params in 'support' (parameter-major) or 'raw'/'converge' (iteration-major) nesting == trajectory X (n x d)"""
    n = len(X)
    try:
        a = np.array(params, dtype=float)
    except Exception:
        return False
    if a.size != n * d:
        return False
    a = a.reshape(d, n).T if layout == 'support' else a.reshape(n, d)
    return same(a.tolist(), [[float(v) for v in plain(x)] for x in X])


# ----------------------------------------------------------------------------- family: files
def expected_ids(ids):
    if all(i is None for i in ids):
        return [(q,) for q in range(len(ids))]
    return [(ids[:q].count(i), i) for q, i in enumerate(ids)]


def check_files(res, c, tmp):
    from mystic.monitors import Monitor
    from mystic import munge
    rng = random.Random(c['seed'])
    k, n, d = c['k'], c['n'], c['d']
    pool = SPECIAL if trivial(k) else MODERATE
    rel = rel_of(k)
    m = Monitor(k=k)
    idmode = c['ids']
    X, Y, ids = [], [], []
    for q in range(n):
        x, y, _ = gen_record(rng, d, pool, xkinds=('array', 'npscalars') if c['numpy'] else ('list', 'tuple'),
                             ykinds=(('npfloat',) if c['numpy'] else ('float',)) if not c['vector'] else ('vlist',))
        if c['vector']:
            y = y[:2]
        id_ = {'none': None, 'same': 4, 'mixed': rng.choice([0, 1, 2]), 'some': rng.choice([None, 1])}[idmode]
        m(x, y, id=id_)
        X.append(plain(x)), Y.append(plain(y)), ids.append(id_)
    tag = ('#numpy-scalars' if c['numpy'] else '')
    ktag = '' if k is None else '#k'
    base = 'C20/bounded/files/'
    want_ids = expected_ids(ids)
    res.case('%s|k=%r|d=%d|ids=%s|numpy=%s|vector=%s' % (base, k, d, idmode, c['numpy'], c['vector']), True, sample=c)
    pairs = [('raw', munge.write_raw_file, munge.read_raw_file, 'raw'), ('support', munge.write_support_file, munge.read_support_file, 'support'),
             ('converge', munge.write_converge_file, munge.read_converge_file, 'raw'), ('support-history', munge.write_support_file, munge.read_history, 'support')]
    for name, writer, reader, layout in pairs:
        fn = os.path.join(tmp, 'c20_%d_%d_%s.py' % (os.getpid(), c['seed'], name.replace('-', '_')))
        before = snapshot(m)
        key = base + name
        try:
            writer(m, fn)
            importlib.invalidate_caches()      # several modules appear in one directory within one mtime tick
            out = reader(fn, iter=True)
        except Exception as e:
            res.violation(key + '/readable' + tag, '%s -> %s raised %r' % (writer.__name__, reader.__name__, e), c)
            continue
        if not same_snap(before, snapshot(m)):
            res.violation(key + '/monitor-unchanged', '%s altered the monitor' % writer.__name__, c)
        try:
            rid, (params, costs) = (out[0], out[1]) if len(out) == 2 else (out[0], out[1:])
            ok_p, ok_c = traj_same(params, X, d, layout), same(plain(costs), Y, rel)
            ok_i = [tuple(t) for t in (rid or [])] == want_ids
        except Exception as e:      # noqa -- what was read back does not even have the shape of a trajectory
            res.violation(key + '/readable' + tag, '%s -> %s gave %r, which is not (ids, params, costs): %s: %s'
                          % (writer.__name__, reader.__name__, out, type(e).__name__, e), c)
            continue
        if not ok_p:
            res.violation(key + '/params' + tag, 'read %r, recorded %r' % (params, X), c)
        if not ok_c:
            res.violation(key + '/costs' + tag + ktag, 'read %r, recorded %r (k=%r)' % (costs, Y, k), c)
        if not ok_i:
            res.violation(key + '/ids' + tag, 'read %r, expected %r for ids %r' % (rid, want_ids, ids), c)


# ----------------------------------------------------------------------------- driver
def gen_cases(seed, tier):
    rng = random.Random(seed)
    nr, no, nl, nf = (2000, 2000, 1200, 800) if tier == 'quick' else (60000, 60000, 30000, 20000)
    cs = [{'family': 'record', 'seed': rng.randrange(10 ** 9), 'k': rng.choice(KS), 'n': rng.choice([0, 1, 2, 5, 12])} for _ in range(nr)]
    cs += [{'family': 'ops', 'seed': rng.randrange(10 ** 9), 'mixk': rng.random() < 0.5, 'homog': rng.random() < 0.5,
            'nops': rng.choice([6, 12, 25])} for _ in range(no)]
    cs += [{'family': 'log', 'seed': rng.randrange(10 ** 9), 'k': rng.choice(KS), 'interval': rng.choice([1, 1, 2, 3, 5]),
            'n': rng.choice([0, 1, 2, 4, 9]), 'd': rng.choice([1, 2, 4]), 'ids': rng.choice(sorted(LOG_IDS)),
            'kind': rng.choice(['log', 'log', 'verbose'])} for _ in range(nl)]
    cs += [{'family': 'files', 'seed': rng.randrange(10 ** 9), 'k': rng.choice([None, None, -1, 2.0]), 'n': rng.choice([1, 2, 3, 6]),
            'd': rng.choice([1, 2, 3]), 'ids': rng.choice(['none', 'same', 'mixed', 'some']), 'numpy': rng.random() < 0.3,
            'vector': rng.random() < 0.25} for _ in range(nf)]
    return cs


def work(cs):
    res = Result('', '')
    tmp = tempfile.mkdtemp(prefix='rtc_c20_', dir='/tmp')
    soft, hard = resource.getrlimit(resource.RLIMIT_AS)
    resource.setrlimit(resource.RLIMIT_AS, (2 * 2 ** 30, hard))      # a runaway operation must not eat the machine
    old = signal.signal(signal.SIGVTALRM, _alarm)       # CPU seconds of this process, not wall clock (load-independent)
    try:
        hung = {}
        for c in cs:
            fam = c['family']
            if hung.get(fam, 0) >= 2:              # this family hangs on this tree: already reported, do not wait again
                continue
            signal.setitimer(signal.ITIMER_VIRTUAL, 10)
            try:
                if fam in ('record', 'ops'):
                    (check_record if fam == 'record' else check_ops)(res, c)
                else:
                    (check_log if fam == 'log' else check_files)(res, c, tmp)
            except ApiError as e:
                res.violation('C20/bounded/%s/raises' % fam, e, c)
            except (Timeout, MemoryError) as e:
                hung[fam] = hung.get(fam, 0) + 1
                res.violation('C20/bounded/%s/completes' % fam, 'no completion within 10 CPU-seconds / 2 GB: %r' % (e,), c)
            finally:
                signal.setitimer(signal.ITIMER_VIRTUAL, 0)
    finally:
        signal.signal(signal.SIGVTALRM, old)
        resource.setrlimit(resource.RLIMIT_AS, (soft, hard))
        shutil.rmtree(tmp, ignore_errors=True)
    return res.part()


def run(tier='quick', seed=0):
    cs = gen_cases(seed, tier)
    res = Result(rule='seeded cases: record (n in 0..12 calls, x as list/tuple/array/numpy scalars/scalar of 1..5 entries, y python/'
                 'numpy scalar or 2..3-vector, id None/int, k in %r; values from %r + random); ops (6..25 random operations on 3 '
                 'monitors, model compared after each); log (LoggingMonitor / VerboseLoggingMonitor, interval 1..5, n 0..9, d 1..4, '
                 'id pools %r, read back with iter=True); files (3 writers x 4 readers, n 1..6, '
                 'd 1..3, id modes none/same/mixed/some, k None/-1/2). distinct = family + its configuration class. Not exercised: '
                 'x.extend(x) / x.prepend(x) (the monitor passed is the target; prepend(self) does not return).'
                 % (KS[1:], SPECIAL, sorted(LOG_IDS.values(), key=repr)), bound='<= 12 records per call sequence, <= 25 operations, <= 5 parameters')
    for part in pmap(work, [cs[i::64] for i in range(64)]):
        res.merge(part)
    return res.out()


def replay(inp):
    c = {k: v for k, v in inp.items() if k not in ('failed_at', 'op')}
    return not work([c])['violations']
